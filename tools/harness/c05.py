"""C05 — every clustering is a well-formed partition with consistent secondary outputs.

Correspondence (every case calls the real code from the overlay build of the working tree):
  run  lines -> the Lean model (SkNet/Model/Clustering.lean) recomputes from the same input
                * reindex_labels / get_membership / np.unique on label vectors,
                * the whole bookkeeping of Louvain.fit / Leiden.fit around the kernels (the labels returned by
                  `_optimize` / `_optimize_refine` and the stop flags are recorded by wrapping the bound methods
                  of the instance; the model redoes compaction, membership products, the stop logic, the
                  relabelling by size, the un-shuffle and the row/column split),
                * PropagationClustering's compaction / relabelling / split from the labels left by the sweeps,
                * _secondary_outputs in exact rational arithmetic (probs_, probs_row_, probs_col_, aggregate_),
                * KCenters' mask, _init_centers bookkeeping, restart selection and centre split.
  spec lines -> the Lean specification (SkNet/Spec/Clustering.lean: ValidClustering, ProbsOK, AggOK,
                KCentersOK, CentersSplitOK) evaluated on the estimator's own outputs.
"""
import numpy as np
from scipy import sparse

from vlib import graphs
from vlib.cases import Case, Sub, call as _call0
from vlib.core import (enc_csr, enc_list, enc_listlist, enc_bool, enc_ratlist, dec_list, dec_ratlist, _exact,
                       ToolFailure)

TOL = '1/1000000000'          # absolute tolerance handed to the Lean spec predicates for float outputs (1e-9)
TOL_F = 1e-9


def wscale(b):
    """scale of the weights of a matrix: sums of weights (aggregate_) are compared relative to it"""
    t = float(np.abs(sparse.csr_matrix(b).astype(float).data).sum())
    return t if t > 0 else 1.0


def tol_of(scale):
    from fractions import Fraction
    f = Fraction(1, 10 ** 9) * Fraction(scale)
    return '%d/%d' % (f.numerator, f.denominator)

RULE = ('label vectors: all of {0,1,2}^n for n<=5 in the thorough tier (quick: the first 40 and 120 sampled) + random vectors '
        'with gaps, negatives and tied sizes, up to 120 entries and up to 40 distinct labels (reindex_labels, np.unique, '
        'get_membership, contract of np.argsort); graphs: undirected with self-loops: all on 2 nodes, 20 sampled on 3 nodes '
        '(thorough: all on <= 3 nodes, 300 sampled on 4), digraphs on 3-4 nodes drawn at random, biadjacency shapes up to '
        '4x2 / 3x3 sampled + random up to 7x7, structured random graphs n<=14 (blocks, paths, stars, cliques, two '
        'components, isolated nodes, self-loops, sinks), graphs of 40-150 nodes made of 9-75 equal-size communities '
        '(labels and pipeline lines only), unit / integer / dyadic / a few arbitrary float weights, the same graphs '
        'rescaled by 1e-9 / 1e-12 / 1e+12, a weakly attached node (edges of weight 1e-9..1e-7 next to weights of order '
        '1), pairs (graph, 2^k * graph) whose labels_ and probs_ must coincide, bool / int dtype, '
        'unsorted indices, csc / coo / lil / dense containers, refused inputs (empty, all stored entries zero, negative '
        'degrees, unknown modularity, KCenters argument checks, directed on a non-square input) x Louvain, Leiden, '
        'PropagationClustering, KCenters x (modularity, resolution, shuffle_nodes, sort_clusters, return_probs, '
        'return_aggregate, n_aggregations, tol_aggregation >= 0, node_order, center_position, force_bipartite, directed, '
        'n_init, max_iter); nothing is exhaustive beyond the sizes stated; a case is non-trivial when the fitted '
        'clustering has at least 2 clusters or (label-vector cases) at least 2 distinct labels; distinct = distinct '
        '(entry, input, options, output kind)')
ASSUMPTIONS = ['np.argsort returns a sorting permutation (checked by contract_argsort on the keys of the label-vector cases; '
               'label vectors produced with sort_clusters are compared as partition + size profile, which loses nothing: '
               'theorem sorted_clusterings_same_profile)',
               'np.unique is the sorted-distinct/inverse/counts function of the model (checked by run lines)',
               'probs_ are compared within 1e-9 absolute, aggregate_ within 1e-9 relative to the total weight of the input',
               'the Louvain/Leiden kernels, the propagation sweeps, the PageRank scores and np.random are parameters of '
               'the model (their outputs are recorded and replayed), they belong to C06/C13/C04; assumed of them and '
               'evaluated by contract lines on every run: one label per node, refined clusters inside coarse clusters, '
               'no merge => stop flag (Louvain, tol_aggregation >= 0), one row of scores per node',
               'tol_aggregation >= 0 (a negative tolerance makes the real Louvain loop non-terminating: outside the '
               'options drawn); a fit that enters more rounds than nodes + 1 is stopped and reported as a failing input '
               '(fit does not return)',
               'KCenters is run on non-negative weights with positive total only (PageRank refuses other inputs inside '
               'the part that is a parameter of the model)',
               'a node "without outgoing edge" is read as a node of zero out-weight (explicit zeros count as no edge)']


def _call(f):
    """ValueError / IndexError are refusals the models know; anything else is a failure of the tooling."""
    return _call0(f, errors=(ValueError, IndexError))


class TooManyRounds(Exception):
    """raised by the Recorder when a fit enters more aggregation rounds than the adjacency has nodes, plus one:
    `louvain_fit_total` / `leiden_fit_total` bound the rounds by the number of nodes (a continuing round strictly
    shrinks the graph), so such a fit is on its way not to return"""


def _fit(ctx, f, sig, desc, refusal_expected=False):
    """Fit an estimator.  Returns 'ok', or 'err <Class>' when the fit raised a ValueError/IndexError on an input the
    model refuses too (`refusal_expected`: the run line then compares the two refusals).  Any other exception that
    comes out of the library means that no label is assigned on an input the model accepts: reported as a failing
    input (returns None).  An exception raised by this file is a tool failure."""
    import traceback
    import warnings
    try:
        with warnings.catch_warnings():
            warnings.simplefilter('ignore', RuntimeWarning)      # potts on an all-zero matrix divides by zero
            f()
        return 'ok'
    except TooManyRounds as e:
        # "after fit" presupposes that fit returns: more rounds than nodes contradicts the stop rule the total
        # theorems rest on (no merge => stop) -> a failing input, not a skip
        ctx.count('fit-not-terminating:%s' % sig.get('entry'))
        ctx.spec_fail(dict(sig, output='fit does not return'), desc, {'rounds_entered': str(e)})
        return None
    except Exception as e:
        tb = traceback.extract_tb(e.__traceback__)
        if tb and tb[-1].filename.endswith('c05.py'):
            raise
        ctx.count('fit-error:%s:%s' % (sig.get('entry'), type(e).__name__))
        if refusal_expected and isinstance(e, (ValueError, IndexError)):
            return 'err ' + type(e).__name__
        ctx.spec_fail(dict(sig, output='fit raised'), desc,
                      {'exception': repr(e), 'where': '%s:%s' % (tb[-1].filename, tb[-1].lineno) if tb else None})
        return None


def routed_bipartite(b, force_bipartite):
    """get_adjacency's decision, recomputed here (never taken from the estimator)"""
    return bool(force_bipartite) or b.shape[0] != b.shape[1]


def pre_refusal_expected(b, bip, modularity):
    """Mirror of `preProcessingOK` (Lean decides on the run line; this only classifies a raise):
    unknown modularity, or node weights refused by get_probs('degree', ...)."""
    modularity = str(modularity).lower()
    if modularity not in ('dugue', 'newman', 'potts'):
        return True
    if modularity == 'potts':
        return False
    a = sparse.csr_matrix(b).astype(float)
    rows = np.asarray(a.sum(axis=1)).ravel()
    cols = np.asarray(a.sum(axis=0)).ravel()

    def bad(v):
        return bool(np.any(v < 0) or v.sum() <= 0)
    if modularity == 'newman':
        return bad(np.concatenate([rows, cols])) if bip else bad(rows)
    return bad(rows) or bad(cols)


def as_container(b, container):
    if container == 'csc':
        return sparse.csc_matrix(b)
    if container == 'coo':
        return sparse.coo_matrix(b)
    if container == 'lil':
        return sparse.lil_matrix(b)
    if container == 'dense':
        return b.toarray()
    return b


def check_int_dtype(ctx, est, names, sig, desc):
    """'exactly one *integer* label': enc_list truncates with int(), so the dtype is checked here"""
    for nm in names:
        v = getattr(est, nm, None)
        if v is not None and not (np.issubdtype(np.asarray(v).dtype, np.integer)):
            ctx.spec_fail(dict(sig, output=nm + ' dtype'), desc, {'dtype': str(np.asarray(v).dtype)})


# ---------------------------------------------------------------------------------------------
# encoding helpers
# ---------------------------------------------------------------------------------------------
def enc_mat(m):
    """dense 2-d array -> exact rationals, rows ';' entries ','"""
    m = np.asarray(m)
    if m.shape[0] == 0:
        return '-'
    return ';'.join(enc_ratlist(_exact(v) for v in row) if len(row) else '-' for row in m)


def dec_mat(s):
    if s in ('-', '_'):
        return []
    return [[float(x) for x in dec_ratlist(r)] for r in s.split(';')]


def opt(x, f=enc_list):
    return '_' if x is None else f(x)


def gdesc(a):
    a = sparse.csr_matrix(a)
    return {'shape': list(a.shape), 'indptr': a.indptr.tolist(), 'indices': a.indices.tolist(),
            'data': [float(v) for v in a.data], 'dtype': str(a.dtype)}


def gfrom(d):
    m = sparse.csr_matrix((np.array(d['data'], dtype=float), np.array(d['indices'], dtype=np.int32),
                           np.array(d['indptr'], dtype=np.int32)), shape=tuple(d['shape']))
    return m.astype(np.dtype(d.get('dtype', 'float64')))


def canon_partition(labels):
    seen = {}
    return [seen.setdefault(int(x), len(seen)) for x in labels]


def sizes(labels):
    labels = [int(x) for x in labels]
    k = max(labels) + 1 if labels else 0
    return [labels.count(c) for c in range(k)]


# ---------------------------------------------------------------------------------------------
# label-vector cases
# ---------------------------------------------------------------------------------------------
def label_vector_cases(ctx, vec):
    from sknetwork.clustering.postprocess import reindex_labels
    from sknetwork.utils.membership import get_membership
    vec = [int(x) for x in vec]
    arr = np.array(vec, dtype=int)
    out = []
    nontriv = len(set(vec)) >= 2
    ev = enc_list(vec)
    desc = {'kind': 'labels', 'labels': vec}
    # reindex_labels
    impl = _call(lambda: 'ok ' + enc_list(reindex_labels(arr)))
    spec = 'c05.spec_reindex %s %s' % (ev, impl[3:]) if impl.startswith('ok ') else None
    out.append(Case(('reindex', ev), {'entry': 'reindex_labels'}, 'c05.reindex ' + ev, impl, spec, nontriv, desc,
                    canon='labels_sorted'))
    # contract of np.argsort on the key reindex_labels hands it (ties between equal sizes in particular)
    if vec:
        _, cnt = np.unique(arr, return_counts=True)
        out.append(Case(('argsort', ev), {'entry': 'np.argsort', 'output': 'contract:IsArgsort'}, None, None,
                        'c05.contract_argsort %s %s' % (enc_list(-cnt), enc_list(np.argsort(-cnt))), nontriv, desc))
    # np.unique (external; the model's reading of it)
    def fu():
        u, i, c = np.unique(arr, return_inverse=True, return_counts=True)
        return 'ok %s %s %s' % (enc_list(u), enc_list(i), enc_list(c))
    out.append(Case(('unique', ev), {'entry': 'np.unique'}, 'c05.unique ' + ev, _call(fu), None, nontriv, desc))
    # get_membership with and without n_labels
    if not vec:
        def fm0():
            m = get_membership(arr, n_labels=2)
            return 'ok %d %s' % (m.shape[1], '-')
        out.append(Case(('membership', ev, 2), {'entry': 'get_membership'}, 'c05.membership - 2', _call(fm0), None,
                        False, dict(desc, n_labels=2)))
    if vec:
        for k in (None, max(vec) + 2 if max(vec) >= -1 else 1, max(vec) if max(vec) >= 1 else 0):
            def fm():
                m = get_membership(arr, n_labels=k)
                m.sort_indices()
                rows = [m.indices[m.indptr[i]:m.indptr[i + 1]].tolist() for i in range(m.shape[0])]
                return 'ok %d %s' % (m.shape[1], enc_listlist(rows))
            out.append(Case(('membership', ev, k), {'entry': 'get_membership'},
                            'c05.membership %s %s' % (ev, '_' if k is None else k), _call(fm), None, nontriv,
                            dict(desc, n_labels=k)))
    return out


def label_vectors(ctx):
    rng = ctx.rng
    import itertools
    vs = [[]]
    for n in range(1, 6):
        for v in itertools.product(range(3), repeat=n):
            vs.append(list(v))
    if ctx.quick:
        vs = vs[:40] + rng.sample(vs[40:], 120)
    for _ in range(60 if ctx.quick else 600):
        n = rng.choice([3, 6, 10, 17, 25, 40, 60, 90, 120])
        k = rng.randint(1, max(1, min(n, rng.choice([9, 9, 24, 40]))))
        base = rng.sample(range(-3, 60), k)
        mode = rng.random()
        if mode < 0.4:      # many ties in the sizes
            v = [base[i % k] for i in range(n)]
            rng.shuffle(v)
        else:
            v = [rng.choice(base) for _ in range(n)]
        vs.append(v)
    return vs


# ---------------------------------------------------------------------------------------------
# estimators
# ---------------------------------------------------------------------------------------------
class Recorder:
    """Wraps the kernel entry points of one Louvain/Leiden instance (bound methods only)."""

    def __init__(self, est):
        self.levels = []      # (input labels, raw labels, increase)
        self.adj0 = None
        self.refined = []
        self.index = None
        o_opt = est._optimize
        o_pre = est._pre_processing

        def opt_(labels, *a, **k):
            lab_in = np.asarray(labels).copy()
            if self.levels and len(self.levels) > len(self.levels[0][0]):
                raise TooManyRounds('%d rounds on %d nodes' % (len(self.levels) + 1, len(self.levels[0][0])))
            if not self.levels and a:
                self.adj0 = sparse.csr_matrix(a[0]).copy()      # the graph of the first round
            res = o_opt(labels, *a, **k)
            self.levels.append((lab_in, np.asarray(res[0]).copy(), float(res[1])))
            return res

        def pre_(*a, **k):
            res = o_pre(*a, **k)
            self.index = np.asarray(res[4]).copy()
            self.n = res[0].shape[0]
            return res
        est._optimize = opt_
        est._pre_processing = pre_
        if hasattr(est, '_optimize_refine'):
            o_ref = est._optimize_refine

            def ref_(*a, **k):
                res = o_ref(*a, **k)
                self.refined.append(np.asarray(res).copy())
                return res
            est._optimize_refine = ref_


def all_labels(est):
    if est.bipartite:
        return list(est.labels_row_) + list(est.labels_col_)
    return list(est.labels_)


def attr(est, name):
    """row/column attributes (KCenters does not create them on a non-bipartite input)"""
    return getattr(est, name, None)


def fitted_str(est):
    return '%s %s %s' % (enc_list(est.labels_), opt(attr(est, 'labels_row_')), opt(attr(est, 'labels_col_')))


def secondary_cases(ctx, name, est, b, bip, sig0, desc, key0):
    """run + spec lines for probs_/probs_row_/probs_col_/aggregate_ of a fitted estimator."""
    out = []
    lab = all_labels(est)
    k = max(lab) + 1 if lab else 0
    g = enc_csr(b)
    rp, ra = bool(est.return_probs), bool(est.return_aggregate)
    impl = 'ok %s %s %s %s' % (opt(None if est.probs_ is None else est.probs_.toarray(), enc_mat),
                               opt(None if est.probs_row_ is None else est.probs_row_.toarray(), enc_mat),
                               opt(None if est.probs_col_ is None else est.probs_col_.toarray(), enc_mat),
                               opt(None if est.aggregate_ is None else est.aggregate_.toarray(), enc_mat))
    run = 'c05.secondary %s %s %s %s %s' % (g, enc_bool(bip), enc_list(lab), enc_bool(rp), enc_bool(ra))
    nontriv = k >= 2
    out.append(Case(key0 + ('secondary',), dict(sig0, output='secondary'), run, impl, None, nontriv, desc,
                    canon='mats', tol=wscale(b)))
    nr = b.shape[0]
    # whatever soft membership the estimator exposes must be a distribution over *its* labels
    for name, tr in (('probs_', 0), ('probs_row_', 0), ('probs_col_', 1)):
        p = getattr(est, name, None)
        if p is not None:
            out.append(Case(key0 + (name,), dict(sig0, output=name, return_probs=rp), None, None,
                            'c05.spec_probs %s %d %d %s %s' % (g, tr, k, enc_mat(p.toarray()), TOL), nontriv, desc))
    if est.aggregate_ is not None:
        lr = lab[:nr] if bip else lab
        lc = lab[nr:] if bip else lab
        out.append(Case(key0 + ('aggregate',), dict(sig0, output='aggregate_'), None, None,
                        'c05.spec_agg %s %s %s %d %s %s' % (g, enc_list(lr), enc_list(lc), k,
                                                           enc_mat(est.aggregate_.toarray()), tol_of(wscale(b))),
                        nontriv, desc))
    return out


def louvain_cases(ctx, cls_name, b, params, force_bipartite, container='csr', light=False):
    from sknetwork.clustering import Louvain, Leiden
    cls = {'Louvain': Louvain, 'Leiden': Leiden}[cls_name]
    desc = {'kind': 'estimator', 'est': cls_name, 'params': params, 'force_bipartite': force_bipartite,
            'graph': gdesc(b), 'container': container}
    sig0 = {'entry': cls_name, 'sort_clusters': params.get('sort_clusters', True),
            'shuffle_nodes': params.get('shuffle_nodes', False)}
    key0 = (cls_name, enc_csr(b), tuple(sorted(params.items())), force_bipartite, container)
    est = cls(**params)
    rec = Recorder(est)
    bip = routed_bipartite(b, force_bipartite)
    sig0['bipartite'] = bip
    x = as_container(b, container)
    res = _fit(ctx, lambda: est.fit(x, force_bipartite=force_bipartite), sig0, desc,
               refusal_expected=pre_refusal_expected(b, bip, est.modularity) or b.nnz == 0)
    if res is None:
        return []
    head = '%s %s %s %d' % (enc_csr(b), enc_bool(force_bipartite), est.modularity or '_', est.n_aggregations)
    cmd = 'c05.louvain' if cls_name == 'Louvain' else 'c05.leiden'
    if res != 'ok':
        # a refusal the model shares: routing / modularity / node weights
        mid = '- -' if cls_name == 'Louvain' else '- - -'
        return [Case(key0 + ('refusal',), dict(sig0, output='refusal'),
                     '%s %s %s %s %s %s' % (cmd, head, mid, '-' if rec.index is None else enc_list(rec.index),
                                            enc_bool(est.sort_clusters),
                                            enc_bool(est.shuffle_nodes)), res, None, False, desc)]
    if bool(est.bipartite) != bip:
        ctx.spec_fail(dict(sig0, output='bipartite flag'), desc, {'estimator': bool(est.bipartite), 'routing': bip})
    check_int_dtype(ctx, est, ('labels_', 'labels_row_', 'labels_col_'), sig0, desc)
    lab = all_labels(est)
    n_all = b.shape[0] + (b.shape[1] if bip else 0)
    nontriv = len(lab) > 0 and max(lab) >= 1
    out = []
    # the property on the output
    out.append(Case(key0 + ('valid',), dict(sig0, output='labels_'), None, None,
                    'c05.spec_valid %d %s %s' % (n_all, enc_list(lab), enc_bool(est.sort_clusters)), nontriv, desc))
    # the bookkeeping of fit around the kernels
    raws = [lv[1] for lv in rec.levels]
    flags = [1 if lv[2] <= est.tol_aggregation else 0 for lv in rec.levels]
    tail = '%s %s %s' % (enc_list(rec.index), enc_bool(est.sort_clusters), enc_bool(est.shuffle_nodes))
    impl = 'ok %d %s' % (len(rec.levels), fitted_str(est))
    if cls_name == 'Louvain':
        run = '%s %s %s %s %s' % (cmd, head, enc_listlist(raws), enc_list(flags), tail)
    else:
        run = '%s %s %s %s %s %s' % (cmd, head, enc_listlist(raws), enc_listlist(rec.refined), enc_list(flags), tail)
    eff = raws if cls_name == 'Louvain' else (list(rec.refined[:-1]) + [raws[-1]])
    spec = 'c05.spec_post %s %s %s %s' % (enc_listlist(eff), enc_list(rec.index), enc_bool(est.shuffle_nodes),
                                          enc_list(lab))
    out.append(Case(key0 + ('pipeline',), dict(sig0, output='pipeline'), run, impl, spec, nontriv, desc,
                    canon='fitted_sorted' if est.sort_clusters else None))
    ctx.count('levels:%d' % len(rec.levels))
    if rec.adj0 is not None and not light:
        k0 = rec.adj0.copy()
        k0.eliminate_zeros()
        out.append(Case(key0 + ('shuffle',), dict(sig0, output='shuffled adjacency'), None, None,
                        'c05.spec_shuffle %s %s %d %s %s %s' % (enc_csr(b), enc_bool(bip), k0.shape[0],
                                                               enc_list(k0.indptr), enc_list(k0.indices),
                                                               enc_list(rec.index)), nontriv, desc))
    for t, lv in enumerate(rec.levels):
        if len(lv[1]) != len(lv[0]):
            ctx.spec_fail(dict(sig0, output='contract:KernelLen'), desc, {'level': t, 'in': len(lv[0]), 'out': len(lv[1])})
    if est.tol_aggregation >= 0:
        # contracts behind the total (fuel-free) theorems
        for t, lv in enumerate(rec.levels):
            if cls_name == 'Louvain':
                out.append(Case(key0 + ('nomerge', t), dict(sig0, output='contract:NoMergeStops'), None, None,
                                'c05.contract_nomerge %s %d' % (enc_list(lv[1]), flags[t]), True, desc))
    if cls_name == 'Leiden':
        # contract of the refinement kernel assumed by `leiden_fit_valid`
        for t in range(len(rec.levels)):
            out.append(Case(key0 + ('within', t), dict(sig0, output='contract:LeidenContract.within'), None, None,
                            'c05.contract_leiden %s %s' % (enc_list(rec.levels[t][1]), enc_list(rec.refined[t])),
                            True, desc))
        # labels handed to the next round = coarse label of every refined cluster
        for t in range(1, len(rec.levels)):
            _, lab_prev = np.unique(rec.levels[t - 1][1], return_inverse=True)
            _, ref_prev = np.unique(rec.refined[t - 1], return_inverse=True)
            out.append(Case(key0 + ('next', t), dict(sig0, output='aggregate_refine'),
                            'c05.leiden_next %s %s' % (enc_list(lab_prev), enc_list(ref_prev)),
                            'ok ' + enc_list(rec.levels[t][0]), None, True, desc))
    if bip and list(est.labels_) != list(est.labels_row_):
        ctx.spec_fail(dict(sig0, output='labels_ is labels_row_'), desc, {'labels_': list(map(int, est.labels_))})
    if not light:
        out += secondary_cases(ctx, cls_name, est, b, bip, sig0, desc, key0)
    return out


class PropRecorder:
    """Records the labels left by Propagation.fit inside PropagationClustering.fit."""

    def __enter__(self):
        from sknetwork.classification.propagation import Propagation
        self.cls = Propagation
        self.orig = Propagation.fit
        rec = self
        rec.raw = None

        def fit(self_, *a, **k):
            r = rec.orig(self_, *a, **k)
            rec.raw = np.concatenate([np.asarray(self_.labels_row_), np.asarray(self_.labels_col_)]) \
                if self_.labels_col_ is not None and len(self_.labels_col_) else np.asarray(self_.labels_).copy()
            rec.raw_attr = np.asarray(self_.labels_).copy()
            return r
        Propagation.fit = fit
        return self

    def __exit__(self, *a):
        self.cls.fit = self.orig


def propagation_cases(ctx, b, params, seed=0, container='csr', light=False):
    from sknetwork.clustering import PropagationClustering
    desc = {'kind': 'estimator', 'est': 'PropagationClustering', 'params': params, 'graph': gdesc(b), 'np_seed': seed,
            'container': container}
    np.random.seed(seed)      # node_order='random' shuffles with the global generator
    sig0 = {'entry': 'PropagationClustering', 'sort_clusters': params.get('sort_clusters', True),
            'node_order': params.get('node_order')}
    key0 = ('PropagationClustering', enc_csr(b), tuple(sorted((k, str(v)) for k, v in params.items())), container)
    est = PropagationClustering(**params)
    bip = routed_bipartite(b, False)
    sig0['bipartite'] = bip
    x = as_container(b, container)
    with PropRecorder() as rec:
        res = _fit(ctx, lambda: est.fit(x), sig0, desc, refusal_expected=(b.nnz == 0))
    if res is None:
        return []
    if res != 'ok':
        return [Case(key0 + ('refusal',), dict(sig0, output='refusal'),
                     'c05.prop %d %d %d - %s' % (b.shape[0], b.shape[1], b.nnz, enc_bool(est.sort_clusters)),
                     res, None, False, desc)]
    if bool(est.bipartite) != bip:
        ctx.spec_fail(dict(sig0, output='bipartite flag'), desc, {'estimator': bool(est.bipartite), 'routing': bip})
    check_int_dtype(ctx, est, ('labels_', 'labels_row_', 'labels_col_'), sig0, desc)
    lab = all_labels(est)
    n_all = b.shape[0] + (b.shape[1] if bip else 0)
    nontriv = len(lab) > 0 and max(lab) >= 1
    out = [Case(key0 + ('valid',), dict(sig0, output='labels_'), None, None,
                'c05.spec_valid %d %s %s' % (n_all, enc_list(lab), enc_bool(est.sort_clusters)), nontriv, desc)]
    run = 'c05.prop %d %d %d %s %s' % (b.shape[0], b.shape[1], b.nnz, enc_list(rec.raw_attr), enc_bool(est.sort_clusters))
    out.append(Case(key0 + ('pipeline',), dict(sig0, output='pipeline'), run, 'ok ' + fitted_str(est), None, nontriv,
                    desc, canon='fitted_sorted0' if est.sort_clusters else None))
    if not light:
        out += secondary_cases(ctx, 'PropagationClustering', est, b, bip, sig0, desc, key0)
    return out


class KRecorder:
    def __enter__(self):
        import sknetwork.clustering.kcenters as kc
        self.kc = kc
        self.o_init = kc.KCenters._init_centers
        self.o_clf = kc.PageRankClassifier
        self.o_mod = kc.get_modularity
        rec = self
        rec.centers, rec.labels, rec.mods, rec.calls, rec.scores, rec.last_scores = [], [], [], 0, [], None

        def init(adjacency, mask, n_clusters):
            c = rec.o_init(adjacency, mask, n_clusters)
            rec.centers.append(np.asarray(c).copy())
            return c

        class Clf(self.o_clf):
            def fit_predict(self_, *a, **k):
                r = super().fit_predict(*a, **k)
                rec.last = np.asarray(r).copy()
                rec.last_scores = self_.probs_.toarray()     # the normalised scores the labels are read from
                rec.calls += 1
                return r

        def mod(*a, **k):
            v = rec.o_mod(*a, **k)
            rec.mods.append(v)
            rec.labels.append(rec.last)
            rec.scores.append(rec.last_scores)
            return v
        kc.KCenters._init_centers = staticmethod(init)
        kc.PageRankClassifier = Clf
        kc.get_modularity = mod
        return self

    def __exit__(self, *a):
        self.kc.KCenters._init_centers = staticmethod(self.o_init)
        self.kc.PageRankClassifier = self.o_clf
        self.kc.get_modularity = self.o_mod


def kcenters_str(est):
    return '%s %s %s' % (enc_list(est.centers_), opt(attr(est, 'centers_row_')), opt(attr(est, 'centers_col_')))


def kcenters_cases(ctx, b, params, force_bipartite, seed, container='csr'):
    from sknetwork.clustering import KCenters
    desc = {'kind': 'estimator', 'est': 'KCenters', 'params': params, 'force_bipartite': force_bipartite,
            'graph': gdesc(b), 'np_seed': seed, 'container': container}
    pos = params.get('center_position', 'row')
    sig0 = {'entry': 'KCenters', 'center_position': pos}
    key0 = ('KCenters', enc_csr(b), tuple(sorted(params.items())), force_bipartite, seed, container)
    est = KCenters(**params)
    np.random.seed(seed)
    x = as_container(b, container)
    with KRecorder() as rec:
        res = _call0(lambda: (est.fit(x, force_bipartite=force_bipartite), 'ok')[1],
                     errors=(ValueError, IndexError, TypeError))
    nr, nc = b.shape
    bip = routed_bipartite(b, force_bipartite)       # the routing is the model's, not the estimator's word
    sig0['bipartite'] = bip
    out = []
    head_full = '%d %d %d %s %s %d %d %d %s' % (est.n_clusters, est.n_init, est.max_iter, enc_bool(est.directed),
                                                enc_bool(force_bipartite), nr, nc, b.nnz, pos)
    sc_tok = '|'.join(enc_mat(m) for m in rec.scores) if rec.scores else '-'
    if res != 'ok':
        ctx.count('fit-error:KCenters:%s' % res)
        # the refusals of fit are part of the model
        out.append(Case(key0 + ('refuse',), dict(sig0, output='error'),
                        'c05.kcenters_full %s %s %s 0' % (head_full, enc_listlist(rec.centers), sc_tok),
                        res, None, False, desc))
        return out
    check_int_dtype(ctx, est, ('labels_', 'labels_row_', 'labels_col_', 'centers_', 'centers_row_', 'centers_col_'),
                    sig0, desc)
    lab = all_labels(est)
    nontriv = len(set(lab)) >= 2
    idx = int(np.argmax(rec.mods))
    n_nodes = nr + nc if bip else nr
    # contract assumed of PageRank: one row of scores per node of the adjacency (one column per centre)
    for t, m in enumerate(rec.scores):
        out.append(Case(key0 + ('scores', t), dict(sig0, output='contract:scores shape'), None, None,
                        'c05.contract_scores %d %d %s' % (n_nodes, est.n_clusters, enc_mat(m)), True, desc))
    # the whole fit: routing, checks, restarts, assignment loop, read-out of the labels, selection, bookkeeping
    spec = 'c05.spec_kcenters %s %d %d %s %d %s %s' % (
        enc_bool(bip), nr, nc, pos, est.n_clusters, enc_list(lab), kcenters_str(est))
    out.append(Case(key0 + ('full',), dict(sig0, output='labels_/centers_'),
                    'c05.kcenters_full %s %s %s %d' % (head_full, enc_listlist(rec.centers), sc_tok, idx),
                    'ok %d %s %s' % (rec.calls, fitted_str(est), kcenters_str(est)), spec, nontriv, desc))
    # _init_centers: bookkeeping of the mask for every restart
    for t, c in enumerate(rec.centers):
        out.append(Case(key0 + ('init', t), dict(sig0, output='_init_centers'),
                        'c05.initcenters %s %d %d %s %d %s' % (enc_bool(bip), nr, nc, pos, est.n_clusters, enc_list(c)),
                        'ok %s 1' % enc_list(c),
                        'c05.spec_centers %s %d %d %s %d %s' % (enc_bool(bip), nr, nc, pos, est.n_clusters, enc_list(c)),
                        nontriv, desc))
    return out


# ---------------------------------------------------------------------------------------------
# comparison up to what the code leaves free
# ---------------------------------------------------------------------------------------------
def _same(c, model, impl, spec_ok):
    if model.startswith('err') and impl.startswith('err'):
        return model.split()[1] == impl.split()[1]
    if c.canon in ('labels_sorted', 'fitted_sorted', 'fitted_sorted0') and model.startswith('ok') and impl.startswith('ok'):
        # ties between cluster sizes: np.argsort may order equal sizes differently
        mt, it = model.split(' '), impl.split(' ')
        if len(mt) != len(it):
            return False
        if c.canon == 'fitted_sorted':
            if mt[1] != it[1]:
                return False
            mt, it = mt[2:], it[2:]
        else:
            mt, it = mt[1:], it[1:]
        # rebuild the full vectors (rows then columns) to compare partitions
        def full(t):
            if len(t) == 3 and t[1] != '_':
                return dec_list(t[1]) + dec_list(t[2]), len(dec_list(t[1]))
            return dec_list(t[0]), None
        fm, sm = full(mt)
        fi, si = full(it)
        if sm != si or len(fm) != len(fi):
            return False
        if len(mt) == 3 and (mt[1] == '_') != (it[1] == '_'):
            return False
        if len(it) == 3 and it[1] != '_' and dec_list(it[0]) != dec_list(it[1]):
            return False
        return canon_partition(fm) == canon_partition(fi) and sizes(fm) == sizes(fi)
    if c.canon == 'agg' and model.startswith('ok') and impl.startswith('ok'):
        mt, it = model.split(' '), impl.split(' ')
        if mt[:3] != it[:3]:
            return False
        ma, mb = dec_mat(mt[3]), dec_mat(it[3])
        sc = c.tol or 1.0
        return len(ma) == len(mb) and all(len(x) == len(y) and all(abs(u - v) <= TOL_F * (sc + abs(u))
                                                                    for u, v in zip(x, y)) for x, y in zip(ma, mb))
    if c.canon == 'mats' and model.startswith('ok') and impl.startswith('ok'):
        mt, it = model.split(' '), impl.split(' ')
        if len(mt) != len(it):
            return False
        for pos, (a, b) in enumerate(zip(mt[1:], it[1:])):
            if (a == '_') != (b == '_'):
                return False
            ma, mb = dec_mat(a), dec_mat(b)
            if len(ma) != len(mb) or any(len(x) != len(y) for x, y in zip(ma, mb)):
                return False
            sc = (c.tol or 1.0) if pos == 3 else 1.0      # aggregate_: relative to the total weight; probs: absolute
            for x, y in zip(ma, mb):
                for u, v in zip(x, y):
                    if abs(u - v) > TOL_F * (sc + abs(u)):
                        return False
        return True
    return False


def evaluate(ctx, cases):
    """Same logic as vlib.cases.evaluate (one pass through the driver), with the answers to spec / contract lines
    screened like those to run lines: `bad-args` / `unknown-cmd` is a failure of the tooling (exit 2), never a
    failing input."""
    lines, idx = [], []
    for c in cases:
        idx.append(len(lines))
        if c.run:
            lines.append(c.run)
        if c.spec:
            lines.append(c.spec)
    answers = ctx.lean(lines)
    for ln, an in zip(lines, answers):
        if an == 'bad-args' or an.startswith('unknown-cmd'):
            raise ToolFailure('driver rejected request %r -> %r' % (ln[:300], an))
    for c, i in zip(cases, idx):
        model = answers[i] if c.run else None
        ctx.case(c.key, c.nontrivial, sample={'request': c.run or c.spec, 'model': model, 'impl': c.impl})
        ctx.count('entry:' + str(c.sig.get('entry')))
        ctx.count('answer:' + ('error' if str(c.impl).startswith('err') else 'ok'))
        spec_ok = True
        if c.spec:
            sp = answers[i + (1 if c.run else 0)]
            if sp != 'holds':
                spec_ok = False
                ctx.spec_fail(c.sig, c.desc, {'spec_line': c.spec, 'spec_answer': sp, 'impl': c.impl, 'model': model})
        if not c.run:
            continue
        eq = (model == c.impl) or bool(_same(c, model, c.impl, spec_ok))
        if not eq and spec_ok:
            ctx.disagree(c.sig, c.desc, model, c.impl, c.run)


# ---------------------------------------------------------------------------------------------
# generators
# ---------------------------------------------------------------------------------------------
WEIGHT_MODES = ['ones', 'ones', 'int', 'dyadic', 'float']


def weights(rng, k, mode):
    if mode == 'ones':
        return [1.0] * k
    if mode == 'int':
        return [float(rng.randint(1, 4)) for _ in range(k)]
    if mode == 'dyadic':
        return [rng.choice([0.25, 0.5, 1.0, 1.5, 2.0, 3.0]) for _ in range(k)]
    return [round(rng.uniform(0.1, 3.0), 3) for _ in range(k)]


def mk(n, es, w, m=None, symmetric=False):
    m = n if m is None else m
    if not es:
        return sparse.csr_matrix((n, m), dtype=float)
    if symmetric:
        ww = {}
        w2 = []
        for (i, j), x in zip(es, w):
            w2.append(ww.setdefault((min(i, j), max(i, j)), x))
        w = w2
    a = sparse.csr_matrix((np.asarray(w, dtype=float), ([e[0] for e in es], [e[1] for e in es])), shape=(n, m))
    a.sum_duplicates()
    a.sort_indices()
    return a


def graph_stream(ctx):
    """(name, matrix, square_undirected?) for the estimator cases."""
    rng = ctx.rng
    quick = ctx.quick
    out = []
    # exhaustive undirected with self-loops
    for n in (2, 3) if quick else (2, 3, 4):
        gs = [es for es in graphs.all_undirected(n, loops=True) if es]
        if quick and n == 3:
            gs = rng.sample(gs, 20)
        if n == 4:
            gs = rng.sample(gs, 300)
        for es in gs:
            out.append(('und%d' % n, mk(n, es, weights(rng, len(es), rng.choice(['ones', 'int'])), symmetric=True)))
    # digraphs
    for n, cnt in ((3, 12 if quick else 150), (4, 12 if quick else 200)):
        gs = [es for es in graphs.all_digraphs(n, loops=False) if es] if n == 3 else None
        for _ in range(cnt):
            es = rng.choice(gs) if gs else graphs.random_edges(rng, n, rng.choice([0.3, 0.5]), directed=True, loops=True)
            if es:
                out.append(('dir%d' % n, mk(n, es, weights(rng, len(es), rng.choice(WEIGHT_MODES)))))
    # biadjacency
    shapes = [(1, 2), (2, 1), (2, 3), (3, 2), (2, 2), (3, 3), (1, 4), (4, 2)]
    for nr, nc in shapes:
        allb = [es for es in graphs.all_bipartite(nr, nc) if es]
        for es in rng.sample(allb, min(len(allb), 4 if quick else 40)):
            out.append(('bip%dx%d' % (nr, nc), mk(nr, es, weights(rng, len(es), rng.choice(WEIGHT_MODES)), m=nc)))
    for _ in range(6 if quick else 80):
        nr, nc = rng.randint(2, 7), rng.randint(2, 7)
        es = graphs.random_edges(rng, nr, rng.choice([0.25, 0.5]), m=nc) if nr != nc else \
            [(i, j) for i in range(nr) for j in range(nc) if rng.random() < 0.4]
        if es:
            out.append(('bip-random', mk(nr, es, weights(rng, len(es), rng.choice(WEIGHT_MODES)), m=nc)))
    # structured
    for name, n, es, w in graphs.suite(rng, 42 if quick else 500, 3, 14):
        if not es:
            continue
        kind = name.rstrip('0123456789')
        mode = rng.choice(WEIGHT_MODES)
        a = mk(n, es, weights(rng, len(es), mode), symmetric=kind in graphs.UNDIRECTED_KINDS)
        out.append((kind, a))
    # degenerate: one edge among many isolated nodes, a single self-loop, explicit zero
    out.append(('one-edge', mk(5, [(1, 3), (3, 1)], [1.0, 1.0])))
    out.append(('one-arc', mk(4, [(2, 0)], [2.0])))
    out.append(('self-loop-only', mk(3, [(1, 1)], [1.0])))
    z = sparse.csr_matrix((np.array([1., 1., 0.]), (np.array([0, 1, 2]), np.array([1, 0, 0]))), shape=(3, 3))
    out.append(('explicit-zero', z))
    # other dtypes and unsorted column indices (the estimators cast with astype(float) / float32 themselves)
    res = []
    for name, a in out:
        r = rng.random()
        if r < 0.12:
            a = a.astype(bool)
            name += ':bool'
        elif r < 0.22 and np.all(a.data == np.round(a.data)):
            a = a.astype(int)
            name += ':int'
        elif r < 0.32 and a.nnz > 2:
            a = graphs.unsorted_copy(a, rng)
            name += ':unsorted'
        res.append((name, a))
    # the same graphs rescaled (tiny and huge weights: 1e-9, 1e-12, 1e+12) and a weakly attached node (edges of
    # weight 1e-9 .. 1e-7 next to weights of order 1): a node with outgoing weight, however small, has a probs_ row
    # summing to 1
    floats = [(nm, a) for nm, a in res if a.dtype == np.float64 and a.nnz > 0]
    for nm, a in rng.sample(floats, min(len(floats), 9 if quick else 90)):
        f = rng.choice([1e-9, 1e-12, 1e+12])
        c = a.copy()
        c.data = c.data * f
        res.append(('scaled%g:' % f + nm.split(':')[0], c))
    squares = [(nm, a) for nm, a in floats if a.shape[0] == a.shape[1] and a.shape[0] >= 3]
    for nm, a in rng.sample(squares, min(len(squares), 8 if quick else 80)):
        n = a.shape[0]
        w = rng.choice([1e-9, 2e-9, 1e-8, 1e-7])
        targets = rng.sample(range(n), rng.choice([1, 2]))
        c = sparse.lil_matrix((n + 1, n + 1))
        c[:n, :n] = a
        for t in targets:
            c[n, t] = w
            c[t, n] = w
        c = sparse.csr_matrix(c)
        c.sort_indices()
        res.append(('weak-node:' + nm.split(':')[0], c))
    return res


def louvain_params(rng, full=False):
    p = {'modularity': rng.choice(['dugue', 'newman', 'potts', 'Dugue']),
         'resolution': rng.choice([1, 1, 0.5, 2, 0.1, 3.5]),
         'shuffle_nodes': rng.random() < 0.5,
         'sort_clusters': rng.random() < 0.6,
         'return_probs': rng.random() < 0.8,
         'return_aggregate': rng.random() < 0.8,
         'n_aggregations': rng.choice([-1, -1, 1, 2, 3]),
         'tol_aggregation': rng.choice([1e-3, 1e-3, 0.05, 1e-6, 0, 0.0]),
         'random_state': rng.randrange(1000)}
    return p


def prop_params(rng):
    return {'n_iter': rng.choice([5, 1, 3]), 'node_order': rng.choice(['decreasing', 'increasing', 'random', None]),
            'weighted': rng.random() < 0.7, 'sort_clusters': rng.random() < 0.6,
            'return_probs': rng.random() < 0.8, 'return_aggregate': rng.random() < 0.8}


def leiden_params(rng):
    p = louvain_params(rng)
    return p          # tol_aggregation = 0 is drawn again: Leiden.fit stops when a round merges nothing (b2c73765)


def scale_pair_case(ctx, cn, b, params, f):
    """One estimator on `b` and on `f * b` (f a power of two: every float operation of the normalisations is exact):
    labels_ must be identical and probs_ equal (same seed, same options)."""
    from sknetwork.clustering import Louvain, Leiden, PropagationClustering
    cls = {'Louvain': Louvain, 'Leiden': Leiden, 'PropagationClustering': PropagationClustering}[cn]
    c = b.copy()
    c.data = c.data * f
    desc = {'kind': 'scale', 'est': cn, 'params': params, 'graph': gdesc(b), 'factor': f}
    sig = {'entry': cn, 'output': 'scale invariance'}
    e1, e2 = cls(**params), cls(**params)
    r1 = _fit(ctx, lambda: e1.fit(b), sig, desc)
    r2 = _fit(ctx, lambda: e2.fit(c), dict(sig, output='scale invariance (rescaled graph)'), desc)
    if r1 != 'ok' or r2 != 'ok':
        return []
    l1, l2 = all_labels(e1), all_labels(e2)
    if l1 != l2:
        ctx.spec_fail(dict(sig, output='labels_ of the rescaled graph'), desc, {'labels': l1, 'rescaled': l2})
        return []
    return [Case((cn, 'scale', enc_csr(b), f, tuple(sorted((k, str(v)) for k, v in params.items()))),
                 dict(sig, output='probs_ of the rescaled graph'), None, None,
                 'c05.spec_close %s %s %s' % (enc_mat(e1.probs_.toarray()), enc_mat(e2.probs_.toarray()), TOL),
                 max(l1) >= 1, desc)]


def scale_invariance_cases(ctx, name, b):
    """The modularity-based estimators normalise the adjacency by its total weight and the secondary outputs
    normalise rows, so a rescaled graph has the same labels_ and probs_."""
    rng = ctx.rng
    out = []
    f = rng.choice([2.0 ** -30, 2.0 ** -40, 2.0 ** 40])
    for cn in ('Louvain', 'Leiden', 'PropagationClustering'):
        if cn == 'PropagationClustering':
            params = {'sort_clusters': True, 'return_probs': True, 'return_aggregate': False, 'node_order': None}
        else:
            params = louvain_params(rng)
            params.update({'return_probs': True, 'return_aggregate': False})
        out += scale_pair_case(ctx, cn, b, params, f)
    ctx.count('graph:scale-pair')
    return out


def estimator_cases(ctx, name, b, reps=1, kcenters=True):
    rng = ctx.rng
    out = []
    square = b.shape[0] == b.shape[1]
    if name.startswith('scaled') or name.startswith('weak-node'):
        # the return_probs stream on extreme weights (no KCenters: PageRank on such weights is C04's)
        for cn in ('Louvain', 'Leiden'):
            p = louvain_params(rng)
            p.update({'return_probs': True})
            out += louvain_cases(ctx, cn, b, p, False)
        pp = prop_params(rng)
        pp.update({'return_probs': True})
        out += propagation_cases(ctx, b, pp, rng.randrange(10 ** 6))
        ctx.count('graph:' + name.split(':')[0])
        return out
    def cont():
        return rng.choice(['csr'] * 8 + ['csc', 'coo', 'lil', 'dense'])
    for _ in range(reps):
        fb = square and rng.random() < 0.25
        out += louvain_cases(ctx, 'Louvain', b, louvain_params(rng), fb, cont())
        fb = square and rng.random() < 0.25
        out += louvain_cases(ctx, 'Leiden', b, leiden_params(rng), fb, cont())
        if rng.random() < 0.85:
            out += propagation_cases(ctx, b, prop_params(rng), rng.randrange(10 ** 6), cont())
    if b.dtype != np.float64:
        # bool / int input: the aggregate alone (no cast made for the probabilities) must still be sums of weights
        p = leiden_params(rng)
        p.update({'return_probs': False, 'return_aggregate': True})
        out += louvain_cases(ctx, rng.choice(['Louvain', 'Leiden']), b, p, False)
        pp = prop_params(rng)
        pp.update({'return_probs': False, 'return_aggregate': True})
        out += propagation_cases(ctx, b, pp, rng.randrange(10 ** 6))
    if kcenters:
        fb = square and rng.random() < 0.3
        bip = fb or not square
        n_side = {'row': b.shape[0], 'col': b.shape[1], 'both': sum(b.shape)}
        pos = rng.choice(['row', 'col', 'both']) if bip else 'row'
        lim = n_side[pos] if bip else b.shape[0]
        k = rng.randint(2, max(2, min(4, lim + (1 if rng.random() < 0.15 else 0))))
        if rng.random() < 0.06:
            k = rng.choice([1, 0])                     # refused: fewer than 2 clusters
        params = {'n_clusters': k, 'center_position': pos, 'n_init': rng.choice([1, 2, 1, 2, 1, 2, 0]),
                  'directed': rng.random() < 0.3, 'max_iter': rng.choice([20, 20, 1, 0])}
        out += kcenters_cases(ctx, b, params, fb, rng.randrange(10 ** 6), cont())
    ctx.count('graph:' + name)
    return out


def aggregate_graph_cases(ctx, b, variants=2):
    """postprocess.aggregate_graph on random integer labels (negative = ignored), all argument combinations."""
    from sknetwork.clustering.postprocess import aggregate_graph
    rng = ctx.rng
    nr, nc = b.shape
    g = enc_csr(b)
    out = []
    for _ in range(variants):
        def lab(n):
            k = rng.randint(1, 4)
            return [rng.choice([-1] + list(range(k)) * 2) for _ in range(n)]
        mode = rng.choice(['labels', 'row', 'row+col', 'labels+col', 'none'] if nr == nc else
                          ['row+col', 'row+col', 'labels+col', 'labels', 'none'])
        lr = lab(nr)
        lc = lab(nc)
        kw = {}
        if mode in ('labels', 'labels+col'):
            kw['labels'] = np.array(lr)
        if mode in ('row', 'row+col'):
            kw['labels_row'] = np.array(lr)
            if rng.random() < 0.3:
                kw['labels'] = np.array(lab(nr))     # ignored: labels_row wins
        if mode in ('row+col', 'labels+col'):
            kw['labels_col'] = np.array(lc)
        toks = [opt(None if kw.get(x) is None else kw[x]) for x in ('labels', 'labels_row', 'labels_col')]
        desc = {'kind': 'aggregate_graph', 'graph': gdesc(b), 'dtype': str(b.dtype),
                'kw': {k: [int(x) for x in v] for k, v in kw.items()}}

        def f():
            m = aggregate_graph(b, **kw)
            return 'ok %d %d %s' % (m.shape[0], m.shape[1], enc_mat(m.toarray()))
        impl = _call0(f, errors=(ValueError, IndexError, TypeError))
        spec = None
        if impl.startswith('ok ') and impl.split(' ')[3] != '-':     # an empty result has nothing to check
            eff_c = lc if 'labels_col' in kw else lr
            t = impl.split(' ')
            spec = 'c05.spec_aggregate_graph %s %s %s %s %s %s %s' % (g, enc_list(lr), enc_list(eff_c), t[1], t[2], t[3], tol_of(wscale(b)))
        out.append(Case(('aggregate_graph', g, tuple(toks)), {'entry': 'aggregate_graph', 'mode': mode,
                                                               'dtype': str(b.dtype)},
                        'c05.aggregate_graph %s %s' % (g, ' '.join(toks)), impl, spec,
                        impl.startswith('ok') and max(lr) >= 1, desc, canon='agg', tol=wscale(b)))
    return out


def refusal_cases(ctx):
    """Inputs the estimators refuse, and the neighbouring inputs they accept: no stored entry (check_format), unknown
    modularity, node weights refused by get_probs (all stored entries zero, negative degrees — per modularity kind),
    KCenters' argument checks and `directed=True` on a non-square input."""
    out = []
    empty_sq = sparse.csr_matrix((3, 3), dtype=float)
    empty_re = sparse.csr_matrix((2, 3), dtype=float)
    zeros = sparse.csr_matrix((np.array([0., 0.]), (np.array([0, 1]), np.array([1, 0]))), shape=(3, 3))
    neg = sparse.csr_matrix(np.array([[0, 2, -1], [2, 0, 0], [-1, 0, 0.]]))
    negcol = sparse.csr_matrix(np.array([[0, 2, 0], [0, 0, 1], [-1, 0, 3.]]))
    bineg = sparse.csr_matrix(np.array([[1, 0, -1], [0, 1, 0.]]))
    a = mk(3, [(0, 1), (1, 0)], [1.0, 1.0])
    bi = mk(2, [(0, 0), (1, 2)], [1.0, 1.0], m=3)
    for mat in (empty_sq, empty_re, zeros, neg, negcol, bineg):
        for cn in ('Louvain', 'Leiden'):
            for mod in ('dugue', 'newman', 'potts'):
                out += [c for c in louvain_cases(ctx, cn, mat, {'modularity': mod, 'n_aggregations': 3,
                                                                'return_probs': False, 'return_aggregate': False},
                                                 False, light=True)
                        if c.sig.get('output') in ('refusal', 'pipeline', 'labels_')]
        out += [c for c in propagation_cases(ctx, mat, {'return_probs': False, 'return_aggregate': False},
                                             light=True) if c.sig.get('output') in ('refusal', 'pipeline', 'labels_')]
    for cn in ('Louvain', 'Leiden'):
        out += louvain_cases(ctx, cn, a, {'modularity': 'foo'}, False)
    for params, mat in (({'n_clusters': 1}, a), ({'n_clusters': 0}, a), ({'n_clusters': 2, 'n_init': 0}, a),
                        ({'n_clusters': 4}, a), ({'n_clusters': 3, 'center_position': 'row'}, bi),
                        ({'n_clusters': 2, 'center_position': 'foo'}, bi), ({'n_clusters': 2, 'max_iter': 0}, a),
                        ({'n_clusters': 2, 'directed': True}, bi), ({'n_clusters': 2, 'directed': True}, a),
                        ({'n_clusters': 2}, empty_sq), ({'n_clusters': 2}, empty_re)):
        out += kcenters_cases(ctx, mat, params, False, 1)
    return out


def corpus_cases(ctx):
    import json
    import os
    from vlib.core import VERIF
    p = os.path.join(VERIF, 'corpus', 'C05.jsonl')
    out = []
    if os.path.exists(p):
        for ln in open(p):
            ln = ln.strip()
            if ln and not ln.startswith('#'):
                out += cases_of_desc(ctx, json.loads(ln)['case'])
                ctx.count('corpus')
    return out


def cases_of_desc(ctx, d):
    if d.get('kind') == 'labels':
        return label_vector_cases(ctx, d['labels'])
    if d.get('kind') == 'aggregate_graph':
        return aggregate_graph_replay(ctx, d)
    if d.get('kind') == 'scale':
        return scale_pair_case(ctx, d['est'], gfrom(d['graph']), d['params'], d['factor'])
    b = gfrom(d['graph'])
    if d['est'] in ('Louvain', 'Leiden'):
        return louvain_cases(ctx, d['est'], b, d['params'], d.get('force_bipartite', False), d.get('container', 'csr'))
    if d['est'] == 'PropagationClustering':
        return propagation_cases(ctx, b, d['params'], d.get('np_seed', 0), d.get('container', 'csr'))
    if d['est'] == 'KCenters':
        return kcenters_cases(ctx, b, d['params'], d.get('force_bipartite', False), d.get('np_seed', 0),
                              d.get('container', 'csr'))
    raise ToolFailure('unknown replay case %r' % (d,))


def aggregate_graph_replay(ctx, d):
    from sknetwork.clustering.postprocess import aggregate_graph
    b = gfrom(d['graph'])
    kw = {k: np.array(v) for k, v in d['kw'].items()}
    g = enc_csr(b)
    toks = [opt(None if kw.get(x) is None else kw[x]) for x in ('labels', 'labels_row', 'labels_col')]

    def f():
        m = aggregate_graph(b, **kw)
        return 'ok %d %d %s' % (m.shape[0], m.shape[1], enc_mat(m.toarray()))
    impl = _call0(f, errors=(ValueError, IndexError, TypeError))
    spec = None
    if impl.startswith('ok ') and impl.split(' ')[3] != '-':
        lr = kw.get('labels_row', kw.get('labels'))
        lc = kw.get('labels_col', lr)
        t = impl.split(' ')
        spec = 'c05.spec_aggregate_graph %s %s %s %s %s %s %s' % (g, enc_list(lr), enc_list(lc), t[1], t[2], t[3], tol_of(wscale(b)))
    return [Case(('aggregate_graph', g, tuple(toks)), {'entry': 'aggregate_graph', 'dtype': str(b.dtype)},
                 'c05.aggregate_graph %s %s' % (g, ' '.join(toks)), impl, spec, True, d, canon='agg', tol=wscale(b))]


def big_graph_cases(ctx):
    """Graphs of 40-150 nodes with equal-size communities: more than 16 clusters (ties in argsort by design),
    several aggregation levels; labels and pipeline lines only (the secondary outputs are covered on small graphs)."""
    rng = ctx.rng
    out = []
    for _ in range(4 if ctx.quick else 24):
        size = rng.choice([2, 3, 4, 5])
        k = rng.randint(max(9, 40 // size), 150 // size)
        n = size * k
        es = []
        for c in range(k):
            nodes = list(range(c * size, (c + 1) * size))
            for i in nodes:
                for j in nodes:
                    if i < j:
                        es += [(i, j), (j, i)]
            if rng.random() < 0.6:                       # a light link to the next community
                j = ((c + 1) % k) * size
                es += [(nodes[0], j), (j, nodes[0])]
        b = mk(n, sorted(set(es)), [1.0] * len(set(es)))
        if rng.random() < 0.3:
            perm = list(range(n))
            rng.shuffle(perm)
            b = graphs.permute_csr(b, perm)
        for cn in ('Louvain', 'Leiden'):
            p = louvain_params(rng)
            p.update({'n_aggregations': -1, 'tol_aggregation': rng.choice([1e-6, 1e-4, 1e-3]), 'return_probs': False,
                      'return_aggregate': False})
            out += louvain_cases(ctx, cn, b, p, False, light=True)
        pp = prop_params(rng)
        pp.update({'return_probs': False, 'return_aggregate': False})
        out += propagation_cases(ctx, b, pp, rng.randrange(10 ** 6), light=True)
        ctx.count('graph:big%d' % (n // 50 * 50))
    return out


def build_cases(ctx):
    rng = ctx.rng
    cases = corpus_cases(ctx) + refusal_cases(ctx) + big_graph_cases(ctx)
    for v in label_vectors(ctx):
        cases += label_vector_cases(ctx, v)
    gs = graph_stream(ctx)
    kc_budget = 45 if ctx.quick else 500
    kc_idx = set(rng.sample(range(len(gs)), min(len(gs), kc_budget)))
    for i, (name, b) in enumerate(gs):
        cases += estimator_cases(ctx, name, b, reps=1 if ctx.quick else 2, kcenters=i in kc_idx)
        cases += aggregate_graph_cases(ctx, b, variants=2 if ctx.quick else 4)
        if b.dtype == np.float64 and not name.startswith(('scaled', 'weak-node')) and i % (12 if ctx.quick else 6) == 0:
            cases += scale_invariance_cases(ctx, name, b)
    return cases


def run(ctx):
    evaluate(ctx, build_cases(ctx))


# -- failing-input search -------------------------------------------------------------------------
def search(ctx, pending):
    """The Lean specification (spec / contract lines only) on the implementation over the small space x option grid:
    every graph also as bool / int / integer-weighted copy, (return_probs, return_aggregate) in all three useful
    combinations, sort x shuffle; all collected in a Sub context (counters of the main run are untouched)."""
    import itertools
    sub = Sub(ctx)
    rng = ctx.rng
    cases = []
    for n in range(1, 5):
        for v in itertools.product(range(3), repeat=n):
            cases += [c for c in label_vector_cases(sub, list(v)) if c.spec]
    base = []
    for n in (2, 3):
        for es in graphs.all_undirected(n, loops=True):
            if es:
                base.append(mk(n, es, [1.0] * len(es)))
    for es in graphs.all_digraphs(3):
        if es:
            base.append(mk(3, es, [1.0] * len(es)))
    for es in rng.sample(list(graphs.all_undirected(4)), 25):
        if es:
            base.append(mk(4, es, [1.0] * len(es)))
    for nr, nc in ((1, 2), (2, 2), (2, 3)):
        for es in graphs.all_bipartite(nr, nc):
            if es:
                base.append(mk(nr, es, [1.0] * len(es), m=nc))
    for name, n, es, w in graphs.suite(rng, 30, 4, 10):
        if es:
            base.append(mk(n, es, [1.0] * len(es)))
    gs = []
    for i, b in enumerate(base):
        gs.append(b)
        variant = i % 3
        if variant == 0:
            gs.append(b.astype(bool))
        elif variant == 1:
            gs.append(b.astype(int))
        else:
            w = b.copy()
            w.data = np.array([float(rng.randint(1, 4)) for _ in w.data])
            gs.append(w)
    combos = [(True, True), (False, True), (True, False)]
    for gi, b in enumerate(gs):
        for so in (True, False):
            rp, ra = combos[(gi + (1 if so else 0)) % 3]
            for sh in (False, True):
                p = {'sort_clusters': so, 'shuffle_nodes': sh, 'random_state': 1, 'return_probs': rp,
                     'return_aggregate': ra}
                for cn in ('Louvain', 'Leiden'):
                    cases += [c for c in louvain_cases(sub, cn, b, p, False) if c.spec]
            cases += [c for c in propagation_cases(sub, b, {'sort_clusters': so, 'return_probs': rp,
                                                            'return_aggregate': ra}) if c.spec]
        if sum(b.shape) <= 5:
            for pos in ('row', 'col', 'both'):
                cases += [c for c in kcenters_cases(sub, b, {'n_clusters': 2, 'center_position': pos, 'n_init': 1},
                                                    False, 1) if c.spec]
        cases += [c for c in aggregate_graph_cases(sub, b, variants=1) if c.spec]
    for c in cases:
        c.run = None
    evaluate(sub, cases)
    return sub.found()


def replay(ctx, payload):
    case = payload.get('case') or {}
    if case.get('kind'):
        evaluate(ctx, cases_of_desc(ctx, case))
    else:
        evaluate(ctx, build_cases(ctx))
