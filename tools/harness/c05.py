"""C05 — every clustering is a well-formed partition with consistent secondary outputs.

Correspondence (every case calls the real code from the overlay build of the working tree):
  run  lines -> the Lean model (SkNet/Model/Clustering.lean) recomputes from the same input
                * reindex_labels / get_membership / np.unique on label vectors,
                * the whole bookkeeping of Louvain.fit / Leiden.fit around the kernels (the labels returned by
                  `_optimize` / `_optimize_refine` and the stop flags are recorded by wrapping the bound methods
                  of the instance; the model redoes compaction, membership products, the stop logic, the
                  relabelling by size, the un-shuffle and the row/column split),
                * PropagationClustering's compaction / relabelling / split from the labels left by the sweeps,
                * _secondary_outputs in exact rational arithmetic (probs_, probs_row_, probs_col_, aggregate_),
                * KCenters' mask, _init_centers bookkeeping, restart selection and centre split.
  spec lines -> the Lean specification (SkNet/Spec/Clustering.lean: ValidClustering, ProbsOK, AggOK,
                KCentersOK, CentersSplitOK) evaluated on the estimator's own outputs.
"""
import numpy as np
from scipy import sparse

from vlib import graphs
from vlib.cases import Case, Sub, call as _call0, evaluate as _evaluate
from vlib.core import (enc_csr, enc_list, enc_listlist, enc_bool, enc_ratlist, dec_list, dec_ratlist, _exact,
                       ToolFailure)

TOL = '1/1000000000'          # absolute tolerance handed to the Lean spec predicates for float outputs (1e-9)
TOL_F = 1e-9

RULE = ('label vectors: exhaustive over {0,1,2}^n n<=5 (reindex_labels, np.unique) + random vectors with gaps, '
        'negatives, ties, up to 60 entries (numpy argsort is not stable beyond 16); graphs: exhaustive undirected '
        'n<=3 with self-loops (thorough: n=4), sampled digraphs n<=4, biadjacency up to 3x3, structured random '
        'graphs n<=14 (blocks, paths, stars, cliques, two components, isolated nodes, self-loops, sinks) with '
        'unit / integer / dyadic / (a few) arbitrary float weights x Louvain, Leiden, PropagationClustering, KCenters '
        'x (modularity, resolution, shuffle_nodes, sort_clusters, return_probs, return_aggregate, n_aggregations, '
        'node_order, center_position, force_bipartite); a case is non-trivial when the fitted clustering has at '
        'least 2 clusters or (label-vector cases) at least 2 distinct labels; distinct = distinct (entry, input, options, output kind)')
ASSUMPTIONS = ['np.argsort returns a sorting permutation (label vectors compared as partition + size profile when '
               'cluster sizes tie)',
               'np.unique is the sorted-distinct/inverse/counts function of the model (checked by run lines)',
               'scipy sparse products / normalisation are exact on integer and dyadic weights; other float weights '
               'are compared within 1e-9',
               'the Louvain/Leiden kernels, the propagation sweeps, PageRank and np.random are parameters of the '
               'model (their outputs are recorded and replayed), they belong to C06/C13/C04',
               'a node "without outgoing edge" is read as a node of zero out-weight (explicit zeros count as no edge)']


def _call(f):
    """ValueError / IndexError are refusals the models know; anything else is a failure of the tooling."""
    return _call0(f, errors=(ValueError, IndexError))


def _fit(ctx, f, sig, desc):
    """Fit an estimator on a valid (non-empty) input.  An exception that comes out of the library means that no
    label is assigned at all: reported as a failing input.  An exception raised by this file is a tool failure."""
    import traceback
    try:
        f()
        return True
    except Exception as e:
        tb = traceback.extract_tb(e.__traceback__)
        if tb and tb[-1].filename.endswith('c05.py'):
            raise
        ctx.spec_fail(dict(sig, output='fit raised'), desc,
                      {'exception': repr(e), 'where': '%s:%s' % (tb[-1].filename, tb[-1].lineno) if tb else None})
        ctx.count('fit-error:%s:%s' % (sig.get('entry'), type(e).__name__))
        return False


# ---------------------------------------------------------------------------------------------
# encoding helpers
# ---------------------------------------------------------------------------------------------
def enc_mat(m):
    """dense 2-d array -> exact rationals, rows ';' entries ','"""
    m = np.asarray(m)
    if m.shape[0] == 0:
        return '-'
    return ';'.join(enc_ratlist(_exact(v) for v in row) if len(row) else '-' for row in m)


def dec_mat(s):
    if s in ('-', '_'):
        return []
    return [[float(x) for x in dec_ratlist(r)] for r in s.split(';')]


def opt(x, f=enc_list):
    return '_' if x is None else f(x)


def gdesc(a):
    a = sparse.csr_matrix(a)
    return {'shape': list(a.shape), 'indptr': a.indptr.tolist(), 'indices': a.indices.tolist(),
            'data': [float(v) for v in a.data], 'dtype': str(a.dtype)}


def gfrom(d):
    m = sparse.csr_matrix((np.array(d['data'], dtype=float), np.array(d['indices'], dtype=np.int32),
                           np.array(d['indptr'], dtype=np.int32)), shape=tuple(d['shape']))
    return m.astype(np.dtype(d.get('dtype', 'float64')))


def canon_partition(labels):
    seen = {}
    return [seen.setdefault(int(x), len(seen)) for x in labels]


def sizes(labels):
    labels = [int(x) for x in labels]
    k = max(labels) + 1 if labels else 0
    return [labels.count(c) for c in range(k)]


# ---------------------------------------------------------------------------------------------
# label-vector cases
# ---------------------------------------------------------------------------------------------
def label_vector_cases(ctx, vec):
    from sknetwork.clustering.postprocess import reindex_labels
    from sknetwork.utils.membership import get_membership
    vec = [int(x) for x in vec]
    arr = np.array(vec, dtype=int)
    out = []
    nontriv = len(set(vec)) >= 2
    ev = enc_list(vec)
    desc = {'kind': 'labels', 'labels': vec}
    # reindex_labels
    impl = _call(lambda: 'ok ' + enc_list(reindex_labels(arr)))
    spec = 'c05.spec_reindex %s %s' % (ev, impl[3:]) if impl.startswith('ok ') else None
    out.append(Case(('reindex', ev), {'entry': 'reindex_labels'}, 'c05.reindex ' + ev, impl, spec, nontriv, desc,
                    canon='labels_sorted'))
    # contract of np.argsort on the key reindex_labels hands it (ties, and the unstable sort beyond 16 entries)
    if vec:
        _, cnt = np.unique(arr, return_counts=True)
        out.append(Case(('argsort', ev), {'entry': 'np.argsort', 'output': 'contract:IsArgsort'}, None, None,
                        'c05.contract_argsort %s %s' % (enc_list(-cnt), enc_list(np.argsort(-cnt))), nontriv, desc))
    # np.unique (external; the model's reading of it)
    def fu():
        u, i, c = np.unique(arr, return_inverse=True, return_counts=True)
        return 'ok %s %s %s' % (enc_list(u), enc_list(i), enc_list(c))
    out.append(Case(('unique', ev), {'entry': 'np.unique'}, 'c05.unique ' + ev, _call(fu), None, nontriv, desc))
    # get_membership with and without n_labels
    if vec:
        for k in (None, max(vec) + 2 if max(vec) >= -1 else 1, max(vec) if max(vec) >= 1 else 0):
            def fm():
                m = get_membership(arr, n_labels=k)
                m.sort_indices()
                rows = [m.indices[m.indptr[i]:m.indptr[i + 1]].tolist() for i in range(m.shape[0])]
                return 'ok %d %s' % (m.shape[1], enc_listlist(rows))
            out.append(Case(('membership', ev, k), {'entry': 'get_membership'},
                            'c05.membership %s %s' % (ev, '_' if k is None else k), _call(fm), None, nontriv,
                            dict(desc, n_labels=k)))
    return out


def label_vectors(ctx):
    rng = ctx.rng
    import itertools
    vs = [[]]
    for n in range(1, 6):
        for v in itertools.product(range(3), repeat=n):
            vs.append(list(v))
    if ctx.quick:
        vs = vs[:40] + rng.sample(vs[40:], 120)
    for _ in range(60 if ctx.quick else 600):
        n = rng.choice([3, 6, 10, 17, 25, 40, 60])
        k = rng.randint(1, max(1, min(n, 9)))
        base = rng.sample(range(-3, 30), k)
        mode = rng.random()
        if mode < 0.4:      # many ties in the sizes
            v = [base[i % k] for i in range(n)]
            rng.shuffle(v)
        else:
            v = [rng.choice(base) for _ in range(n)]
        vs.append(v)
    return vs


# ---------------------------------------------------------------------------------------------
# estimators
# ---------------------------------------------------------------------------------------------
class Recorder:
    """Wraps the kernel entry points of one Louvain/Leiden instance (bound methods only)."""

    def __init__(self, est):
        self.levels = []      # (input labels, raw labels, increase)
        self.adj0 = None
        self.refined = []
        self.index = None
        o_opt = est._optimize
        o_pre = est._pre_processing

        def opt_(labels, *a, **k):
            lab_in = np.asarray(labels).copy()
            if not self.levels and a:
                self.adj0 = sparse.csr_matrix(a[0]).copy()      # the graph of the first round
            res = o_opt(labels, *a, **k)
            self.levels.append((lab_in, np.asarray(res[0]).copy(), float(res[1])))
            return res

        def pre_(*a, **k):
            res = o_pre(*a, **k)
            self.index = np.asarray(res[4]).copy()
            self.n = res[0].shape[0]
            return res
        est._optimize = opt_
        est._pre_processing = pre_
        if hasattr(est, '_optimize_refine'):
            o_ref = est._optimize_refine

            def ref_(*a, **k):
                res = o_ref(*a, **k)
                self.refined.append(np.asarray(res).copy())
                return res
            est._optimize_refine = ref_


def all_labels(est):
    if est.bipartite:
        return list(est.labels_row_) + list(est.labels_col_)
    return list(est.labels_)


def attr(est, name):
    """row/column attributes (KCenters does not create them on a non-bipartite input)"""
    return getattr(est, name, None)


def fitted_str(est):
    return '%s %s %s' % (enc_list(est.labels_), opt(attr(est, 'labels_row_')), opt(attr(est, 'labels_col_')))


def secondary_cases(ctx, name, est, b, bip, sig0, desc, key0):
    """run + spec lines for probs_/probs_row_/probs_col_/aggregate_ of a fitted estimator."""
    out = []
    lab = all_labels(est)
    k = max(lab) + 1 if lab else 0
    g = enc_csr(b)
    rp, ra = bool(est.return_probs), bool(est.return_aggregate)
    impl = 'ok %s %s %s %s' % (opt(None if est.probs_ is None else est.probs_.toarray(), enc_mat),
                               opt(None if est.probs_row_ is None else est.probs_row_.toarray(), enc_mat),
                               opt(None if est.probs_col_ is None else est.probs_col_.toarray(), enc_mat),
                               opt(None if est.aggregate_ is None else est.aggregate_.toarray(), enc_mat))
    run = 'c05.secondary %s %s %s %s %s' % (g, enc_bool(bip), enc_list(lab), enc_bool(rp), enc_bool(ra))
    nontriv = k >= 2
    out.append(Case(key0 + ('secondary',), dict(sig0, output='secondary'), run, impl, None, nontriv, desc,
                    canon='mats'))
    nr = b.shape[0]
    # whatever soft membership the estimator exposes must be a distribution over *its* labels
    for name, tr in (('probs_', 0), ('probs_row_', 0), ('probs_col_', 1)):
        p = getattr(est, name, None)
        if p is not None:
            out.append(Case(key0 + (name,), dict(sig0, output=name, return_probs=rp), None, None,
                            'c05.spec_probs %s %d %d %s %s' % (g, tr, k, enc_mat(p.toarray()), TOL), nontriv, desc))
    if est.aggregate_ is not None:
        lr = lab[:nr] if bip else lab
        lc = lab[nr:] if bip else lab
        out.append(Case(key0 + ('aggregate',), dict(sig0, output='aggregate_'), None, None,
                        'c05.spec_agg %s %s %s %d %s %s' % (g, enc_list(lr), enc_list(lc), k,
                                                           enc_mat(est.aggregate_.toarray()), TOL), nontriv, desc))
    return out


def louvain_cases(ctx, cls_name, b, params, force_bipartite):
    from sknetwork.clustering import Louvain, Leiden
    cls = {'Louvain': Louvain, 'Leiden': Leiden}[cls_name]
    desc = {'kind': 'estimator', 'est': cls_name, 'params': params, 'force_bipartite': force_bipartite,
            'graph': gdesc(b)}
    sig0 = {'entry': cls_name, 'sort_clusters': params.get('sort_clusters', True),
            'shuffle_nodes': params.get('shuffle_nodes', False)}
    key0 = (cls_name, enc_csr(b), tuple(sorted(params.items())), force_bipartite)
    est = cls(**params)
    rec = Recorder(est)
    if not _fit(ctx, lambda: est.fit(b, force_bipartite=force_bipartite), sig0, desc):
        return []
    bip = bool(est.bipartite)
    sig0['bipartite'] = bip
    lab = all_labels(est)
    n_all = b.shape[0] + (b.shape[1] if bip else 0)
    nontriv = len(lab) > 0 and max(lab) >= 1
    out = []
    # the property on the output
    out.append(Case(key0 + ('valid',), dict(sig0, output='labels_'), None, None,
                    'c05.spec_valid %d %s %s' % (n_all, enc_list(lab), enc_bool(est.sort_clusters)), nontriv, desc))
    # the bookkeeping of fit around the kernels
    raws = [lv[1] for lv in rec.levels]
    flags = [1 if lv[2] <= est.tol_aggregation else 0 for lv in rec.levels]
    tail = '%s %s %s' % (enc_list(rec.index), enc_bool(est.sort_clusters), enc_bool(est.shuffle_nodes))
    head = '%d %d %d %s 1 %d' % (b.shape[0], b.shape[1], b.nnz, enc_bool(force_bipartite), est.n_aggregations)
    impl = 'ok %d %s' % (len(rec.levels), fitted_str(est))
    if cls_name == 'Louvain':
        run = 'c05.louvain %s %s %s %s' % (head, enc_listlist(raws), enc_list(flags), tail)
    else:
        run = 'c05.leiden %s %s %s %s %s' % (head, enc_listlist(raws), enc_listlist(rec.refined), enc_list(flags), tail)
    eff = raws if cls_name == 'Louvain' else (list(rec.refined[:-1]) + [raws[-1]])
    spec = 'c05.spec_post %s %s %s %s' % (enc_listlist(eff), enc_list(rec.index), enc_bool(est.shuffle_nodes),
                                          enc_list(lab))
    out.append(Case(key0 + ('pipeline',), dict(sig0, output='pipeline'), run, impl, spec, nontriv, desc,
                    canon='fitted_sorted' if est.sort_clusters else None))
    ctx.count('levels:%d' % len(rec.levels))
    if rec.adj0 is not None:
        k0 = rec.adj0.copy()
        k0.eliminate_zeros()
        out.append(Case(key0 + ('shuffle',), dict(sig0, output='shuffled adjacency'), None, None,
                        'c05.spec_shuffle %s %s %d %s %s %s' % (enc_csr(b), enc_bool(bip), k0.shape[0],
                                                               enc_list(k0.indptr), enc_list(k0.indices),
                                                               enc_list(rec.index)), nontriv, desc))
    for t, lv in enumerate(rec.levels):
        if len(lv[1]) != len(lv[0]):
            ctx.spec_fail(dict(sig0, output='contract:KernelLen'), desc, {'level': t, 'in': len(lv[0]), 'out': len(lv[1])})
    if cls_name == 'Leiden':
        # contract of the refinement kernel assumed by `leiden_fit_valid`
        for t in range(len(rec.levels)):
            out.append(Case(key0 + ('within', t), dict(sig0, output='contract:LeidenContract.within'), None, None,
                            'c05.contract_leiden %s %s' % (enc_list(rec.levels[t][1]), enc_list(rec.refined[t])),
                            True, desc))
        # labels handed to the next round = coarse label of every refined cluster
        for t in range(1, len(rec.levels)):
            _, lab_prev = np.unique(rec.levels[t - 1][1], return_inverse=True)
            _, ref_prev = np.unique(rec.refined[t - 1], return_inverse=True)
            out.append(Case(key0 + ('next', t), dict(sig0, output='aggregate_refine'),
                            'c05.leiden_next %s %s' % (enc_list(lab_prev), enc_list(ref_prev)),
                            'ok ' + enc_list(rec.levels[t][0]), None, True, desc))
    if bip and list(est.labels_) != list(est.labels_row_):
        ctx.spec_fail(dict(sig0, output='labels_ is labels_row_'), desc, {'labels_': list(map(int, est.labels_))})
    out += secondary_cases(ctx, cls_name, est, b, bip, sig0, desc, key0)
    return out


class PropRecorder:
    """Records the labels left by Propagation.fit inside PropagationClustering.fit."""

    def __enter__(self):
        from sknetwork.classification.propagation import Propagation
        self.cls = Propagation
        self.orig = Propagation.fit
        rec = self
        rec.raw = None

        def fit(self_, *a, **k):
            r = rec.orig(self_, *a, **k)
            rec.raw = np.concatenate([np.asarray(self_.labels_row_), np.asarray(self_.labels_col_)]) \
                if self_.labels_col_ is not None and len(self_.labels_col_) else np.asarray(self_.labels_).copy()
            rec.raw_attr = np.asarray(self_.labels_).copy()
            return r
        Propagation.fit = fit
        return self

    def __exit__(self, *a):
        self.cls.fit = self.orig


def propagation_cases(ctx, b, params, seed=0):
    from sknetwork.clustering import PropagationClustering
    desc = {'kind': 'estimator', 'est': 'PropagationClustering', 'params': params, 'graph': gdesc(b), 'np_seed': seed}
    np.random.seed(seed)      # node_order='random' shuffles with the global generator
    sig0 = {'entry': 'PropagationClustering', 'sort_clusters': params.get('sort_clusters', True),
            'node_order': params.get('node_order')}
    key0 = ('PropagationClustering', enc_csr(b), tuple(sorted((k, str(v)) for k, v in params.items())))
    est = PropagationClustering(**params)
    with PropRecorder() as rec:
        ok = _fit(ctx, lambda: est.fit(b), sig0, desc)
    if not ok:
        return []
    bip = bool(est.bipartite)
    sig0['bipartite'] = bip
    lab = all_labels(est)
    n_all = b.shape[0] + (b.shape[1] if bip else 0)
    nontriv = len(lab) > 0 and max(lab) >= 1
    out = [Case(key0 + ('valid',), dict(sig0, output='labels_'), None, None,
                'c05.spec_valid %d %s %s' % (n_all, enc_list(lab), enc_bool(est.sort_clusters)), nontriv, desc)]
    run = 'c05.prop %d %d %d %s %s' % (b.shape[0], b.shape[1], b.nnz, enc_list(rec.raw_attr), enc_bool(est.sort_clusters))
    out.append(Case(key0 + ('pipeline',), dict(sig0, output='pipeline'), run, 'ok ' + fitted_str(est), None, nontriv,
                    desc, canon='fitted_sorted0' if est.sort_clusters else None))
    out += secondary_cases(ctx, 'PropagationClustering', est, b, bip, sig0, desc, key0)
    return out


class KRecorder:
    def __enter__(self):
        import sknetwork.clustering.kcenters as kc
        self.kc = kc
        self.o_init = kc.KCenters._init_centers
        self.o_clf = kc.PageRankClassifier
        self.o_mod = kc.get_modularity
        rec = self
        rec.centers, rec.labels, rec.mods, rec.calls = [], [], [], 0

        def init(adjacency, mask, n_clusters):
            c = rec.o_init(adjacency, mask, n_clusters)
            rec.centers.append(np.asarray(c).copy())
            return c

        class Clf(self.o_clf):
            def fit_predict(self_, *a, **k):
                r = super().fit_predict(*a, **k)
                rec.last = np.asarray(r).copy()
                rec.calls += 1
                return r

        def mod(*a, **k):
            v = rec.o_mod(*a, **k)
            rec.mods.append(v)
            rec.labels.append(rec.last)
            return v
        kc.KCenters._init_centers = staticmethod(init)
        kc.PageRankClassifier = Clf
        kc.get_modularity = mod
        return self

    def __exit__(self, *a):
        self.kc.KCenters._init_centers = staticmethod(self.o_init)
        self.kc.PageRankClassifier = self.o_clf
        self.kc.get_modularity = self.o_mod


def kcenters_str(est):
    return '%s %s %s' % (enc_list(est.centers_), opt(attr(est, 'centers_row_')), opt(attr(est, 'centers_col_')))


def kcenters_cases(ctx, b, params, force_bipartite, seed):
    from sknetwork.clustering import KCenters
    desc = {'kind': 'estimator', 'est': 'KCenters', 'params': params, 'force_bipartite': force_bipartite,
            'graph': gdesc(b), 'np_seed': seed}
    pos = params.get('center_position', 'row')
    sig0 = {'entry': 'KCenters', 'center_position': pos}
    key0 = ('KCenters', enc_csr(b), tuple(sorted(params.items())), force_bipartite, seed)
    est = KCenters(**params)
    np.random.seed(seed)
    with KRecorder() as rec:
        res = _call0(lambda: (est.fit(b, force_bipartite=force_bipartite), 'ok')[1],
                     errors=(ValueError, IndexError, TypeError))
    nr, nc = b.shape
    bip = bool(est.bipartite) if est.bipartite is not None else (force_bipartite or nr != nc)
    sig0['bipartite'] = bip
    out = []
    head = '%d %d %s %d %d %s' % (est.n_clusters, est.n_init, enc_bool(bip), nr, nc, pos)
    head_full = '%d %d %d %s %d %d %s' % (est.n_clusters, est.n_init, est.max_iter, enc_bool(bip), nr, nc, pos)
    if res != 'ok':
        ctx.count('fit-error:KCenters:%s' % res)
        # the refusals of fit are part of the model
        out.append(Case(key0 + ('refuse',), dict(sig0, output='error'),
                        'c05.kcenters_full %s %s %s 0' % (head_full, enc_listlist(rec.centers), enc_listlist(rec.labels)),
                        res, None, False, desc))
        return out
    lab = all_labels(est)
    nontriv = len(set(lab)) >= 2
    idx = int(np.argmax(rec.mods))
    # contract assumed of the assignment (PageRankClassifier): one label in 0..n_clusters-1 per node of the adjacency
    n_nodes = nr + nc if bip else nr
    for t, l in enumerate(rec.labels):
        if len(l) != n_nodes or (len(l) and (min(l) < 0 or max(l) >= est.n_clusters)):
            ctx.spec_fail(dict(sig0, output='contract:assignment'), desc, {'restart': t, 'labels': [int(x) for x in l]})
    impl = 'ok %s %s' % (fitted_str(est), kcenters_str(est))
    run = 'c05.kcenters %s %s %s %d' % (head, enc_listlist(rec.centers), enc_listlist(rec.labels), idx)
    spec = 'c05.spec_kcenters %s %d %d %s %d %s %s' % (
        enc_bool(bip), nr, nc, pos, est.n_clusters, enc_list(lab), kcenters_str(est))
    out.append(Case(key0 + ('fit',), dict(sig0, output='labels_/centers_'), run, impl, spec, nontriv, desc))
    # the whole fit with its restarts and assignment loop (number of assignments included)
    out.append(Case(key0 + ('full',), dict(sig0, output='fit'),
                    'c05.kcenters_full %s %s %s %d' % (head_full, enc_listlist(rec.centers), enc_listlist(rec.labels), idx),
                    'ok %d %s %s' % (rec.calls, fitted_str(est), kcenters_str(est)), None, nontriv, desc))
    # _init_centers: bookkeeping of the mask for every restart
    for t, c in enumerate(rec.centers):
        out.append(Case(key0 + ('init', t), dict(sig0, output='_init_centers'),
                        'c05.initcenters %s %d %d %s %d %s' % (enc_bool(bip), nr, nc, pos, est.n_clusters, enc_list(c)),
                        'ok %s 1' % enc_list(c),
                        'c05.spec_centers %s %d %d %s %d %s' % (enc_bool(bip), nr, nc, pos, est.n_clusters, enc_list(c)),
                        nontriv, desc))
    return out


# ---------------------------------------------------------------------------------------------
# comparison up to what the code leaves free
# ---------------------------------------------------------------------------------------------
def _same(c, model, impl, spec_ok):
    if model.startswith('err') and impl.startswith('err'):
        return model.split()[1] == impl.split()[1]
    if c.canon in ('labels_sorted', 'fitted_sorted', 'fitted_sorted0') and model.startswith('ok') and impl.startswith('ok'):
        # ties between cluster sizes: np.argsort may order equal sizes differently
        mt, it = model.split(' '), impl.split(' ')
        if len(mt) != len(it):
            return False
        if c.canon == 'fitted_sorted':
            if mt[1] != it[1]:
                return False
            mt, it = mt[2:], it[2:]
        else:
            mt, it = mt[1:], it[1:]
        # rebuild the full vectors (rows then columns) to compare partitions
        def full(t):
            if len(t) == 3 and t[1] != '_':
                return dec_list(t[1]) + dec_list(t[2]), len(dec_list(t[1]))
            return dec_list(t[0]), None
        fm, sm = full(mt)
        fi, si = full(it)
        if sm != si or len(fm) != len(fi):
            return False
        if len(mt) == 3 and (mt[1] == '_') != (it[1] == '_'):
            return False
        if len(it) == 3 and it[1] != '_' and dec_list(it[0]) != dec_list(it[1]):
            return False
        return canon_partition(fm) == canon_partition(fi) and sizes(fm) == sizes(fi)
    if c.canon == 'agg' and model.startswith('ok') and impl.startswith('ok'):
        mt, it = model.split(' '), impl.split(' ')
        if mt[:3] != it[:3]:
            return False
        ma, mb = dec_mat(mt[3]), dec_mat(it[3])
        return len(ma) == len(mb) and all(len(x) == len(y) and all(abs(u - v) <= TOL_F * (1 + abs(u))
                                                                    for u, v in zip(x, y)) for x, y in zip(ma, mb))
    if c.canon == 'mats' and model.startswith('ok') and impl.startswith('ok'):
        mt, it = model.split(' '), impl.split(' ')
        if len(mt) != len(it):
            return False
        for a, b in zip(mt[1:], it[1:]):
            if (a == '_') != (b == '_'):
                return False
            ma, mb = dec_mat(a), dec_mat(b)
            if len(ma) != len(mb) or any(len(x) != len(y) for x, y in zip(ma, mb)):
                return False
            for x, y in zip(ma, mb):
                for u, v in zip(x, y):
                    if abs(u - v) > TOL_F * (1 + abs(u)):
                        return False
        return True
    return False


def evaluate(ctx, cases):
    # spec-only cases carry no run line; vlib's evaluate handles `run=None`
    _evaluate(ctx, cases, same=_same)


# ---------------------------------------------------------------------------------------------
# generators
# ---------------------------------------------------------------------------------------------
WEIGHT_MODES = ['ones', 'ones', 'int', 'dyadic', 'float']


def weights(rng, k, mode):
    if mode == 'ones':
        return [1.0] * k
    if mode == 'int':
        return [float(rng.randint(1, 4)) for _ in range(k)]
    if mode == 'dyadic':
        return [rng.choice([0.25, 0.5, 1.0, 1.5, 2.0, 3.0]) for _ in range(k)]
    return [round(rng.uniform(0.1, 3.0), 3) for _ in range(k)]


def mk(n, es, w, m=None, symmetric=False):
    m = n if m is None else m
    if not es:
        return sparse.csr_matrix((n, m), dtype=float)
    if symmetric:
        ww = {}
        w2 = []
        for (i, j), x in zip(es, w):
            w2.append(ww.setdefault((min(i, j), max(i, j)), x))
        w = w2
    a = sparse.csr_matrix((np.asarray(w, dtype=float), ([e[0] for e in es], [e[1] for e in es])), shape=(n, m))
    a.sum_duplicates()
    a.sort_indices()
    return a


def graph_stream(ctx):
    """(name, matrix, square_undirected?) for the estimator cases."""
    rng = ctx.rng
    quick = ctx.quick
    out = []
    # exhaustive undirected with self-loops
    for n in (2, 3) if quick else (2, 3, 4):
        gs = [es for es in graphs.all_undirected(n, loops=True) if es]
        if quick and n == 3:
            gs = rng.sample(gs, 20)
        if n == 4:
            gs = rng.sample(gs, 300)
        for es in gs:
            out.append(('und%d' % n, mk(n, es, weights(rng, len(es), rng.choice(['ones', 'int'])), symmetric=True)))
    # digraphs
    for n, cnt in ((3, 12 if quick else 150), (4, 12 if quick else 200)):
        gs = [es for es in graphs.all_digraphs(n, loops=False) if es] if n == 3 else None
        for _ in range(cnt):
            es = rng.choice(gs) if gs else graphs.random_edges(rng, n, rng.choice([0.3, 0.5]), directed=True, loops=True)
            if es:
                out.append(('dir%d' % n, mk(n, es, weights(rng, len(es), rng.choice(WEIGHT_MODES)))))
    # biadjacency
    shapes = [(1, 2), (2, 1), (2, 3), (3, 2), (2, 2), (3, 3), (1, 4), (4, 2)]
    for nr, nc in shapes:
        allb = [es for es in graphs.all_bipartite(nr, nc) if es]
        for es in rng.sample(allb, min(len(allb), 4 if quick else 40)):
            out.append(('bip%dx%d' % (nr, nc), mk(nr, es, weights(rng, len(es), rng.choice(WEIGHT_MODES)), m=nc)))
    for _ in range(6 if quick else 80):
        nr, nc = rng.randint(2, 7), rng.randint(2, 7)
        es = graphs.random_edges(rng, nr, rng.choice([0.25, 0.5]), m=nc) if nr != nc else \
            [(i, j) for i in range(nr) for j in range(nc) if rng.random() < 0.4]
        if es:
            out.append(('bip-random', mk(nr, es, weights(rng, len(es), rng.choice(WEIGHT_MODES)), m=nc)))
    # structured
    for name, n, es, w in graphs.suite(rng, 42 if quick else 500, 3, 14):
        if not es:
            continue
        kind = name.rstrip('0123456789')
        mode = rng.choice(WEIGHT_MODES)
        a = mk(n, es, weights(rng, len(es), mode), symmetric=kind in graphs.UNDIRECTED_KINDS)
        out.append((kind, a))
    # degenerate: one edge among many isolated nodes, a single self-loop, explicit zero
    out.append(('one-edge', mk(5, [(1, 3), (3, 1)], [1.0, 1.0])))
    out.append(('one-arc', mk(4, [(2, 0)], [2.0])))
    out.append(('self-loop-only', mk(3, [(1, 1)], [1.0])))
    z = sparse.csr_matrix((np.array([1., 1., 0.]), (np.array([0, 1, 2]), np.array([1, 0, 0]))), shape=(3, 3))
    out.append(('explicit-zero', z))
    # other dtypes and unsorted column indices (the estimators cast with astype(float) / float32 themselves)
    res = []
    for name, a in out:
        r = rng.random()
        if r < 0.12:
            a = a.astype(bool)
            name += ':bool'
        elif r < 0.22 and np.all(a.data == np.round(a.data)):
            a = a.astype(int)
            name += ':int'
        elif r < 0.32 and a.nnz > 2:
            a = graphs.unsorted_copy(a, rng)
            name += ':unsorted'
        res.append((name, a))
    return res


def louvain_params(rng, full=False):
    p = {'modularity': rng.choice(['dugue', 'newman', 'potts', 'Dugue']),
         'resolution': rng.choice([1, 1, 0.5, 2]),
         'shuffle_nodes': rng.random() < 0.5,
         'sort_clusters': rng.random() < 0.6,
         'return_probs': rng.random() < 0.8,
         'return_aggregate': rng.random() < 0.8,
         'n_aggregations': rng.choice([-1, -1, 1, 2]),
         'tol_aggregation': rng.choice([1e-3, 1e-3, 0.05, 1e-6]),
         'random_state': rng.randrange(1000)}
    return p


def prop_params(rng):
    return {'n_iter': rng.choice([5, 1, 3]), 'node_order': rng.choice(['decreasing', 'increasing', 'random', None]),
            'weighted': rng.random() < 0.7, 'sort_clusters': rng.random() < 0.6,
            'return_probs': rng.random() < 0.8, 'return_aggregate': rng.random() < 0.8}


def estimator_cases(ctx, name, b, reps=1, kcenters=True):
    rng = ctx.rng
    out = []
    square = b.shape[0] == b.shape[1]
    for _ in range(reps):
        fb = square and rng.random() < 0.25
        out += louvain_cases(ctx, 'Louvain', b, louvain_params(rng), fb)
        fb = square and rng.random() < 0.25
        out += louvain_cases(ctx, 'Leiden', b, louvain_params(rng), fb)
        if rng.random() < 0.85:
            out += propagation_cases(ctx, b, prop_params(rng), rng.randrange(10 ** 6))
    if kcenters:
        fb = square and rng.random() < 0.3
        bip = fb or not square
        n_side = {'row': b.shape[0], 'col': b.shape[1], 'both': sum(b.shape)}
        pos = rng.choice(['row', 'col', 'both']) if bip else 'row'
        lim = n_side[pos] if bip else b.shape[0]
        k = rng.randint(2, max(2, min(4, lim + (1 if rng.random() < 0.15 else 0))))
        if rng.random() < 0.06:
            k = rng.choice([1, 0])                     # refused: fewer than 2 clusters
        params = {'n_clusters': k, 'center_position': pos, 'n_init': rng.choice([1, 2, 1, 2, 1, 2, 0]),
                  'directed': (not bip) and rng.random() < 0.3, 'max_iter': rng.choice([20, 20, 1, 0])}
        out += kcenters_cases(ctx, b, params, fb, rng.randrange(10 ** 6))
    ctx.count('graph:' + name)
    return out


def aggregate_graph_cases(ctx, b, variants=2):
    """postprocess.aggregate_graph on random integer labels (negative = ignored), all argument combinations."""
    from sknetwork.clustering.postprocess import aggregate_graph
    rng = ctx.rng
    nr, nc = b.shape
    g = enc_csr(b)
    out = []
    for _ in range(variants):
        def lab(n):
            k = rng.randint(1, 4)
            return [rng.choice([-1] + list(range(k)) * 2) for _ in range(n)]
        mode = rng.choice(['labels', 'row', 'row+col', 'labels+col', 'none'] if nr == nc else
                          ['row+col', 'row+col', 'labels+col', 'labels', 'none'])
        lr = lab(nr)
        lc = lab(nc)
        kw = {}
        if mode in ('labels', 'labels+col'):
            kw['labels'] = np.array(lr)
        if mode in ('row', 'row+col'):
            kw['labels_row'] = np.array(lr)
            if rng.random() < 0.3:
                kw['labels'] = np.array(lab(nr))     # ignored: labels_row wins
        if mode in ('row+col', 'labels+col'):
            kw['labels_col'] = np.array(lc)
        toks = [opt(None if kw.get(x) is None else kw[x]) for x in ('labels', 'labels_row', 'labels_col')]
        desc = {'kind': 'aggregate_graph', 'graph': gdesc(b), 'dtype': str(b.dtype),
                'kw': {k: [int(x) for x in v] for k, v in kw.items()}}

        def f():
            m = aggregate_graph(b, **kw)
            return 'ok %d %d %s' % (m.shape[0], m.shape[1], enc_mat(m.toarray()))
        impl = _call0(f, errors=(ValueError, IndexError, TypeError))
        spec = None
        if impl.startswith('ok ') and impl.split(' ')[3] != '-':     # an empty result has nothing to check
            eff_c = lc if 'labels_col' in kw else lr
            t = impl.split(' ')
            spec = 'c05.spec_aggregate_graph %s %s %s %s %s %s %s' % (g, enc_list(lr), enc_list(eff_c), t[1], t[2], t[3], TOL)
        out.append(Case(('aggregate_graph', g, tuple(toks)), {'entry': 'aggregate_graph', 'mode': mode,
                                                               'dtype': str(b.dtype)},
                        'c05.aggregate_graph %s %s' % (g, ' '.join(toks)), impl, spec,
                        impl.startswith('ok') and max(lr) >= 1, desc, canon='agg'))
    return out


def refusal_cases(ctx):
    """Inputs the estimators refuse: no stored entry (check_format), unknown modularity (_pre_processing)."""
    from sknetwork.clustering import Louvain, Leiden, PropagationClustering, KCenters
    out = []
    for shape in ((3, 3), (2, 3)):
        e = sparse.csr_matrix(shape, dtype=float)
        d = {'kind': 'refusal', 'shape': list(shape)}
        for name, cls in (('Louvain', Louvain), ('Leiden', Leiden)):
            impl = _call(lambda: (cls().fit(e), 'ok')[1])
            cmd = 'c05.louvain' if name == 'Louvain' else 'c05.leiden'
            mid = '- -' if name == 'Louvain' else '- - -'
            out.append(Case(('refuse', name, shape), {'entry': name, 'output': 'refusal'},
                            '%s %d %d 0 0 1 -1 %s - 1 0' % (cmd, shape[0], shape[1], mid), impl, None, False, d))
        impl = _call(lambda: (PropagationClustering().fit(e), 'ok')[1])
        out.append(Case(('refuse', 'prop', shape), {'entry': 'PropagationClustering', 'output': 'refusal'},
                        'c05.prop %d %d 0 - 1' % shape, impl, None, False, d))
    a = mk(3, [(0, 1), (1, 0)], [1.0, 1.0])
    bi = mk(2, [(0, 0), (1, 2)], [1.0, 1.0], m=3)
    for params, mat in (({'n_clusters': 1}, a), ({'n_clusters': 0}, a), ({'n_clusters': 2, 'n_init': 0}, a),
                        ({'n_clusters': 4}, a), ({'n_clusters': 3, 'center_position': 'row'}, bi),
                        ({'n_clusters': 2, 'center_position': 'foo'}, bi), ({'n_clusters': 2, 'max_iter': 0}, a)):
        out += kcenters_cases(ctx, mat, params, False, 1)
    for name, cls in (('Louvain', Louvain), ('Leiden', Leiden)):
        impl = _call(lambda: (cls(modularity='foo').fit(a), 'ok')[1])
        cmd = 'c05.louvain' if name == 'Louvain' else 'c05.leiden'
        mid = '- -' if name == 'Louvain' else '- - -'
        out.append(Case(('refuse-mod', name), {'entry': name, 'output': 'refusal'},
                        '%s 3 3 2 0 0 -1 %s 0,1,2 1 0' % (cmd, mid), impl, None, False,
                        {'kind': 'refusal', 'modularity': 'foo'}))
    return out


def corpus_cases(ctx):
    import json
    import os
    from vlib.core import VERIF
    p = os.path.join(VERIF, 'corpus', 'C05.jsonl')
    out = []
    if os.path.exists(p):
        for ln in open(p):
            ln = ln.strip()
            if ln and not ln.startswith('#'):
                out += cases_of_desc(ctx, json.loads(ln)['case'])
                ctx.count('corpus')
    return out


def cases_of_desc(ctx, d):
    if d.get('kind') == 'labels':
        return label_vector_cases(ctx, d['labels'])
    if d.get('kind') == 'refusal':
        return refusal_cases(ctx)
    if d.get('kind') == 'aggregate_graph':
        return aggregate_graph_replay(ctx, d)
    b = gfrom(d['graph'])
    if d['est'] in ('Louvain', 'Leiden'):
        return louvain_cases(ctx, d['est'], b, d['params'], d.get('force_bipartite', False))
    if d['est'] == 'PropagationClustering':
        return propagation_cases(ctx, b, d['params'], d.get('np_seed', 0))
    if d['est'] == 'KCenters':
        return kcenters_cases(ctx, b, d['params'], d.get('force_bipartite', False), d.get('np_seed', 0))
    raise ToolFailure('unknown replay case %r' % (d,))


def aggregate_graph_replay(ctx, d):
    from sknetwork.clustering.postprocess import aggregate_graph
    b = gfrom(d['graph'])
    kw = {k: np.array(v) for k, v in d['kw'].items()}
    g = enc_csr(b)
    toks = [opt(None if kw.get(x) is None else kw[x]) for x in ('labels', 'labels_row', 'labels_col')]

    def f():
        m = aggregate_graph(b, **kw)
        return 'ok %d %d %s' % (m.shape[0], m.shape[1], enc_mat(m.toarray()))
    impl = _call0(f, errors=(ValueError, IndexError, TypeError))
    spec = None
    if impl.startswith('ok ') and impl.split(' ')[3] != '-':
        lr = kw.get('labels_row', kw.get('labels'))
        lc = kw.get('labels_col', lr)
        t = impl.split(' ')
        spec = 'c05.spec_aggregate_graph %s %s %s %s %s %s %s' % (g, enc_list(lr), enc_list(lc), t[1], t[2], t[3], TOL)
    return [Case(('aggregate_graph', g, tuple(toks)), {'entry': 'aggregate_graph', 'dtype': str(b.dtype)},
                 'c05.aggregate_graph %s %s' % (g, ' '.join(toks)), impl, spec, True, d, canon='agg')]


def build_cases(ctx):
    rng = ctx.rng
    cases = corpus_cases(ctx) + refusal_cases(ctx)
    for v in label_vectors(ctx):
        cases += label_vector_cases(ctx, v)
    gs = graph_stream(ctx)
    kc_budget = 45 if ctx.quick else 500
    kc_idx = set(rng.sample(range(len(gs)), min(len(gs), kc_budget)))
    for i, (name, b) in enumerate(gs):
        cases += estimator_cases(ctx, name, b, reps=1 if ctx.quick else 2, kcenters=i in kc_idx)
        cases += aggregate_graph_cases(ctx, b, variants=2 if ctx.quick else 4)
    return cases


def run(ctx):
    evaluate(ctx, build_cases(ctx))


# -- failing-input search -------------------------------------------------------------------------
def search(ctx, pending):
    """The Lean specification on the implementation over the exhaustive small space x option grid."""
    import itertools
    rng = ctx.rng
    cases = []
    for n in range(1, 5):
        for v in itertools.product(range(3), repeat=n):
            cases += [c for c in label_vector_cases(ctx, list(v)) if c.spec]
    gs = []
    for n in (2, 3):
        for es in graphs.all_undirected(n, loops=True):
            if es:
                gs.append(mk(n, es, [1.0] * len(es)))
    for es in graphs.all_digraphs(3):
        if es:
            gs.append(mk(3, es, [1.0] * len(es)))
    for nr, nc in ((1, 2), (2, 2), (2, 3)):
        for es in graphs.all_bipartite(nr, nc):
            if es:
                gs.append(mk(nr, es, [1.0] * len(es), m=nc))
    for name, n, es, w in graphs.suite(rng, 30, 4, 10):
        if es:
            gs.append(mk(n, es, [1.0] * len(es)))
    for b in gs:
        for so in (True, False):
            for sh in (False, True):
                p = {'sort_clusters': so, 'shuffle_nodes': sh, 'random_state': 1}
                for cn in ('Louvain', 'Leiden'):
                    cases += [c for c in louvain_cases(ctx, cn, b, p, False) if c.spec]
            cases += [c for c in propagation_cases(ctx, b, {'sort_clusters': so}) if c.spec]
        if sum(b.shape) <= 5:
            for pos in ('row', 'col', 'both'):
                cases += [c for c in kcenters_cases(ctx, b, {'n_clusters': 2, 'center_position': pos, 'n_init': 1},
                                                    False, 1) if c.spec]
    sub = Sub(ctx)
    for c in cases:
        c.run = None
    evaluate(sub, cases)
    return sub.found()


def replay(ctx, payload):
    case = payload.get('case') or {}
    if case.get('kind'):
        evaluate(ctx, cases_of_desc(ctx, case))
    else:
        evaluate(ctx, build_cases(ctx))
