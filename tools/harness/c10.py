"""C10 — hop distances, shortest-path DAGs, search orders, get_dag.

Correspondence: every case calls the real function (overlay build of /repo's working tree) and sends
  run  line  -> the Lean model (SkNet/Model/Path.lean) computes the answer; compared exactly
  spec line  -> the Lean specification (SkNet/Spec/Path.lean: walks of exact length, no visited set)
                is evaluated on the implementation's own output
Theorems (SkNet/Properties/C10.lean) tie model and specification for every graph.
"""
import itertools

import numpy as np
from scipy import sparse

from vlib import graphs
from vlib.cases import Case, Sub, call as _call0, evaluate as _evaluate
from vlib.core import enc_csr, enc_list, enc_opt_list, enc_bool, dec_list, dec_pairs

RULE = ('exhaustive unit-weight digraphs n<=3 x all source sets x {plain, transpose}; n=4 sampled in the quick tier (all in '
        'thorough, plus 3000 samples of n=5), unit or mixed weights (explicit zeros, negative, fractional), dtypes '
        'float/bool/int/uint8; structured random graphs n<=14 (half with unsorted indices, a third transposed); one long '
        'path / cycle / grid with 20-30 nodes (thorough: 30-44); degenerate shapes (0x0, 2x0, 0x2, duplicate entries that cancel); bipartite '
        'routing: every 0/1 biadjacency of the small shapes x {source, source_row} x source_col x transpose x '
        'force_bipartite in {False, True} (both on square shapes); random weighted / unsorted biadjacency matrices up to 7x7, a long '
        'bipartite path, weights cancelling over a frontier, duplicate entries on both routes; a malformed stream (out-of-range sources on either side, '
        'source together with source_row, no source) compared by exception class; get_dag orders drawn from [-3, n+2], '
        'scaled, all-negative and all-equal vectors. A get_distances / get_shortest_path case is non-trivial when the graph '
        'has an edge and some node is at distance >= 1 (resp. the DAG has an edge); a bfs / get_dag case when the graph has an '
        'edge; distinct = distinct (function, graph, arguments)')
ASSUMPTIONS = ['scipy csr construction / astype(bool) / tocoo / T are the substrate (monitored through the outputs)',
               'np.argsort returns some sorting permutation (breadth_first_search is compared up to ties)']


def _enc_pairs(m):
    m = sparse.coo_matrix(m)
    ps = sorted((int(i), int(j)) for i, j, v in zip(m.row, m.col, m.data) if v != 0)
    return ';'.join('%d,%d' % p for p in ps) if ps else '-'


def _call(f):
    """every exception class is an answer (compared with the model's), never a tool failure"""
    try:
        return f()
    except Exception as e:  # noqa
        return 'err ' + type(e).__name__


def _as_src(s):
    """The code accepts an int or an iterable: single-element sets are passed as ints half of the time."""
    return s


ORDER_DTYPES = ['int64', 'int32', 'int16', 'int8', 'uint8', 'uint16', 'uint32', 'uint64']


def cases_for_graph(ctx, a, rng, source_sets, full=True, transposes=False, forms=None, orders=None, bfs_nodes=None,
                    order_dtypes=None):
    """All request lines for one square matrix `a` (csr) and the given source sets."""
    from sknetwork.path import get_distances, get_shortest_path, breadth_first_search, get_dag
    n = a.shape[0]
    g = enc_csr(a)
    out = []
    gdesc = {'n': n, 'indptr': a.indptr.tolist(), 'indices': a.indices.tolist(), 'data': a.data.tolist(),
             'dtype': str(a.dtype)}
    for s in source_sets:
        form = forms.get(tuple(s)) if forms else None
        if form is None:
            form = rng.choice(['int', 'list']) if len(s) == 1 else rng.choice(['list', 'list', 'array'])
        src_arg = s[0] if (len(s) == 1 and form == 'int') else (np.array(s, dtype=int) if form == 'array' else list(s))
        trs = [False, True] if (full or transposes) else [False]
        for tr in trs:
            def f():
                d = get_distances(a, source=src_arg, transpose=tr)
                return 'ok s ' + enc_list(d)
            impl = _call(f)
            run = 'c10.dist %s %s _ _ %s 0' % (g, enc_list(s), enc_bool(tr))
            spec = None
            if impl.startswith('ok s '):
                spec = 'c10.spec_dist %s %s 0 %s %s' % (g, enc_bool(tr), enc_list(s), impl[5:])
            nontriv = a.nnz > 0 and impl.startswith('ok') and any(x > 0 for x in dec_list(impl[5:]))
            out.append(Case(('dist', g, tuple(s), tr), {'entry': 'get_distances', 'transpose': tr, 'bipartite': False},
                            run, impl, spec, nontriv,
                            {'f': 'get_distances', 'graph': gdesc, 'source': s, 'transpose': tr, 'form': form}))
        # shortest path DAG

        def f2():
            p = get_shortest_path(a, source=src_arg)
            return 'ok %d %s' % (p.shape[0], _enc_pairs(p))
        impl = _call(f2)
        run = 'c10.path %s %s _ _ 0' % (g, enc_list(s))
        spec = None
        if impl.startswith('ok '):
            spec = 'c10.spec_path %s 0 0 %s %s %s' % (g, enc_list(s), impl.split(' ')[1], impl.split(' ')[2])
        out.append(Case(('path', g, tuple(s)), {'entry': 'get_shortest_path', 'bipartite': False}, run, impl, spec,
                        a.nnz > 0 and impl.split(' ')[-1] != '-',
                        {'f': 'get_shortest_path', 'graph': gdesc, 'source': s, 'form': form}))
        # get_dag with source
        if full:
            def f3():
                return 'ok ' + _enc_pairs(get_dag(a, source=src_arg))
            impl = _call(f3)
            run = 'c10.dag %s %s %s %s %s _' % (n, enc_list(a.indptr), enc_list(a.indices),
                                               g.split(' ')[4], enc_list(s))
            spec = None
            if impl.startswith('ok '):
                spec = 'c10.spec_path %s 0 0 %s %s' % (g, enc_list(s), impl.split(' ')[1])
            out.append(Case(('dagsrc', g, tuple(s)), {'entry': 'get_dag', 'mode': 'source'}, run, impl, spec,
                            a.nnz > 0, {'f': 'get_dag', 'graph': gdesc, 'source': s, 'form': form}))
    gsq = '%s %s %s %s' % (n, enc_list(a.indptr), enc_list(a.indices), g.split(' ')[4])
    # breadth first search from every node (quick: two nodes)
    nodes = bfs_nodes if bfs_nodes is not None else (list(range(n)) if full else rng.sample(range(n), min(n, 2)))
    for s in nodes:
        def f4():
            return 'ok ' + enc_list(breadth_first_search(a, s))
        impl = _call(f4)
        run = 'c10.bfs %s %d' % (gsq, s)
        spec = 'c10.spec_bfs %s %d %s' % (gsq, s, impl[3:]) if impl.startswith('ok ') else None
        out.append(Case(('bfs', g, s), {'entry': 'breadth_first_search'}, run, impl, spec, a.nnz > 0,
                        {'f': 'breadth_first_search', 'graph': gdesc, 'source': s}, canon='bfs'))
    # get_dag with explicit orders (ties, negatives) and the default order
    auto_orders = orders is None
    if orders is None:
        orders = [None]
        for _ in range(2 if full else 1):
            orders.append([rng.randint(-3, n + 2) for _ in range(n)])
        if n > 0:
            kind = rng.randrange(4 if full else 8)
            if kind == 0:
                orders.append([o * 1000 - 7 for o in orders[1]])            # scaled: large values, large negatives
            elif kind == 1:
                orders.append([-rng.randint(1, 3) for _ in range(n)])       # all negative
            elif kind == 2:
                orders.append([rng.choice([-2, 0, 5])] * n)                 # all equal
            elif kind == 3:
                orders.append([rng.choice([-1, 4 * 10 ** 12, 7]) for _ in range(n)])
    order_dtypes = dict(order_dtypes or {})
    if auto_orders and n > 0:
        # the same order values in another integer dtype (unsigned ones for non-negative orders): the comparison
        # 0 <= order[i] < order[j] is about the values, whatever the dtype they are stored in
        orders.append([rng.randint(0, n + 2) for _ in range(n)])
        for o in orders[1:]:
            fits = [dt for dt in ORDER_DTYPES if np.iinfo(dt).min <= min(o) and max(o) <= np.iinfo(dt).max]
            if fits and rng.random() < 0.75:
                order_dtypes[tuple(o)] = rng.choice(fits)
    for o in orders:
        odt = None if o is None else order_dtypes.get(tuple(o))

        def f5():
            return 'ok ' + _enc_pairs(get_dag(a, order=None if o is None else (np.array(o) if odt is None else
                                                                               np.array(o, dtype=odt))))
        impl = _call(f5)
        if odt is not None:
            ctx.count('get_dag:order-dtype:' + odt)
        run = 'c10.dag %s _ %s' % (gsq, '_' if o is None else enc_list(o))
        oo = list(range(n)) if o is None else o
        spec = 'c10.spec_dag %s %s %s' % (gsq, enc_list(oo), impl[3:]) if impl.startswith('ok ') else None
        out.append(Case(('dag', g, None if o is None else tuple(o), odt), {'entry': 'get_dag', 'mode': 'order'}, run, impl,
                        spec, a.nnz > 0, {'f': 'get_dag', 'graph': gdesc, 'order': o, 'order_dtype': odt}))
    return out


def _bi_case(ctx, b, g, gdesc, sr2, sc2, use_source, tr, fb, out, malformed=False, as_array=False):
    """One get_distances (and, untransposed, one get_shortest_path) call on a biadjacency / square matrix with the
    given row sources (passed as `source` or `source_row`), column sources, transposition and flag."""
    from sknetwork.path import get_distances, get_shortest_path
    nr, nc = b.shape
    r_lim = nc if tr else nr
    kw = {}
    src_tok, sr_tok, sc_tok = '_', '_', '_'
    if use_source and sr2 is not None:
        kw['source'] = sr2
        src_tok = enc_list(sr2)
    elif sr2 is not None:
        kw['source_row'] = sr2
        sr_tok = enc_list(sr2)
    if sc2 is not None:
        kw['source_col'] = sc2
        sc_tok = enc_list(sc2)
    if isinstance(use_source, tuple):      # malformed: both `source` and `source_row`
        kw['source'], kw['source_row'] = list(use_source[0]), list(use_source[1])
        src_tok, sr_tok = enc_list(kw['source']), enc_list(kw['source_row'])
    tag = 'malformed' if malformed else 'routing'
    if as_array:
        kw = {k: np.array(v, dtype=int) for k, v in kw.items()}
    jkw = {k: [int(x) for x in v] for k, v in kw.items()}

    def f():
        d = get_distances(b, transpose=tr, force_bipartite=fb, **kw)
        if isinstance(d, tuple):
            return 'ok p %s %s' % (enc_list(d[0]), enc_list(d[1]))
        return 'ok s ' + enc_list(d)
    impl = _call(f)
    run = 'c10.dist %s %s %s %s %s %s' % (g, src_tok, sr_tok, sc_tok, enc_bool(tr), enc_bool(fb))
    spec = None
    block_src = (jkw.get('source') or jkw.get('source_row') or []) + [r_lim + x for x in (sc2 or [])]
    if impl.startswith('ok p '):
        dd = impl.split(' ')
        spec = 'c10.spec_bdist %s %s %s %s %s' % (g, enc_bool(tr), enc_list(block_src), dd[2], dd[3])
    elif impl.startswith('ok s '):
        spec = 'c10.spec_dist %s %s 0 %s %s' % (g, enc_bool(tr), enc_list(jkw.get('source') or []), impl[5:])
    else:
        # a refusal: the specification of the routing says which one is due (or that none is)
        spec = 'c10.spec_route %d %d %s %s %s %s %s %s' % (nr, nc, src_tok, sr_tok, sc_tok, enc_bool(tr), enc_bool(fb),
                                                         impl[4:] if impl.startswith('err ') else impl)
    desc = {'f': 'get_distances', 'biadjacency': gdesc, 'kw': jkw, 'transpose': tr, 'force_bipartite': fb, 'as_array': as_array}
    if impl.startswith('ok'):
        # the routing specification also judges what was accepted (plain / bipartite answer)
        out.append(Case(('broute', g, src_tok, sr_tok, sc_tok, tr, fb), {'entry': 'get_distances', 'bipartite': True, 'stream': tag, 'line': 'route'},
                        None, impl, 'c10.spec_route %d %d %s %s %s %s %s %s' % (nr, nc, src_tok, sr_tok, sc_tok, enc_bool(tr), enc_bool(fb),
                                                                             'ok-p' if impl.startswith('ok p') else 'ok-s'),
                        False, desc))
    out.append(Case(('bdist', g, src_tok, sr_tok, sc_tok, tr, fb),
                    {'entry': 'get_distances', 'bipartite': True, 'transpose': tr, 'stream': tag}, run, impl, spec,
                    b.nnz > 0 and impl.startswith('ok'), desc))
    ctx.count('bdist:%s:fb=%d:square=%d:answer=%s' % (tag, fb, nr == nc, impl.split(' ')[0] + (impl[3:4] if impl.startswith('ok') else ' ' + impl[4:])))
    if not tr:
        def f2():
            p = get_shortest_path(b, force_bipartite=fb, **kw)
            return 'ok %d %s' % (p.shape[0], _enc_pairs(p))
        impl = _call(f2)
        run = 'c10.path %s %s %s %s %s' % (g, src_tok, sr_tok, sc_tok, enc_bool(fb))
        spec = None
        if impl.startswith('ok '):
            bip = fb or nr != nc or sr_tok != '_' or sc_tok != '_'
            srcs = block_src if bip else (jkw.get('source') or [])
            spec = 'c10.spec_path %s 0 %d %s %s %s' % (g, 1 if bip else 0, enc_list(srcs), impl.split(' ')[1],
                                                      impl.split(' ')[2])
        out.append(Case(('bpath', g, src_tok, sr_tok, sc_tok, fb),
                        {'entry': 'get_shortest_path', 'bipartite': True, 'force_bipartite': fb, 'stream': tag,
                         'via': 'source' if src_tok != '_' else 'source_row/col'}, run, impl, spec,
                        b.nnz > 0 and impl.startswith('ok'),
                        {'f': 'get_shortest_path', 'biadjacency': gdesc, 'kw': jkw, 'force_bipartite': fb, 'as_array': as_array}))


def cases_for_bigraph(ctx, b, rng, full=True, only=None):
    """Routing of get_distances / get_shortest_path on a biadjacency matrix (rectangular, or square with and
    without force_bipartite), well-formed and malformed argument combinations."""
    nr, nc = b.shape
    g = enc_csr(b)
    gdesc = {'shape': [nr, nc], 'indptr': b.indptr.tolist(), 'indices': b.indices.tolist(), 'data': b.data.tolist(),
             'dtype': str(b.dtype)}
    out = []
    if only is not None:       # replay of one recorded call
        _bi_case(ctx, b, g, gdesc, only.get('sr'), only.get('sc'), only.get('use_source', False), only['tr'], only['fb'],
                 out, malformed=only.get('malformed', False), as_array=only.get('as_array', False))
        return out
    combos = []
    for tr in (False, True):
        r_lim, c_lim = (nc, nr) if tr else (nr, nc)
        rows = [None] + [[i] for i in range(r_lim)] + ([list(range(r_lim))] if r_lim > 1 else [])
        cols = [None] + [[j] for j in range(c_lim)] + ([list(range(c_lim))] if c_lim > 1 else [])
        for sr in rows:
            for sc in cols:
                for use_source in (False, True):
                    if use_source and sr is None:
                        continue
                    for fb in (False, True):
                        combos.append((sr, sc, use_source, tr, fb))
    if not full:
        combos = rng.sample(combos, min(len(combos), 8))
    for sr, sc, use_source, tr, fb in combos:
        _bi_case(ctx, b, g, gdesc, sr, sc, use_source, tr, fb, out, as_array=rng.random() < 0.3)
    # malformed stream: out-of-range indices on either side, source together with source_row, nothing at all
    bad = []
    for tr in (False, True):
        r_lim, c_lim = (nc, nr) if tr else (nr, nc)
        for fb in (False, True):
            bad += [([r_lim + c_lim], None, True, tr, fb),          # source = n_row + n_col : outside the block graph
                    ([r_lim + c_lim], None, False, tr, fb),         # source_row = n_row + n_col
                    (None, [c_lim], False, tr, fb),                 # source_col = n_col
                    ([0] if r_lim else None, [c_lim + 1], False, tr, fb),
                    ([r_lim], None, True, tr, fb),                  # source = n_row: a column node (bipartite) / out of range (plain)
                    (None, None, False, tr, fb),                    # nothing given
                    (None, None, ([0], [0]), tr, fb)]               # source and source_row
    if not full:
        bad = rng.sample(bad, 6)
    for sr, sc, use_source, tr, fb in bad:
        _bi_case(ctx, b, g, gdesc, sr, sc, use_source, tr, fb, out, malformed=True)
    return out


def _weights(rng, k, mode):
    if mode == 'ones':
        return [1] * k
    if mode == 'bool':
        return [True] * k
    return [rng.choice([1, 2, 3, -1, 0, 0.5]) for _ in range(k)]


_DT = [0]


def _mk(n, es, w, m=None):
    """float CSR; when every weight is 1 the dtype cycles through float / bool / int (the shipped toy graphs are
    bool), when the weights are small non-negative integers through float / int / uint8"""
    m = n if m is None else m
    if not es:
        return sparse.csr_matrix((n, m), dtype=float)
    a = sparse.csr_matrix((np.asarray(w, dtype=float), ([e[0] for e in es], [e[1] for e in es])), shape=(n, m))
    _DT[0] += 1
    if np.all(a.data == 1):
        return a.astype([float, bool, int][_DT[0] % 3])
    if np.all(a.data == np.round(a.data)) and a.data.min() >= 0:
        return a.astype([float, int, np.uint8][_DT[0] % 3])
    return a


def _same(c, model, impl, spec_ok):
    if c.canon == 'bfs' and model.startswith('ok') and impl.startswith('ok'):
        # np.argsort may order ties differently: the spec line is the judge of the order
        return sorted(dec_list(model[3:])) == sorted(dec_list(impl[3:])) and spec_ok
    return False   # error answers are compared by exception class (model and numpy agree on all of them)


def evaluate(ctx, cases):
    _evaluate(ctx, cases, same=_same)


def build_cases(ctx):
    rng = ctx.rng
    cases = []
    quick = ctx.quick
    # exhaustive digraphs (loops allowed) n <= 3
    for n in (1, 2, 3):
        for es in graphs.all_digraphs(n, loops=(n <= 2)):
            a = _mk(n, es, _weights(rng, len(es), 'ones'))
            cases += cases_for_graph(ctx, a, rng, list(graphs.nonempty_subsets(n)), full=True)
    # n = 4
    g4 = list(graphs.all_digraphs(4))
    if quick:
        g4 = rng.sample(g4, 250)
    for es in g4:
        a = _mk(4, es, _weights(rng, len(es), rng.choice(['ones', 'mixed'])))
        subs = list(graphs.nonempty_subsets(4))
        cases += cases_for_graph(ctx, a, rng, subs if not quick else rng.sample(subs, 3), full=not quick)
    if not quick:
        for _ in range(3000):
            es = graphs.random_edges(rng, 5, rng.choice([0.15, 0.3, 0.5]), directed=True, loops=True)
            a = _mk(5, es, _weights(rng, len(es), 'mixed'))
            cases += cases_for_graph(ctx, a, rng, rng.sample(list(graphs.nonempty_subsets(5)), 3), full=False)
    # structured random graphs
    for name, n, es, w in graphs.suite(rng, 40 if quick else 400, 3, 14):
        a = _mk(n, es, _weights(rng, len(es), rng.choice(['ones', 'mixed'])))
        if rng.random() < 0.5:
            a = graphs.unsorted_copy(a, rng)
        subs = [[rng.randrange(n)], sorted(rng.sample(range(n), min(n, 3)))]
        cases += cases_for_graph(ctx, a, rng, subs, full=False, transposes=rng.random() < 0.34)
        ctx.count('structured:' + name.rstrip('0123456789'))
    # long graphs: distances beyond any small constant (directed path, cycle, grid), 40-70 nodes
    for kind in ('path', 'cycle', 'grid'):
        n = rng.randint(24, 30) if quick else rng.randint(36, 44)
        if kind == 'path':
            es = [(i, i + 1) for i in range(n - 1)]
        elif kind == 'cycle':
            es = [(i, (i + 1) % n) for i in range(n)]
        else:
            w = rng.randint(4, 5) if quick else rng.randint(5, 6)
            n = w * (rng.randint(5, 6) if quick else rng.randint(6, 7))
            es = [(i, i + 1) for i in range(n) if (i + 1) % w] + [(i, i + w) for i in range(n - w)]
            es += [(j, i) for i, j in es]
        a = _mk(n, es, [1] * len(es))
        cases += cases_for_graph(ctx, a, rng, [[rng.randrange(n)], [0]], full=False, transposes=True)
        ctx.count('long:' + kind)
    # degenerate shapes and non-canonical storage
    for shape in ((0, 0), (2, 0), (0, 2), (1, 1)):
        b = sparse.csr_matrix(shape, dtype=float)
        if shape[0] == shape[1]:
            subs = [[0]] if shape[0] else [[]]
            cases += cases_for_graph(ctx, b, rng, subs, full=True)
        cases += cases_for_bigraph(ctx, b, rng, full=True)
        ctx.count('degenerate:%dx%d' % shape)
    # bipartite inputs beyond the small exhaustive shapes: weighted (negative, fractional, stored zeros), unsorted rows,
    # dtypes, a long bipartite path (distances far beyond any small constant), duplicates (summed by the block construction)
    for _ in range(10 if quick else 120):
        nr, nc = rng.randint(2, 7), rng.randint(2, 7)
        es = [(i, j) for i in range(nr) for j in range(nc) if rng.random() < rng.choice([0.2, 0.4])]
        b = _mk(nr, es, _weights(rng, len(es), rng.choice(['ones', 'mixed', 'mixed'])), m=nc)
        if rng.random() < 0.5:
            b = graphs.unsorted_copy(b, rng)
        cases += cases_for_bigraph(ctx, b, rng, full=False)
        ctx.count('bipartite:random')
    # weights that cancel when summed over a frontier (+w and -w towards the same node): the loop must test reachability,
    # not a weighted sum — on the plain and on the bipartite route, with every node of one side as source
    for _ in range(6 if quick else 60):
        nr, nc = rng.randint(2, 4), rng.randint(2, 4)
        es = [(i, j) for i in range(nr) for j in range(nc) if rng.random() < 0.7]
        w = [rng.choice([1, -1, 2, -2]) for _ in es]
        b = _mk(nr, es, w, m=nc)
        g = enc_csr(b)
        gd = {'shape': [nr, nc], 'indptr': b.indptr.tolist(), 'indices': b.indices.tolist(), 'data': b.data.tolist(), 'dtype': str(b.dtype)}
        _bi_case(ctx, b, g, gd, None, list(range(nc)), False, False, False, cases)
        _bi_case(ctx, b, g, gd, list(range(nr)), None, False, False, True, cases)
        n = rng.randint(3, 5)
        es = [(i, j) for i in range(n) for j in range(n) if i != j and rng.random() < 0.6]
        a = _mk(n, es, [rng.choice([1, -1, 2, -2]) for _ in es])
        cases += cases_for_graph(ctx, a, rng, [list(range(n - 1)), [0, 1]], full=False, transposes=True)
        ctx.count('cancelling-weights')
    k = rng.randint(8, 12) if quick else rng.randint(14, 20)
    es = [(i, i) for i in range(k)] + [(i + 1, i) for i in range(k - 1)]      # row i - col i - row i+1 - ... : a path of 2k nodes
    bp = _mk(k, es, [rng.choice([1, 2, -1, 0.5]) for _ in es], m=k)
    g = enc_csr(bp)
    gd = {'shape': [k, k], 'indptr': bp.indptr.tolist(), 'indices': bp.indices.tolist(), 'data': bp.data.tolist(), 'dtype': str(bp.dtype)}
    for sr, sc, us, tr, fb in (([0], None, False, False, False), ([0], None, True, False, True), (None, [k - 1], False, True, False),
                               ([0], [k - 1], False, False, True)):
        _bi_case(ctx, bp, g, gd, sr, sc, us, tr, fb, cases)
    ctx.count('bipartite:long-path')
    dupb = sparse.csr_matrix((np.array([1., -1., 2., 1., 1., 3.]), np.array([1, 1, 2, 0, 0, 2]), np.array([0, 3, 5, 6])), shape=(3, 3))
    cases += cases_for_bigraph(ctx, dupb, rng, full=True)
    ctx.count('degenerate:duplicates-bipartite')
    # duplicate stored entries, one pair cancelling (+1, -1 at the same position), indices unsorted
    dup = sparse.csr_matrix((np.array([1., -1., 2., 1., 1.]), np.array([1, 1, 2, 0, 0]), np.array([0, 3, 5, 5])), shape=(3, 3))
    cases += cases_for_graph(ctx, dup, rng, [[0], [1], [0, 2]], full=True)
    ctx.count('degenerate:duplicates')
    # bipartite routing: all 0/1 biadjacency up to 2x3 / 3x2 / 2x2 forced
    shapes = [(1, 2), (2, 1), (2, 2), (2, 3), (3, 2)] + ([] if quick else [(3, 3), (1, 3)])
    for nr, nc in shapes:
        allb = list(graphs.all_bipartite(nr, nc))
        if quick and len(allb) > 24:
            allb = rng.sample(allb, 24)
        for es in allb:
            b = _mk(nr, es, [1] * len(es), m=nc)
            cases += cases_for_bigraph(ctx, b, rng, full=not quick)
    ctx.exhaustive = False
    return cases


def corpus_cases(ctx):
    """Minimised past failing inputs (corpus/C10.jsonl) are replayed first."""
    import json
    import os
    path = os.path.join(os.path.dirname(os.path.dirname(os.path.dirname(os.path.abspath(__file__)))), 'corpus', 'C10.jsonl')
    cases = []
    if os.path.exists(path):
        for ln in open(path):
            ln = ln.strip()
            if ln and not ln.startswith('#'):
                cases += _cases_of(ctx, json.loads(ln)['case'], neighbourhood=False)
                ctx.count('corpus')
    return cases


def run(ctx):
    cases = corpus_cases(ctx) + build_cases(ctx)
    evaluate(ctx, cases)


# -- failing-input search ---------------------------------------------------------------------
def search(ctx, pending):
    """Re-evaluate the Lean specification on the implementation over the exhaustive small space."""
    rng = ctx.rng
    before = len(ctx.spec_failures)
    cases = []
    for n in (2, 3):
        for es in graphs.all_digraphs(n, loops=True):
            a = _mk(n, es, [1] * len(es))
            cases += cases_for_graph(ctx, a, rng, list(graphs.nonempty_subsets(n)), full=True)
    for nr, nc in [(1, 2), (2, 2), (2, 3)]:
        for es in graphs.all_bipartite(nr, nc):
            cases += cases_for_bigraph(ctx, _mk(nr, es, [1] * len(es), m=nc), rng, full=True)
    sub = Sub(ctx)
    evaluate(sub, cases)
    return sub.found()


def _matrix_of(gd, shape):
    dt = {'bool': bool, 'int64': np.int64, 'int32': np.int32, 'uint8': np.uint8}.get(gd.get('dtype', 'float64'), float)
    return sparse.csr_matrix((np.array(gd['data']).astype(dt), np.array(gd['indices'], dtype=np.int32),
                              np.array(gd['indptr'], dtype=np.int32)), shape=shape)


def _cases_of(ctx, case, neighbourhood=True):
    """The recorded case itself (same matrix with its dtype, same argument form, same order vector, same flags),
    then — for a replay — its neighbourhood (all source sets / argument combinations on the same matrix)."""
    rng = ctx.rng
    cs = []
    if 'graph' in case:
        gd = case['graph']
        a = _matrix_of(gd, (gd['n'], gd['n']))
        if 'order' in case:
            cs += cases_for_graph(ctx, a, rng, [], full=False, orders=[case['order']], bfs_nodes=[],
                                  order_dtypes={tuple(case['order']): case.get('order_dtype')} if case['order'] is not None else None)
        elif isinstance(case.get('source'), list):
            s = case['source']
            cs += cases_for_graph(ctx, a, rng, [s], full=True, forms={tuple(s): case.get('form')}, orders=[], bfs_nodes=[])
        elif isinstance(case.get('source'), int):
            cs += cases_for_graph(ctx, a, rng, [], full=False, orders=[], bfs_nodes=[case['source']])
        if neighbourhood:
            cs += cases_for_graph(ctx, a, rng, list(graphs.nonempty_subsets(gd['n']))[:31], full=True)
    elif 'biadjacency' in case:
        gd = case['biadjacency']
        b = _matrix_of(gd, tuple(gd['shape']))
        kw = case.get('kw', {})
        both = 'source' in kw and 'source_row' in kw
        only = {'sr': kw.get('source', kw.get('source_row')) if not both else None, 'sc': kw.get('source_col'),
                'use_source': ((kw['source'], kw['source_row']) if both else ('source' in kw)),
                'tr': bool(case.get('transpose', False)), 'fb': bool(case.get('force_bipartite', False)),
                'as_array': bool(case.get('as_array', False))}
        cs += cases_for_bigraph(ctx, b, rng, only=only)
        if neighbourhood:
            cs += cases_for_bigraph(ctx, b, rng, full=True)
    return cs


def replay(ctx, payload):
    """Re-run the recorded failing input against the current tree, then its neighbourhood."""
    case = payload.get('case') or {}
    cs = _cases_of(ctx, case) if ('graph' in case or 'biadjacency' in case) else build_cases(ctx)
    evaluate(ctx, cs)
