"""C10 — hop distances, shortest-path DAGs, search orders, get_dag.

Correspondence: every case calls the real function (overlay build of /repo's working tree) and sends
  run  line  -> the Lean model (SkNet/Model/Path.lean) computes the answer; compared exactly
  spec line  -> the Lean specification (SkNet/Spec/Path.lean: walks of exact length, no visited set)
                is evaluated on the implementation's own output
Theorems (SkNet/Properties/C10.lean) tie model and specification for every graph.
"""
import itertools

import numpy as np
from scipy import sparse

from vlib import graphs
from vlib.cases import Case, Sub, call as _call0, evaluate as _evaluate
from vlib.core import enc_csr, enc_list, enc_opt_list, enc_bool, dec_list, dec_pairs

RULE = ('exhaustive digraphs (with explicit zeros / negative weights sampled) n<=3 (quick: +sampled n=4; thorough: all n=4, '
        'sampled n=5) x source sets x {plain, transpose, bipartite routing}; structured random graphs n<=14; '
        'a case is non-trivial when the graph has at least one edge and at least one node is at distance >= 1; '
        'distinct = distinct (function, graph, arguments)')
ASSUMPTIONS = ['scipy csr construction / astype(bool) / tocoo / T are the substrate (monitored through the outputs)',
               'np.argsort returns some sorting permutation (breadth_first_search is compared up to ties)']


def _enc_pairs(m):
    m = sparse.coo_matrix(m)
    ps = sorted((int(i), int(j)) for i, j, v in zip(m.row, m.col, m.data) if v != 0)
    return ';'.join('%d,%d' % p for p in ps) if ps else '-'


def _call(f):
    return _call0(f)


def _as_src(s):
    """The code accepts an int or an iterable: single-element sets are passed as ints half of the time."""
    return s


def cases_for_graph(ctx, a, rng, source_sets, full=True):
    """All request lines for one square matrix `a` (csr) and the given source sets."""
    from sknetwork.path import get_distances, get_shortest_path, breadth_first_search, get_dag
    n = a.shape[0]
    g = enc_csr(a)
    out = []
    gdesc = {'n': n, 'indptr': a.indptr.tolist(), 'indices': a.indices.tolist(), 'data': a.data.tolist()}
    for s in source_sets:
        src_arg = s[0] if (len(s) == 1 and rng.random() < 0.5) else list(s)
        for tr in ([False, True] if full else [False]):
            def f():
                d = get_distances(a, source=src_arg, transpose=tr)
                return 'ok s ' + enc_list(d)
            impl = _call(f)
            run = 'c10.dist %s %s _ _ %s 0' % (g, enc_list(s), enc_bool(tr))
            spec = None
            if impl.startswith('ok s '):
                spec = 'c10.spec_dist %s %s 0 %s %s' % (g, enc_bool(tr), enc_list(s), impl[5:])
            nontriv = a.nnz > 0 and impl.startswith('ok') and any(x > 0 for x in dec_list(impl[5:]))
            out.append(Case(('dist', g, tuple(s), tr), {'entry': 'get_distances', 'transpose': tr, 'bipartite': False},
                            run, impl, spec, nontriv, {'f': 'get_distances', 'graph': gdesc, 'source': s, 'transpose': tr}))
        # shortest path DAG

        def f2():
            p = get_shortest_path(a, source=src_arg)
            return 'ok %d %s' % (p.shape[0], _enc_pairs(p))
        impl = _call(f2)
        run = 'c10.path %s %s _ _ 0' % (g, enc_list(s))
        spec = None
        if impl.startswith('ok '):
            spec = 'c10.spec_path %s 0 0 %s %s' % (g, enc_list(s), impl.split(' ')[2])
        out.append(Case(('path', g, tuple(s)), {'entry': 'get_shortest_path', 'bipartite': False}, run, impl, spec,
                        a.nnz > 0 and impl.split(' ')[-1] != '-', {'f': 'get_shortest_path', 'graph': gdesc, 'source': s}))
        # get_dag with source
        if full:
            def f3():
                return 'ok ' + _enc_pairs(get_dag(a, source=src_arg))
            impl = _call(f3)
            run = 'c10.dag %s %s %s %s %s _' % (n, enc_list(a.indptr), enc_list(a.indices),
                                               g.split(' ')[4], enc_list(s))
            out.append(Case(('dagsrc', g, tuple(s)), {'entry': 'get_dag', 'mode': 'source'}, run, impl, None,
                            a.nnz > 0, {'f': 'get_dag', 'graph': gdesc, 'source': s}))
    gsq = '%s %s %s %s' % (n, enc_list(a.indptr), enc_list(a.indices), g.split(' ')[4])
    # breadth first search from every node (quick: two nodes)
    nodes = list(range(n)) if full else rng.sample(range(n), min(n, 2))
    for s in nodes:
        def f4():
            return 'ok ' + enc_list(breadth_first_search(a, s))
        impl = _call(f4)
        run = 'c10.bfs %s %d' % (gsq, s)
        spec = 'c10.spec_bfs %s %d %s' % (gsq, s, impl[3:]) if impl.startswith('ok ') else None
        out.append(Case(('bfs', g, s), {'entry': 'breadth_first_search'}, run, impl, spec, a.nnz > 0,
                        {'f': 'breadth_first_search', 'graph': gdesc, 'source': s}, canon='bfs'))
    # get_dag with explicit orders (ties, negatives) and the default order
    orders = [None]
    for _ in range(2 if full else 1):
        orders.append([rng.randint(-1, max(1, n - 1)) for _ in range(n)])
    for o in orders:
        def f5():
            return 'ok ' + _enc_pairs(get_dag(a, order=None if o is None else np.array(o)))
        impl = _call(f5)
        run = 'c10.dag %s _ %s' % (gsq, '_' if o is None else enc_list(o))
        oo = list(range(n)) if o is None else o
        spec = 'c10.spec_dag %s %s %s' % (gsq, enc_list(oo), impl[3:]) if impl.startswith('ok ') else None
        out.append(Case(('dag', g, None if o is None else tuple(o)), {'entry': 'get_dag', 'mode': 'order'}, run, impl,
                        spec, a.nnz > 0, {'f': 'get_dag', 'graph': gdesc, 'order': o}))
    return out


def cases_for_bigraph(ctx, b, rng, full=True):
    """Routing of get_distances / get_shortest_path on a biadjacency matrix (rectangular or forced)."""
    from sknetwork.path import get_distances, get_shortest_path
    nr, nc = b.shape
    g = enc_csr(b)
    gdesc = {'shape': [nr, nc], 'indptr': b.indptr.tolist(), 'indices': b.indices.tolist(), 'data': b.data.tolist()}
    out = []
    combos = []
    rows = [None] + [[i] for i in range(nr)] + ([list(range(nr))] if nr > 1 else [])
    cols = [None] + [[j] for j in range(nc)] + ([list(range(nc))] if nc > 1 else [])
    for sr in rows:
        for sc in cols:
            for use_source in (False, True):
                for tr in (False, True):
                    combos.append((sr, sc, use_source, tr))
    if not full:
        combos = rng.sample(combos, min(len(combos), 6))
    for sr, sc, use_source, tr in combos:
        fb = (nr == nc) or rng.random() < 0.3
        # with transpose the roles of rows and columns swap: indices must fit the transposed shape
        r_lim, c_lim = (nc, nr) if tr else (nr, nc)
        sr2 = None if sr is None else [x for x in sr if x < r_lim] or None
        sc2 = None if sc is None else [x for x in sc if x < c_lim] or None
        kw = {}
        src_tok, sr_tok, sc_tok = '_', '_', '_'
        if use_source and sr2 is not None:
            kw['source'] = sr2
            src_tok = enc_list(sr2)
        elif sr2 is not None:
            kw['source_row'] = sr2
            sr_tok = enc_list(sr2)
        if sc2 is not None:
            kw['source_col'] = sc2
            sc_tok = enc_list(sc2)

        def f():
            d = get_distances(b, transpose=tr, force_bipartite=fb, **kw)
            if isinstance(d, tuple):
                return 'ok p %s %s' % (enc_list(d[0]), enc_list(d[1]))
            return 'ok s ' + enc_list(d)
        impl = _call(f)
        run = 'c10.dist %s %s %s %s %s %s' % (g, src_tok, sr_tok, sc_tok, enc_bool(tr), enc_bool(fb))
        spec = None
        if impl.startswith('ok p '):
            block_src = (sr2 or []) + [r_lim + x for x in (sc2 or [])]
            dd = impl.split(' ')
            both = [x for x in (dd[2], dd[3]) if x != '-']
            spec = 'c10.spec_dist %s %s 1 %s %s' % (g, enc_bool(tr), enc_list(block_src), ','.join(both) if both else '-')
        out.append(Case(('bdist', g, src_tok, sr_tok, sc_tok, tr, fb),
                        {'entry': 'get_distances', 'bipartite': True, 'transpose': tr}, run, impl, spec,
                        b.nnz > 0 and impl.startswith('ok'),
                        {'f': 'get_distances', 'biadjacency': gdesc, 'kw': kw, 'transpose': tr, 'force_bipartite': fb}))
        if not tr:
            def f2():
                p = get_shortest_path(b, force_bipartite=fb, **kw)
                return 'ok %d %s' % (p.shape[0], _enc_pairs(p))
            impl = _call(f2)
            run = 'c10.path %s %s %s %s %s' % (g, src_tok, sr_tok, sc_tok, enc_bool(fb))
            spec = None
            if impl.startswith('ok ') and (fb or nr != nc or sr_tok != '_' or sc_tok != '_'):
                block_src = (sr2 or []) + [nr + x for x in (sc2 or [])]
                spec = 'c10.spec_path %s 0 1 %s %s' % (g, enc_list(block_src), impl.split(' ')[2])
            out.append(Case(('bpath', g, src_tok, sr_tok, sc_tok, fb),
                            {'entry': 'get_shortest_path', 'bipartite': True, 'force_bipartite': fb,
                             'via': 'source' if src_tok != '_' else 'source_row/col'}, run, impl, spec,
                            b.nnz > 0 and impl.startswith('ok'),
                            {'f': 'get_shortest_path', 'biadjacency': gdesc, 'kw': kw, 'force_bipartite': fb}))
    return out


def _weights(rng, k, mode):
    if mode == 'ones':
        return [1] * k
    if mode == 'bool':
        return [True] * k
    return [rng.choice([1, 2, 3, -1, 0, 0.5]) for _ in range(k)]


_DT = [0]


def _mk(n, es, w, m=None):
    """float CSR; when every weight is 1 the dtype cycles through float / bool / int (the shipped toy graphs are
    bool), when the weights are small non-negative integers through float / int / uint8"""
    m = n if m is None else m
    if not es:
        return sparse.csr_matrix((n, m), dtype=float)
    a = sparse.csr_matrix((np.asarray(w, dtype=float), ([e[0] for e in es], [e[1] for e in es])), shape=(n, m))
    _DT[0] += 1
    if np.all(a.data == 1):
        return a.astype([float, bool, int][_DT[0] % 3])
    if np.all(a.data == np.round(a.data)) and a.data.min() >= 0:
        return a.astype([float, int, np.uint8][_DT[0] % 3])
    return a


def _same(c, model, impl, spec_ok):
    if c.canon == 'bfs' and model.startswith('ok') and impl.startswith('ok'):
        # np.argsort may order ties differently: the spec line is the judge of the order
        return sorted(dec_list(model[3:])) == sorted(dec_list(impl[3:])) and spec_ok
    if c.spec is None and model.startswith('err') and impl.startswith('err'):
        return True   # numpy words an error differently; same place, same refusal
    return False


def evaluate(ctx, cases):
    _evaluate(ctx, cases, same=_same)


def build_cases(ctx):
    rng = ctx.rng
    cases = []
    quick = ctx.quick
    # exhaustive digraphs (loops allowed) n <= 3
    for n in (1, 2, 3):
        for es in graphs.all_digraphs(n, loops=(n <= 2)):
            a = _mk(n, es, _weights(rng, len(es), 'ones'))
            cases += cases_for_graph(ctx, a, rng, list(graphs.nonempty_subsets(n)), full=True)
    # n = 4
    g4 = list(graphs.all_digraphs(4))
    if quick:
        g4 = rng.sample(g4, 250)
    for es in g4:
        a = _mk(4, es, _weights(rng, len(es), rng.choice(['ones', 'mixed'])))
        subs = list(graphs.nonempty_subsets(4))
        cases += cases_for_graph(ctx, a, rng, subs if not quick else rng.sample(subs, 3), full=not quick)
    if not quick:
        for _ in range(3000):
            es = graphs.random_edges(rng, 5, rng.choice([0.15, 0.3, 0.5]), directed=True, loops=True)
            a = _mk(5, es, _weights(rng, len(es), 'mixed'))
            cases += cases_for_graph(ctx, a, rng, rng.sample(list(graphs.nonempty_subsets(5)), 3), full=False)
    # structured random graphs
    for name, n, es, w in graphs.suite(rng, 40 if quick else 400, 3, 14):
        a = _mk(n, es, _weights(rng, len(es), rng.choice(['ones', 'mixed'])))
        if rng.random() < 0.5:
            a = graphs.unsorted_copy(a, rng)
        subs = [[rng.randrange(n)], sorted(rng.sample(range(n), min(n, 3)))]
        cases += cases_for_graph(ctx, a, rng, subs, full=False)
        ctx.count('structured:' + name.rstrip('0123456789'))
    # bipartite routing: all 0/1 biadjacency up to 2x3 / 3x2 / 2x2 forced
    shapes = [(1, 2), (2, 1), (2, 2), (2, 3), (3, 2)] + ([] if quick else [(3, 3), (1, 3)])
    for nr, nc in shapes:
        allb = list(graphs.all_bipartite(nr, nc))
        if quick and len(allb) > 24:
            allb = rng.sample(allb, 24)
        for es in allb:
            b = _mk(nr, es, [1] * len(es), m=nc)
            cases += cases_for_bigraph(ctx, b, rng, full=not quick)
    ctx.exhaustive = False
    return cases


def run(ctx):
    cases = build_cases(ctx)
    evaluate(ctx, cases)


# -- failing-input search ---------------------------------------------------------------------
def search(ctx, pending):
    """Re-evaluate the Lean specification on the implementation over the exhaustive small space."""
    rng = ctx.rng
    before = len(ctx.spec_failures)
    cases = []
    for n in (2, 3):
        for es in graphs.all_digraphs(n, loops=True):
            a = _mk(n, es, [1] * len(es))
            cases += cases_for_graph(ctx, a, rng, list(graphs.nonempty_subsets(n)), full=True)
    for nr, nc in [(1, 2), (2, 2), (2, 3)]:
        for es in graphs.all_bipartite(nr, nc):
            cases += cases_for_bigraph(ctx, _mk(nr, es, [1] * len(es), m=nc), rng, full=True)
    sub = Sub(ctx)
    evaluate(sub, cases)
    return sub.found()


def replay(ctx, payload):
    """Re-run one recorded failing input against the current tree."""
    from sknetwork.path import get_distances, get_shortest_path, breadth_first_search, get_dag
    case = payload.get('case') or {}
    rng = ctx.rng
    if 'graph' in case:
        gd = case['graph']
        a = sparse.csr_matrix((np.array(gd['data'], dtype=float), np.array(gd['indices']), np.array(gd['indptr'])),
                              shape=(gd['n'], gd['n']))
        srcs = [case['source']] if isinstance(case.get('source'), list) else list(graphs.nonempty_subsets(gd['n']))
        cs = cases_for_graph(ctx, a, rng, srcs, full=True)
    elif 'biadjacency' in case:
        gd = case['biadjacency']
        b = sparse.csr_matrix((np.array(gd['data'], dtype=float), np.array(gd['indices']), np.array(gd['indptr'])),
                              shape=tuple(gd['shape']))
        cs = cases_for_bigraph(ctx, b, rng, full=True)
    else:
        cs = build_cases(ctx)
    evaluate(ctx, cs)
