"""C15 — linear operators and conversion utilities equal their dense definitions.

Correspondence: every case calls the real code (overlay build of the working tree) and sends
  run  line -> the Lean model of the code (SkNet/Model/LinOp.lean, Model/Convert.lean) computes the answer from the
               same input in exact rational arithmetic; compared after decoding within TOL (exactly equal whenever
               the float64 computation is exact: integer / dyadic data)
  spec line -> the Lean specification (SkNet/Spec/LinOp.lean: `OpExpr.denote`, the dense matrix an operator
               expression denotes, written with elementary matrix algebra only; `TopKSpec`, `clampLabels`, the
               elementary definitions of the utilities) evaluated on the implementation's own output
Theorems (SkNet/Properties/C15.lean) tie the model to the specification for every expression and every size.
"""
import json
import os
from fractions import Fraction

import numpy as np
from scipy import sparse

from vlib.cases import Case, Sub, evaluate as _evaluate
from vlib.core import enc_list, enc_rat, enc_ratlist, enc_bool, dec_list, dec_ratlist, ToolFailure, VERIF

TOL = Fraction(1, 10 ** 9)
TOL_TOK = '1/1000000000'
TOL32 = Fraction(2, 10 ** 5)            # DESIGN 8: float32 paths
TOL32_TOK = '1/50000'
CAST = {'float': 'float64', 'float64': 'float64', 'float32': 'float32', 'int': 'int', 'int64': 'int'}
# every exception class of the implementation is an answer to compare (RecursionError of a broken _adjoint, RuntimeError,
# OverflowError ...), never a failure of the tool; ToolFailure itself is re-raised before every `except ERRORS`
ERRORS = (Exception,)

RULE = ('random operator expressions (depth <= 4 quick, <= 5 thorough) over SparseLR / Regularizer / Normalizer / '
        'Laplacian / CoNeighbor / Polynome leaves on random rectangular sparse matrices (null rows and columns, '
        'negative and explicit-zero entries, duplicate and unsorted CSR storage) of dtype float64, float32, int32, int64, '
        'bool and int8 / uint8 / int16 with values at the bounds of the type, integer entries with a share of dyadic, non-dyadic and negative regularisations; operations: negation, sum, '
        'difference, scaling from the right and from the left (c * op), division by a scalar (op / c), transposition (also of scipy sum / scaled operators), '
        'sparse products, astype to float64 / float32 / int (truncating the stored parts), normalize, format conversions; '
        'every expression is queried with stored probes (float64, int64, bool, float32 vectors and 2-d arrays) through '
        'dot, matvec, @, matmat, a direct 2-d _matvec, .T.dot, .H.dot, rmatvec, rmatmat, shape, class, and summed along '
        'both axes when it is a SparseLR; a share of the expressions is built on the original arguments, which must be '
        'unchanged afterwards; a share of ill-shaped expressions checks the errors (same exception class required); '
        'exhaustive 0/1 matrices of shape <= 2x2 for every leaf class; zero-sized dimensions and 2-d arrays without columns; '
        'the six classes on csc / coo / lil matrices and normalize / get_norms / get_laplacian / get_weights on csc / coo '
        'matrices; magnitudes far from 1: the pseudo-inverse on weights in 1e-12 .. 1e-7 and 1e+7 .. 1e+12 next to zeros and '
        'weights of order 1, every matrix rescaled by factors 1e-12 .. 1e+12 with normalize / get_tfidf / Normalizer(kA, k reg) / '
        'the normalised Laplacian / CoNeighbor judged by the lines of the unscaled matrix (scale invariance, exact over Q), and '
        'matrices with one weakly attached node (weights 2e-9 next to weights of order 1); '
        'not generated: op ** k, products of two operators (op * op, op.dot(op)); '
        'programs (DAGs) over operator OBJECTS of all six classes in which the same object takes part in several operations '
        '(sum, difference, both scalings, negation, transposition, sparse products, astype, conversions) and is used again: '
        'after every statement the operands and the result are re-evaluated against their own denotation ("operand unchanged"); '
        'utilities on the same matrices (format conversions and tf-idf judged by their documented definitions written '
        'entry by entry, D2USpec / B2DSpec / B2USpec / TfidfSpec), label vectors with negatives and gaps, scores with ties; '
        'get_norms, from_membership(matrix), normalize(p=3), the dtype rule of directed2undirected and the class of a result '
        'have run lines only (their models are the definitions); known finding F16i: the in-place model (Op.shared, the '
        'in-place tree of an operand) is compared with the implementation per case and per query, and the finding is matched '
        'only where they agree; '
        'a case is non-trivial when the matrix has a stored entry (labels: a non-negative label; scores: >= 2 scores); '
        'distinct = distinct (entry point, expression / arguments, query, probe)')
ASSUMPTIONS = [
    'scipy sparse algebra (+, unary -, scalar *, .T, .dot, maximum, bmat, diags, astype) and scipy LinearOperator dispatch '
    '(dot on 2-d arrays stacks _matvec of the columns; _SumLinearOperator, _ScaledLinearOperator, '
    '_TransposedLinearOperator, _AdjointLinearOperator of scipy 1.18: their layout is checked at start, another layout is a '
    'tool failure) are the substrate, modelled by their entrywise definitions and monitored through the outputs',
    'np.sqrt (Laplacian(normalized_laplacian=True), get_norms(p=2)) and np.log (get_tfidf) are external: their values '
    'enter the model as data, with the contract sqrt(x)^2 = x, log checked against math.log in Python within TOL',
    'np.argsort / np.argpartition return some sorting / partitioning permutation (top_k compared up to ties through TopKSpec)',
    'dense ndarray adjacency arguments of the operator classes are covered by C01, not here',
    'sparse formats: the utilities are called with csr_matrix arguments as their signatures say (get_neighbors / get_degrees read '
    'indptr / indices: on a csc matrix they return the column structure; get_norms / normalize / get_tfidf raise on a lil matrix); '
    'other formats are exercised where the code converts (the six classes: csc, coo, lil) or only uses scipy algebra '
    '(normalize, get_norms, get_laplacian, get_weights: csc, coo); csr_array and the other array classes are refused by the library',
    'top_k: float scores and k >= 0 (a boolean score vector raises on -scores, a negative k slices from the end)',
    'domain: a Normalizer has at least one column and a Laplacian at least one node (the definitions divide by the number of '
    'columns); matrices whose stored entries are all explicit zeros are not built for CoNeighbor / Polynome (Mat has no '
    'notion of stored entries); float32 rounding is outside the rational model (tolerance 2e-5 where float32 arithmetic can '
    'round: a float32 operand or probe together with a division, a power, a number that is not a small multiple of 1/8 or more '
    'than two products in a row; float64 tolerance elsewhere); astype(int) '
    'is compared with the specification only where the stored parts are integers (cast of the parts, not of the matrix), and is '
    'not generated on a sparse part that stores a position twice with non-integer values (scipy truncates every stored value: '
    '1.5 + 1.5 -> 1 + 1 = 2, the entry 3.0 -> 3; the model has the entries of a matrix, not its storage - counted as outside-domain)',
]


# ----------------------------------------------------------------------------------------------
# encoding
# ----------------------------------------------------------------------------------------------
def frac(x):
    if isinstance(x, Fraction):
        return x
    if isinstance(x, (bool, np.bool_)):
        return Fraction(int(x))
    if isinstance(x, (int, np.integer)):
        return Fraction(int(x))
    return Fraction(float(x))


def enc_vec(v):
    v = np.asarray(v).ravel()
    return enc_ratlist(frac(x) for x in v) if len(v) else '-'


def enc_dense(d):
    """2-d array -> 'nRow nCol rows'"""
    d = np.asarray(d)
    r, c = d.shape
    if r == 0 or c == 0:
        return '%d %d -' % (r, c)
    return '%d %d %s' % (r, c, ';'.join(','.join(enc_rat(frac(x)) for x in row) for row in d))


def enc_mat(a):
    if sparse.issparse(a):
        return enc_dense(a.toarray())
    return enc_dense(a)


def enc_csr_arrays(m):
    return '%d %d %s %s %s' % (m.shape[0], m.shape[1], enc_list(m.indptr), enc_list(m.indices),
                               enc_ratlist(frac(x) for x in m.data) if len(m.data) else '-')


def mat_desc(a):
    fmt = a.format if sparse.issparse(a) else 'csr'
    a = sparse.csr_matrix(a) if not sparse.issparse(a) else a.tocsr()
    d = {'shape': list(a.shape), 'indptr': a.indptr.tolist(), 'indices': a.indices.tolist(),
         'data': [float(x) for x in a.data], 'dtype': str(a.dtype)}
    if fmt != 'csr':
        d['format'] = fmt                     # the argument was a csc / coo / lil matrix
    return d


def mat_from_desc(d):
    a = sparse.csr_matrix((np.array(d['data'], dtype=d.get('dtype', 'float64')), np.array(d['indices'], dtype=np.int32),
                           np.array(d['indptr'], dtype=np.int32)), shape=tuple(d['shape']))
    return a.asformat(d['format']) if d.get('format', 'csr') != 'csr' else a


def dec_mat(tokens):
    """['r','c','rows'] -> list of rows of Fractions"""
    r, c, rows = int(tokens[0]), int(tokens[1]), tokens[2]
    if rows == '-':
        return r, c, [[] for _ in range(r)]
    return r, c, [[Fraction(x) for x in row.split(',')] for row in rows.split(';')]


# ----------------------------------------------------------------------------------------------
# operator expressions (python side): nested tuples
# ----------------------------------------------------------------------------------------------
_COPY_INPUTS = True


def _arg(m):
    return m.copy() if _COPY_INPUTS else m


def build(e):
    """Evaluate an expression with the real code; leaves are rebuilt every time (some operations work in place)."""
    from sknetwork.linalg import SparseLR, Regularizer, Normalizer, Laplacian, CoNeighbor, Polynome, normalize
    from sknetwork.utils.format import directed2undirected, bipartite2directed, bipartite2undirected
    op = e[0]
    if op == 'slr':
        tuples = [(np.array(x), np.array(y)) for x, y in e[2]]          # the dtypes of the generator are kept
        if len(tuples) == 1 and e[3]:
            return SparseLR(_arg(e[1]), tuples[0])          # a single tuple instead of a list
        return SparseLR(_arg(e[1]), tuples)
    if op == 'reg':
        return Regularizer(_arg(e[1]), e[2])
    if op == 'nrm':
        if len(e) > 3 and e[3] and e[1].shape[0] == 1:
            return Normalizer(e[1].toarray().ravel(), e[2])      # 1-d adjacency: reshaped to one row by __init__
        return Normalizer(_arg(e[1]), e[2])
    if op == 'lap':
        return Laplacian(_arg(e[1]), e[2], e[3])
    if op == 'con':
        return CoNeighbor(_arg(e[1]), e[2])
    if op == 'pol':
        return Polynome(_arg(e[1]), np.array(e[2], dtype=float))
    if op == 'neg':
        return -build(e[1])
    if op == 'add':
        return build(e[1]) + build(e[2])
    if op == 'sub':
        return build(e[1]) - build(e[2])
    if op == 'addcsr':
        return build(e[1]) + _arg(e[2])
    if op == 'subcsr':
        return build(e[1]) - _arg(e[2])
    if op == 'mul':
        return build(e[1]) * e[2]
    if op == 'rmul':
        return e[1] * build(e[2])
    if op == 'div':
        return build(e[1]) / e[2]                 # scipy: _ScaledLinearOperator(self, 1.0 / c) for every class
    if op == 'T':
        return build(e[1]).T
    if op == 'ldot':
        return build(e[2]).left_sparse_dot(_arg(e[1]))
    if op == 'rdot':
        return build(e[1]).right_sparse_dot(_arg(e[2]))
    if op == 'astype':
        return build(e[1]).astype(e[2])
    if op == 'd2u':
        return directed2undirected(build(e[1]))
    if op == 'b2d':
        return bipartite2directed(build(e[1]))
    if op == 'b2u':
        return bipartite2undirected(build(e[1]))
    if op == 'normalize':
        return normalize(build(e[1]))
    raise ToolFailure('unknown expression node %r' % (op,))


def lap_sqrt(a, reg):
    w = a.dot(np.ones(a.shape[1])) if a.shape[0] == a.shape[1] else np.zeros(0)
    with np.errstate(invalid='ignore'):
        return np.sqrt(w + reg)


def enc_expr(e):
    op = e[0]
    if op == 'slr':
        toks = ['slr', enc_mat(e[1]), str(len(e[2]))]
        for x, y in e[2]:
            toks += [enc_vec(x), enc_vec(y)]
        return ' '.join(toks)
    if op == 'reg':
        return 'reg %s %s' % (enc_mat(e[1]), enc_rat(frac(e[2])))
    if op == 'nrm':
        return 'nrm %s %s' % (enc_mat(e[1]), enc_rat(frac(e[2])))
    if op == 'lap':
        sq = lap_sqrt(e[1], e[2]) if e[3] else np.zeros(0)
        return 'lap %s %s %s %s' % (enc_mat(e[1]), enc_rat(frac(e[2])), enc_bool(e[3]), enc_vec(sq))
    if op == 'con':
        return 'con %s %s' % (enc_mat(e[1]), enc_bool(e[2]))
    if op == 'pol':
        return 'pol %s %s' % (enc_mat(e[1]), enc_vec(e[2]))
    if op in ('neg', 'T', 'd2u', 'b2d', 'b2u', 'normalize'):
        return '%s %s' % (op, enc_expr(e[1]))
    if op == 'astype':
        return 'astype %s %s' % (CAST[e[2]], enc_expr(e[1]))
    if op == 'rmul':
        return 'rmul %s %s' % (enc_rat(frac(e[1])), enc_expr(e[2]))
    if op == 'div':
        return 'rmul %s %s' % (enc_rat(frac(1.0 / e[2])), enc_expr(e[1]))      # the float 1.0 / c, as the code computes it
    if op in ('add', 'sub'):
        return '%s %s %s' % (op, enc_expr(e[1]), enc_expr(e[2]))
    if op in ('addcsr', 'subcsr'):
        return '%s %s %s' % (op, enc_expr(e[1]), enc_mat(e[2]))
    if op == 'mul':
        return 'mul %s %s' % (enc_expr(e[1]), enc_rat(frac(e[2])))
    if op == 'ldot':
        return 'ldot %s %s' % (enc_mat(e[1]), enc_expr(e[2]))
    if op == 'rdot':
        return 'rdot %s %s' % (enc_expr(e[1]), enc_mat(e[2]))
    raise ToolFailure('unknown expression node %r' % (op,))


def expr_desc(e):
    out = [e[0]]
    for x in e[1:]:
        if isinstance(x, tuple) and x and isinstance(x[0], str):
            out.append(expr_desc(x))
        elif sparse.issparse(x):
            out.append({'mat': mat_desc(x)})
        elif isinstance(x, list) and x and isinstance(x[0], tuple):
            out.append({'tuples': [[[float(a) for a in t[0]], [float(a) for a in t[1]],
                                    str(np.asarray(t[0]).dtype), str(np.asarray(t[1]).dtype)] for t in x]})
        elif isinstance(x, (list, np.ndarray)):
            out.append({'list': [float(a) for a in x]})
        elif isinstance(x, (bool, np.bool_)):
            out.append({'bool': bool(x)})
        elif isinstance(x, str):
            out.append({'str': x})
        else:
            out.append({'num': float(x)})
    return out


def expr_from_desc(d):
    out = [d[0]]
    for x in d[1:]:
        if isinstance(x, list):
            out.append(expr_from_desc(x))
        elif 'mat' in x:
            out.append(mat_from_desc(x['mat']))
        elif 'tuples' in x:
            out.append([(np.array(t[0], dtype=(t[2] if len(t) > 2 else float)),
                         np.array(t[1], dtype=(t[3] if len(t) > 3 else float))) for t in x['tuples']])
        elif 'list' in x:
            out.append(list(x['list']))
        elif 'bool' in x:
            out.append(x['bool'])
        elif 'str' in x:
            out.append(x['str'])
        else:
            out.append(x['num'])
    return tuple(out)


def sub_exprs(e):
    return [x for x in e[1:] if isinstance(x, tuple) and x and isinstance(x[0], str)]


def uses_float32(e):
    """float32 anywhere in the expression (a matrix, a low-rank vector, a cast): the float32 tolerance applies."""
    for x in e[1:]:
        if sparse.issparse(x) and x.dtype == np.float32:
            return True
        if isinstance(x, list) and x and isinstance(x[0], tuple):
            if any(np.asarray(t[0]).dtype == np.float32 or np.asarray(t[1]).dtype == np.float32 for t in x):
                return True
    if e[0] == 'astype' and e[2] == 'float32':
        return True
    return any(uses_float32(x) for x in sub_exprs(e))


def _small_dyadic(v):
    v = np.asarray(v, dtype=float).ravel()
    return bool(np.all(v * 8 == np.round(v * 8)) and np.all(np.abs(v) <= 64)) if len(v) else True


def float32_exact(e, depth=0):
    """True when float32 arithmetic on this expression is exact: every number in it is a multiple of 1/8 of size <= 64,
    no normalising or regularised class / operation (divisions), no Polynome (powers), no division, at most two products
    in a row."""
    op = e[0]
    if op in ('nrm', 'pol', 'normalize', 'div') or (op == 'con' and e[2]) or (op == 'lap' and (e[3] or e[2] != 0)) \
            or (op == 'reg' and e[2] != 0):
        return False                        # divisions: by the degrees, by n_col (regularisation, mean of the vector)
    if op in ('mul', 'rmul', 'ldot', 'rdot', 'con'):
        depth += 1
        if depth > 2:
            return False
    for x in e[1:]:
        if isinstance(x, tuple) and x and isinstance(x[0], str):
            if not float32_exact(x, depth):
                return False
        elif sparse.issparse(x):
            if not _small_dyadic(x.tocsr().data):
                return False
        elif isinstance(x, list) and x and isinstance(x[0], tuple):
            if not all(_small_dyadic(t[0]) and _small_dyadic(t[1]) for t in x):
                return False
        elif isinstance(x, (int, float, np.integer, np.floating)) and not isinstance(x, (bool, np.bool_)):
            if not _small_dyadic([x]):
                return False
    return True


def tolerance_for(tree, x=None):
    """(tol, token): the float32 tolerance only where float32 arithmetic can round (DESIGN 8), the float64 one elsewhere."""
    f32 = uses_float32(tree) or (x is not None and x.dtype == np.float32)
    if f32 and not (float32_exact(tree) and (x is None or _small_dyadic(x))):
        return TOL32, TOL32_TOK
    return TOL, TOL_TOK


def int_casts_exact(e):
    """every astype(int) node was marked exact by the generator (the stored parts of its operand are integers):
    only then does the cast keep the denoted matrix (OpExpr.IntCastsExact) and the spec line applies."""
    if e[0] == 'astype' and CAST[e[2]] == 'int' and not (len(e) > 3 and e[3]):
        return False
    return all(int_casts_exact(x) for x in sub_exprs(e))


def stored_parts(o):
    """the arrays an operator's astype casts one by one"""
    k = obj_kind(o)
    if k == 'slr':
        return [o.sparse_mat.data] + [a for t in o.low_rank_tuples for a in t]
    if k == 'lap':
        return [o.laplacian.data]
    if k == 'con':
        return [o.backward.data, o.forward.data]
    return []


def sparse_parts(o):
    """the sparse matrices among the stored parts"""
    k = obj_kind(o)
    return [o.sparse_mat] if k == 'slr' else [o.laplacian] if k == 'lap' else [o.backward, o.forward] if k == 'con' else []


def has_duplicate_entries(m):
    m = m.tocsr()
    if m.has_canonical_format:
        return False
    c = m.copy()
    c.sum_duplicates()
    return c.nnz != m.nnz


def int_cast_status(o):
    """'exact' (all stored parts are integers), 'unsafe' (a part within 1e-6 of an integer without being one: the
    truncation is a discrete decision on a rounded number, DESIGN 8), 'duplicates' (non-integer stored values in a sparse
    part that stores a position twice: scipy truncates every STORED value, 1.5 + 1.5 -> 1 + 1 = 2, while the matrix entry 3.0
    truncates to 3; the model has the entries of the matrix, not its storage: outside the domain, ASSUMPTIONS) or 'inexact'"""
    parts = [np.asarray(a, dtype=float).ravel() for a in stored_parts(o)]
    v = np.concatenate(parts) if parts else np.zeros(0)
    d = np.abs(v - np.round(v))
    if np.all(d == 0):
        return 'exact'
    if any(has_duplicate_entries(m) for m in sparse_parts(o)):
        return 'duplicates'
    if np.any((d > 0) & (d < 1e-6)):
        return 'unsafe'
    return 'inexact'


def leaf_kinds(e):
    if e[0] in ('slr', 'reg', 'nrm', 'lap', 'con', 'pol'):
        return {e[0]}
    s = set()
    for x in e[1:]:
        if isinstance(x, tuple) and x and isinstance(x[0], str):
            s |= leaf_kinds(x)
    return s


def ops_of(e):
    if e[0] in ('slr', 'reg', 'nrm', 'lap', 'con', 'pol'):
        return set()
    s = {e[0]}
    for x in e[1:]:
        if isinstance(x, tuple) and x and isinstance(x[0], str):
            s |= ops_of(x)
    return s


def obj_kind(o):
    from sknetwork.linalg import SparseLR, Normalizer, Laplacian, CoNeighbor, Polynome
    if isinstance(o, SparseLR):
        return 'slr'
    if isinstance(o, Polynome):
        return 'pol'
    if isinstance(o, CoNeighbor):
        return 'con'
    if isinstance(o, Normalizer):
        return 'nrm'
    if isinstance(o, Laplacian):
        return 'lap'
    # scipy wraps a Normalizer in _TransposedLinearOperator for every `.T`: the parity of the wrappers decides
    depth, a = 0, o
    while type(a).__name__ == '_TransposedLinearOperator':
        depth, a = depth + 1, a.A
    if depth and isinstance(a, Normalizer):
        return 'nrmT' if depth % 2 else 'nrm'
    return 'gen'


ENTRY = {'slr': 'SparseLR', 'reg': 'Regularizer', 'nrm': 'Normalizer', 'lap': 'Laplacian', 'con': 'CoNeighbor',
         'pol': 'Polynome'}


# ----------------------------------------------------------------------------------------------
# random inputs
# ----------------------------------------------------------------------------------------------
MATRIX_DTYPES = ['float64', 'float64', 'float64', 'float64', 'bool', 'int32', 'int64', 'float32', 'int8', 'uint8', 'int16']
# narrow integer types: values at the bounds of the type (|x|, x**2, sums of a row leave the type)
BOUNDS = {'int8': [100, 127, -128, 1, -1, 64], 'uint8': [100, 200, 255, 1, 128], 'int16': [32767, -32768, 1, 300, -200]}


def rand_matrix(rng, r, c, mode=None, density=None, dtype=None):
    """Random r x c csr matrix; modes: 'nonneg' (0..3), 'signed' (-2..3), 'binary', 'messy' (explicit zeros,
    unsorted indices), 'dups' (duplicate entries), 'dyadic' (halves); dtype: float64 / float32 / int8 / uint8 / int16 / int32 / int64 / bool
    (integer-valued modes only; no bool with duplicate entries: scipy adds them up as booleans, a float cast as numbers)."""
    mode = mode or rng.choice(['nonneg', 'nonneg', 'signed', 'binary', 'messy', 'dups', 'dyadic'])
    dtype = dtype or rng.choice(MATRIX_DTYPES)
    if mode == 'dyadic' and dtype in ('bool', 'int32', 'int64'):
        dtype = 'float32' if dtype == 'int32' else 'float64'
    if mode == 'dups' and dtype == 'bool':
        dtype = 'int64'
    if dtype in BOUNDS:
        if mode == 'dyadic':
            dtype = 'float64'
        elif mode == 'dups':
            mode = 'messy'                  # scipy adds duplicates up inside the narrow type: outside "the matrix"
        elif mode == 'signed' and dtype == 'uint8':
            mode = 'nonneg'
    bounds = BOUNDS.get(dtype) if rng.random() < 0.6 else None
    if bounds is not None and mode in ('nonneg', 'messy'):
        bounds = [v for v in bounds if v > 0]
    density = density if density is not None else rng.choice([0.25, 0.5, 0.8])
    null_rows = {i for i in range(r) if rng.random() < 0.2}
    null_cols = {j for j in range(c) if rng.random() < 0.15}
    rows, cols, data = [], [], []
    for i in range(r):
        for j in range(c):
            if i in null_rows or j in null_cols or rng.random() >= density:
                continue
            if bounds is not None and mode != 'binary':
                v = rng.choice(bounds)
            elif mode == 'binary':
                v = 1
            elif mode == 'signed':
                v = rng.choice([-2, -1, 1, 2, 3])
            elif mode == 'dyadic':
                v = rng.choice([0.5, 1, 1.5, 2, 0.25])
            else:
                v = rng.choice([1, 1, 2, 3])
            rows.append(i)
            cols.append(j)
            data.append(float(v))
    if mode not in ('messy', 'dups'):
        a = sparse.csr_matrix((data, (rows, cols)), shape=(r, c), dtype=float)
        a.sort_indices()
        return _as_dtype(a, dtype)
    # messy: build the CSR arrays by hand
    per_row = [[] for _ in range(r)]
    for i, j, v in zip(rows, cols, data):
        per_row[i].append((j, v))
        if mode == 'dups' and rng.random() < 0.3:
            per_row[i].append((j, float(rng.choice([1, 2]))))       # duplicate entry (adds up)
        if rng.random() < 0.15 and c > 0:
            per_row[i].append((rng.randrange(c), 0.0))                 # explicit zero
    indptr, indices, vals = [0], [], []
    for i in range(r):
        rng.shuffle(per_row[i])
        for j, v in per_row[i]:
            indices.append(j)
            vals.append(v)
        indptr.append(len(indices))
    a = sparse.csr_matrix((np.array(vals, dtype=float), np.array(indices, dtype=np.int32), np.array(indptr, dtype=np.int32)),
                          shape=(r, c))
    return _as_dtype(a, dtype)


def _as_dtype(a, dtype):
    """Cast keeping the CSR arrays as they are (explicit zeros, order, duplicates)."""
    if dtype == 'float64':
        return a
    b = sparse.csr_matrix((a.data.astype(dtype), a.indices.copy(), a.indptr.copy()), shape=a.shape)
    return b


def rand_vec(rng, n, mode='int', dtype=None):
    """dtype None = float64; 'any' draws float64 / int64 / float32 (integer-valued modes)"""
    if dtype == 'any':
        dtype = rng.choice(['float64', 'float64', 'float64', 'int64', 'float32'])
    if mode == 'int':
        v = np.array([rng.choice([-2, -1, 0, 1, 2, 3]) for _ in range(n)], dtype=float)
    elif mode == 'ones':
        v = np.ones(n)
    else:
        v = np.array([rng.choice([-1.5, -0.5, 0, 0.5, 1, 2.25]) for _ in range(n)], dtype=float)
        if dtype == 'int64':
            dtype = 'float64'
    return v.astype(dtype) if dtype else v


PROBE_DTYPES = ['float64', 'float64', 'float64', 'float64', 'int64', 'int64', 'bool', 'float32']


def rand_probe(rng, n, k=None, dtype=None):
    """A probe vector (k None) or n x k array with a dtype drawn from float64 / int64 / bool / float32."""
    dtype = dtype or rng.choice(PROBE_DTYPES)
    shape = (n,) if k is None else (n, k)
    size = n if k is None else n * k
    if dtype == 'bool':
        vals = [rng.choice([0, 1, 1]) for _ in range(size)]
    elif dtype == 'int64':
        vals = [rng.choice([-2, -1, 0, 1, 2, 3]) for _ in range(size)]
    else:
        vals = [rng.choice([-2, -1, 0, 1, 2, 3, 0.5, -1.5]) for _ in range(size)]
    return np.array(vals, dtype=float).reshape(shape).astype(dtype)


def probe_desc(x):
    x = np.asarray(x)
    return {'values': x.astype(float).tolist(), 'dtype': str(x.dtype), 'shape': list(x.shape)}


def probe_from_desc(d):
    x = np.array(d['values'], dtype=float).astype(d['dtype'])
    return x.reshape(tuple(d['shape'])) if 'shape' in d else x


def rand_dim(rng, lo=1, hi=5):
    return rng.randint(lo, hi)


REGS = [0, 0, 1, 2, 0.5, 0.25, 3, 0.1, -1, -0.5]


def rand_leaf(rng, kind=None, shape=None, bad=False):
    """A random leaf expression; `shape` forces the operator's shape where the class allows it."""
    kind = kind or rng.choice(['slr', 'slr', 'reg', 'nrm', 'lap', 'con', 'pol'])
    if kind in ('lap', 'pol', 'con'):
        n = shape[0] if shape else rand_dim(rng)
        if shape and shape[0] != shape[1]:
            kind = 'slr'
    if kind == 'slr':
        r, c = shape or (rand_dim(rng), rand_dim(rng))
        a = rand_matrix(rng, r, c)
        k = rng.choice([0, 1, 1, 2, 3])
        tuples = []
        for _ in range(k):
            x = rand_vec(rng, r, rng.choice(['int', 'int', 'half']), dtype='any')
            y = rand_vec(rng, c, rng.choice(['int', 'ones']), dtype='any')
            tuples.append((x, y))
        if bad and tuples:
            x, y = tuples[-1]
            tuples[-1] = (np.append(x, 1.0), y) if rng.random() < 0.5 else (x, y[:-1])
        return ('slr', a, tuples, rng.random() < 0.5)
    if kind == 'reg':
        r, c = shape or (rand_dim(rng), rand_dim(rng))
        return ('reg', rand_matrix(rng, r, c), rng.choice(REGS))
    if kind == 'nrm':
        r, c = shape or (rand_dim(rng), rand_dim(rng))
        return ('nrm', rand_matrix(rng, r, c), rng.choice(REGS), r == 1 and rng.random() < 0.5)
    if kind == 'lap':
        nz = rng.random() < 0.5
        if bad:
            a = rand_matrix(rng, n, n + 1)
            return ('lap', a, rng.choice(REGS), False)
        reg = rng.choice(REGS)
        a = rand_matrix(rng, n, n)
        if nz and not np.all(a.dot(np.ones(n)) + reg >= 0):
            # np.sqrt of a negative regularised degree is NaN: outside the model (signed matrices are kept when fine)
            a = rand_matrix(rng, n, n, mode=rng.choice(['nonneg', 'binary', 'messy']))
            reg = rng.choice([r for r in REGS if r >= 0])
        return ('lap', a, reg, nz)
    if kind == 'con':
        c = rand_dim(rng)
        return ('con', _no_hidden_zero(rand_matrix(rng, n, c)), rng.random() < 0.6)
    if kind == 'pol':
        a = _no_hidden_zero(rand_matrix(rng, n, n + 1 if bad and rng.random() < 0.5 else n))
        k = 0 if (bad and a.shape[0] == a.shape[1]) else rng.choice([1, 2, 3, 3, 4, 5])
        return ('pol', a, [float(rng.choice([-2, -1, 0, 1, 2, 3, 0.5])) for _ in range(k)])
    raise ToolFailure(kind)


def _no_hidden_zero(a):
    """check_format looks at nnz: a matrix whose only stored entries are zeros is not sent to the model."""
    if a.nnz > 0 and not a.toarray().any():
        a = a.copy()
        a.eliminate_zeros()
    return a


SCALARS = [2, -1, 3, 0.5, 0, -2, 1.5]
TIE_SKIPPED = [0]
OUTSIDE = [0]              # astype(int) of non-integer duplicate stored entries (outside the domain, counted)


def has_tiny_row_sum(o):
    """A row sum in (0, 1e-6 * scale): zero exactly or not, float64 cannot tell, and `normalize` decides on `== 0`."""
    try:
        sums = np.asarray(o.dot(np.ones(o.shape[1])), dtype=float)
    except ToolFailure:
        raise
    except ERRORS:
        return False                        # the product itself is refused: the cases will report it
    scale = 1 + float(np.max(np.abs(sums))) if len(sums) else 1.0
    return bool(np.any((np.abs(sums) > 0) & (np.abs(sums) < 1e-6 * scale)))


def tie_skip_selftest(ctx):
    """The two tie-skips are rare in the random streams: one fixed operand per skip shows that the test fires (and one that
    it does not fire on a harmless operand)."""
    from sknetwork.linalg import SparseLR
    tiny = SparseLR(sparse.csr_matrix(np.array([[0.1, 0.2, -0.3], [1.0, 0.0, 0.0]])), [])
    plain = SparseLR(sparse.csr_matrix(np.array([[1.0, 2.0, -3.0], [1.0, 0.0, 0.0]])), [])
    near = SparseLR(sparse.csr_matrix(np.array([[3 * 0.1 * 10, 1.0]])), [])           # 3.0000000000000004
    if not has_tiny_row_sum(tiny) or has_tiny_row_sum(plain):
        raise ToolFailure('tie-skip self-test: the tiny-row-sum test does not separate [0.1, 0.2, -0.3] from [1, 2, -3]')
    if int_cast_status(near) != 'unsafe' or int_cast_status(plain) != 'exact':
        raise ToolFailure('tie-skip self-test: int_cast_status(%r) = %s' % (near.sparse_mat.data.tolist(), int_cast_status(near)))
    dup = SparseLR(sparse.csr_matrix((np.array([1.5, 1.5]), np.array([1, 1]), np.array([0, 2, 2])), shape=(2, 2)), [])
    if int_cast_status(dup) != 'duplicates' or int_cast_status(dup * 2) != 'exact':
        raise ToolFailure('self-test: int_cast_status of a duplicate stored entry 1.5 + 1.5 = %s' % int_cast_status(dup))
    ctx.count('tie-skip:self-test', 3)


def astype_stmt(rng, o):
    """(dtype, exact) for a type change of the operator `o`, or None when the integer cast would be a discrete decision
    on a rounded number (a stored part within 1e-6 of an integer without being one: tie-skipped)."""
    dt = rng.choice(['float', 'float64', 'float32', 'int', 'int', 'int64'])
    if CAST[dt] != 'int':
        return (dt, True)
    status = int_cast_status(o)
    if status == 'unsafe':
        TIE_SKIPPED[0] += 1
        return None
    if status == 'duplicates':
        OUTSIDE[0] += 1
        return None
    return (dt, status == 'exact')


def try_build(e):
    try:
        o = build(e)
        return o, None
    except ToolFailure:
        raise
    except ERRORS as ex:
        return None, type(ex).__name__


def grow(rng, e, depth, bad_rate=0.06):
    """Apply `depth` random operations to the expression `e` (each must be applicable to what Python returns)."""
    for _ in range(depth):
        o, err = try_build(e)
        if err is not None:
            return e
        kind = obj_kind(o)
        shape = tuple(o.shape)
        bad = rng.random() < bad_rate
        if kind == 'slr':
            ops = ['neg', 'add', 'sub', 'addcsr', 'subcsr', 'mul', 'rmul', 'div', 'T', 'ldot', 'rdot', 'astype', 'astype',
                   'normalize', 'add', 'sub', 'T', 'ldot', 'rdot']
            if shape[0] + shape[1] <= 10:
                ops += ['b2d', 'b2u']            # the block forms double the size: at most twice in a row
            if shape[0] == shape[1]:
                ops += ['d2u', 'd2u']
            if bad:
                ops += ['addgen']
        elif kind == 'pol':
            ops = ['neg', 'mul', 'rmul', 'div', 'T', 'T', 'gadd', 'gsub']
        elif kind == 'con':
            ops = ['neg', 'mul', 'rmul', 'div', 'T', 'T', 'ldot', 'rdot', 'astype', 'astype', 'normalize', 'gadd', 'gsub']
        elif kind in ('nrm', 'nrmT'):
            ops = ['T', 'T', 'neg', 'mul', 'rmul', 'div', 'gadd', 'gsub']
        elif kind == 'lap':
            ops = ['T', 'T', 'astype', 'astype', 'neg', 'mul', 'rmul', 'div', 'gadd', 'gsub']
        else:
            ops = ['neg', 'mul', 'rmul', 'div', 'gadd', 'gsub', 'T', 'T']     # scipy's combinators: transposed as well
        op = rng.choice(ops)
        if op == 'normalize':
            # DESIGN 8, discrete decisions on numbers: the pseudo-inverse tests `weight == 0`; a row sum that is zero
            # exactly but not in float64 (cancellation of non-dyadic terms) would be inverted by the code: such
            # operands are not normalised (counted as tie-skipped)
            if has_tiny_row_sum(o):
                TIE_SKIPPED[0] += 1
                continue
        if op in ('neg', 'T', 'd2u', 'b2d', 'b2u', 'normalize'):
            e = (op, e)
        elif op == 'astype':
            st = astype_stmt(rng, o)
            if st is None:
                continue
            e = ('astype', e) + st
        elif op == 'mul':
            e = ('mul', e, rng.choice(SCALARS))
        elif op == 'rmul':
            e = ('rmul', rng.choice(SCALARS), e)
        elif op == 'div':
            e = ('div', e, rng.choice([2, -4, 0.5, 3, 8]))
        elif op in ('add', 'sub'):
            shp = (shape[0] + 1, shape[1]) if bad else shape
            other = grow(rng, rand_leaf(rng, rng.choice(['slr', 'slr', 'reg']), shp), rng.randint(0, 1), 0.0)
            e = (op, e, other)
        elif op == 'addgen':
            e = ('add', e, rand_leaf(rng, 'nrm', shape))
        elif op in ('gadd', 'gsub'):
            shp = (shape[0], shape[1] + 1) if bad else shape
            other = grow(rng, rand_leaf(rng, None, shp), rng.randint(0, 1), 0.0)
            e = ('add' if op == 'gadd' else 'sub', e, other)
        elif op in ('addcsr', 'subcsr'):
            shp = (shape[0], shape[1] + 1) if bad else shape
            m = rand_matrix(rng, *shp)
            if op == 'subcsr' and m.dtype == bool:
                m = m.astype(np.int64)            # scipy (like numpy) refuses to negate a boolean matrix
            e = (op, e, m)
        elif op == 'ldot':
            k = rand_dim(rng, 1, 4) if rng.random() < 0.5 else shape[0]     # square half of the time
            inner = shape[0] + (1 if bad else 0)
            e = ('ldot', rand_matrix(rng, k, inner, density=0.6), e)
        elif op == 'rdot':
            k = rand_dim(rng, 1, 4) if rng.random() < 0.5 else shape[1]
            inner = shape[1] + (1 if bad else 0)
            e = ('rdot', e, rand_matrix(rng, inner, k, density=0.6))
    return e


# ----------------------------------------------------------------------------------------------
# cases for one expression
# ----------------------------------------------------------------------------------------------
def _ok_vec(y):
    y = np.asarray(y)
    if y.ndim != 1:
        y = y.ravel() if 1 in y.shape or y.size == 0 else y
    return 'ok ' + enc_vec(y)


def _ok_mat(y):
    y = np.asarray(y)
    if y.ndim == 1:
        y = y.reshape(-1, 1)
    return 'ok ' + enc_dense(y)


def _call(f):
    try:
        return f()
    except ToolFailure:
        raise
    except ERRORS as ex:
        return 'err ' + type(ex).__name__


def expr_sig(e, query):
    kinds = sorted(leaf_kinds(e))
    return {'entry': '+'.join(ENTRY[k] for k in kinds), 'ops': '+'.join(sorted(ops_of(e))) or 'none', 'query': query}


def nontrivial_expr(e):
    if e[0] in ('slr', 'reg', 'nrm', 'lap', 'con', 'pol'):
        return e[1].nnz > 0
    return any(nontrivial_expr(x) for x in e[1:] if isinstance(x, tuple) and x and isinstance(x[0], str))


VEC_QUERIES = {'dot': 'col', 'matvec': 'col', 'matmul': 'col', 'dot-wrong-length': 'col+1',
               'T.dot': 'row', 'H.dot': 'row', 'rmatvec': 'row'}
MAT_QUERIES = {'dotmat': 'col', 'matmat': 'col', 'matvec2d': 'col', 'T.dotmat': 'row', 'rmatmat': 'row'}
SUM_QUERIES = {'sum0': 0, 'sum1': 1, 'sum': None}
TRANSPOSED = {'T.dot', 'H.dot', 'rmatvec', 'T.dotmat', 'rmatmat'}


def new_query(rng, q, r, c):
    """A query with its probe (stored in the replay file: the replay re-runs exactly this query)."""
    qs = {'query': q}
    if q in VEC_QUERIES:
        n = {'col': c, 'col+1': c + 1, 'row': r}[VEC_QUERIES[q]]
        qs['x'] = probe_desc(rand_probe(rng, n))
    elif q in MAT_QUERIES:
        n = c if MAT_QUERIES[q] == 'col' else r
        qs['x'] = probe_desc(rand_probe(rng, n, rng.randint(1, 3)))
    return qs


def apply_query(o, qs):
    """Call the real object; returns the implementation's answer in protocol form."""
    q = qs['query']
    x = probe_from_desc(qs['x']) if 'x' in qs else None
    if q in ('dot', 'dot-wrong-length'):
        return _ok_vec(o.dot(x))
    if q == 'matvec':
        return _ok_vec(o.matvec(x))
    if q == 'matmul':
        return _ok_vec(o @ x)
    if q == 'T.dot':
        return _ok_vec(o.T.dot(x))
    if q == 'H.dot':
        return _ok_vec(o.H.dot(x))
    if q == 'rmatvec':
        return _ok_vec(o.rmatvec(x))
    if q == 'dotmat':
        return _ok_mat(o.dot(x))
    if q == 'matmat':
        return _ok_mat(o.matmat(x))
    if q == 'matvec2d':
        return _ok_mat(o._matvec(x))
    if q == 'T.dotmat':
        return _ok_mat(o.T.dot(x))
    if q == 'rmatmat':
        return _ok_mat(o.rmatmat(x))
    if q in SUM_QUERIES:
        return 'ok ' + enc_vec(np.atleast_1d(o.sum(axis=SUM_QUERIES[q])))
    if q == 'shape':
        return 'ok %d %d' % tuple(o.shape)
    if q == 'type':
        return 'ok %s %d %d' % ((obj_kind(o),) + tuple(o.shape))
    if q == 'd2u_unweighted':
        from sknetwork.utils.format import directed2undirected
        directed2undirected(o, weighted=False)
        return 'ok'
    raise ToolFailure('unknown query %r' % (q,))


def query_run_line(tree, qs):
    """The run line (model of the code) of query `qs` on the operator the expression `tree` denotes."""
    q = qs['query']
    et = enc_expr(tree)
    tt = ('T ' + et) if q in TRANSPOSED else et
    x = probe_from_desc(qs['x']) if 'x' in qs else None
    if q in VEC_QUERIES:
        return ('c15.hdot %s %s' % (et, enc_vec(x))) if q == 'H.dot' else ('c15.dot %s %s' % (tt, enc_vec(x)))
    if q in MAT_QUERIES:
        return '%s %s %s' % ('c15.mv2d' if q == 'matvec2d' else 'c15.dotmat', tt, enc_dense(x))
    if q in SUM_QUERIES:
        return 'c15.sum %s %s' % (et, {'sum0': '0', 'sum1': '1', 'sum': '2'}[q])
    if q in ('shape', 'construct'):
        return 'c15.shape ' + et
    if q == 'type':
        return 'c15.type ' + et
    if q == 'd2u_unweighted':
        return 'c15.d2u_unweighted ' + et
    raise ToolFailure('unknown query %r' % (q,))


def make_case(tree, qs, sig, desc, nontriv, o=None, build_error=None):
    """One Case: the query `qs` on the object `o` (built from `tree` when None) against the model / specification of `tree`."""
    q = qs['query']
    et = enc_expr(tree)
    x = probe_from_desc(qs['x']) if 'x' in qs else None
    tol, tol_tok = tolerance_for(tree, x)
    spec_ok = int_casts_exact(tree)
    kind = [None]

    def run_impl():
        obj = o if o is not None else build(tree)
        kind[0] = obj_kind(obj)
        return apply_query(obj, qs)
    impl = ('err ' + build_error) if build_error is not None else _call(run_impl)
    ok = impl.startswith('ok ')
    tt = ('T ' + et) if q in TRANSPOSED else et
    canon, spec = None, None
    if q in VEC_QUERIES:
        # `.H` of a scipy combinator re-dispatches the arithmetic on the adjoints of its parts (model: Op.adjoint)
        run = ('c15.hdot %s %s' % (et, enc_vec(x))) if q == 'H.dot' else ('c15.dot %s %s' % (tt, enc_vec(x)))
        spec = 'c15.spec_dot %s %s %s %s' % (tt, enc_vec(x), impl[3:], tol_tok) if ok and spec_ok else None
        canon = 'vec'
    elif q in MAT_QUERIES:
        run = '%s %s %s' % ('c15.mv2d' if q == 'matvec2d' else 'c15.dotmat', tt, enc_dense(x))
        spec = 'c15.spec_dotmat %s %s %s %s' % (tt, enc_dense(x), impl[3:], tol_tok) if ok and spec_ok else None
        canon = 'mat'
    elif q in SUM_QUERIES:
        ax = {'sum0': '0', 'sum1': '1', 'sum': '2'}[q]
        run = 'c15.sum %s %s' % (et, ax)
        spec = 'c15.spec_sum %s %s %s %s' % (et, ax, impl[3:], tol_tok) if ok and spec_ok else None
        canon = 'vec'
    elif q in ('shape', 'construct'):
        run = 'c15.shape ' + et
        spec = 'c15.spec_shape %s %s' % (et, impl[3:]) if ok else None
    elif q == 'type':
        # which class Python returns is not part of the property: a difference is a broken tie, not a failing input
        run = 'c15.type ' + et
    elif q == 'd2u_unweighted':
        run = 'c15.d2u_unweighted ' + et
    else:
        raise ToolFailure('unknown query %r' % (q,))
    if (spec is None and ok and x is not None and q != 'dot-wrong-length' and tree[0] == 'astype'
            and CAST[tree[2]] == 'int' and kind[0] in ('slr', 'con') and x.dtype.kind in 'bi' and impl.split(' ')[-1] != '-'):
        # the parts are not integers, so `denote` does not apply (cast of the parts, not of the matrix); what the cast
        # guarantees all the same: integer input gives integer output (C15.astype_int_integral)
        spec = 'c15.spec_integral ' + impl.split(' ')[-1]
    key = (q, et, json.dumps(qs.get('x'), sort_keys=True), json.dumps(sig, sort_keys=True))
    nt = nontriv and q != 'dot-wrong-length'
    return Case(key, dict(sig, query=q), run, impl, spec, nt, dict(desc, qs=qs), canon=canon,
                tol={'tol': tol, 'refused': False})


def queries_for(rng, kind, r, c, full):
    """The queries sent for one operator of class `kind` and shape (r, c)."""
    qs = [new_query(rng, 'shape', r, c), new_query(rng, 'type', r, c), new_query(rng, 'dot', r, c),
          new_query(rng, 'T.dot', r, c)]
    pool = ['dotmat', 'matmat', 'T.dotmat', 'rmatmat', 'H.dot', 'rmatvec', 'matvec', 'matmul']
    if kind != 'gen':
        pool += ['matvec2d', 'matvec2d']
    qs += [new_query(rng, q, r, c) for q in (pool if full else rng.sample(pool, 3))]
    if rng.random() < 0.15:
        qs.append(new_query(rng, 'dot-wrong-length', r, c))
    if rng.random() < 0.1:
        qs.append(new_query(rng, 'd2u_unweighted', r, c))
    if kind == 'slr':
        qs += [new_query(rng, q, r, c) for q in ('sum0', 'sum1', 'sum') if full or rng.random() < 0.6]
    return qs


def inputs_unchanged(ctx, e):
    """Build the expression once on the ORIGINAL matrices of its leaves and products (no copies) and apply it: the
    arrays of the arguments must be what they were (a caller-visible mutation of an input is reported directly)."""
    mats = []

    def collect(x):
        for y in x[1:]:
            if sparse.issparse(y):
                mats.append(y)
            elif isinstance(y, tuple) and y and isinstance(y[0], str):
                collect(y)
    collect(e)
    before = [(m.data.copy(), m.indices.copy(), m.indptr.copy(), m.dtype) for m in mats]
    global _COPY_INPUTS
    _COPY_INPUTS = False
    try:
        try:
            o = build(e)
            if hasattr(o, 'shape') and len(o.shape) == 2:
                o.dot(np.ones(o.shape[1]))
                o.T.dot(np.ones(o.shape[0]))
        except ToolFailure:
            raise
        except ERRORS:
            pass
    finally:
        _COPY_INPUTS = True
    for m, (d, ix, ip, dt) in zip(mats, before):
        same = (m.dtype == dt and len(m.data) == len(d) and np.array_equal(m.data, d) and np.array_equal(m.indices, ix)
                and np.array_equal(m.indptr, ip))
        if not same:
            ctx.spec_fail(dict(expr_sig(e, 'inputs-unchanged'), aspect='input-unchanged'),
                          {'expr': expr_desc(e), 'qs': {'query': 'inputs-unchanged'}},
                          {'what': 'a matrix passed to a constructor / operation was modified in place',
                           'before': {'data': d.tolist(), 'indices': ix.tolist(), 'indptr': ip.tolist(), 'dtype': str(dt)},
                           'after': mat_desc(m)})
            m.data, m.indices, m.indptr = d, ix, ip        # restore for the other cases
    ctx.count('aspect:inputs-unchanged')


def cases_for_expr(ctx, rng, e, full=True, qs_list=None):
    """All request lines for one expression (or exactly the recorded queries `qs_list` of a replay)."""
    desc = {'expr': expr_desc(e)}
    nontriv = nontrivial_expr(e)
    o, err = try_build(e)
    if err is not None:
        # the construction itself raises: the model must refuse the same way
        return [make_case(e, {'query': 'construct'}, expr_sig(e, 'construct'), desc, nontriv, build_error=err)]
    if not hasattr(o, 'shape') or len(getattr(o, 'shape', ())) != 2:
        raise ToolFailure('expression %s evaluates to %r' % (enc_expr(e)[:80], type(o)))
    kind = obj_kind(o)
    r, c = o.shape
    if qs_list is None:
        qs_list = queries_for(rng, kind, r, c, full)
        if ctx is not None and rng.random() < 0.3:
            inputs_unchanged(ctx, e)
    return [make_case(e, qs, expr_sig(e, qs['query']), desc, nontriv) for qs in qs_list]


# ----------------------------------------------------------------------------------------------
# shared operands (object identity): `c - c`, `c + (-c)`, `c * 2 + c`
# ----------------------------------------------------------------------------------------------
def cases_shared(ctx, rng, leaf, only=None, x=None):
    out = []
    kind = leaf[0]
    patterns = [('sub', lambda c: c - c, ('sub', leaf, leaf)),
                ('add-neg', lambda c: c + (-c), ('add', leaf, ('neg', leaf))),
                ('mul-add', lambda c: (c * 2) + c, ('add', ('mul', leaf, 2), leaf))]
    for name, f, pure in patterns:
        if only is not None and name != only:
            continue
        o, err = try_build(leaf)
        if err is not None:
            continue
        n = o.shape[1]
        xv = x if x is not None else rand_vec(rng, n, 'int')
        impl = _call(lambda: _ok_vec(f(build(leaf)).dot(xv)))
        et = enc_expr(pure)
        tol, tol_tok = tolerance_for(pure, np.asarray(xv))
        spec = 'c15.spec_dot %s %s %s %s' % (et, enc_vec(xv), impl[3:], tol_tok) if impl.startswith('ok ') else None
        sig = {'entry': ENTRY[kind], 'shared_operand': True, 'pattern': name}
        run = 'c15.dot %s %s' % (et, enc_vec(xv))
        tl = {'tol': tol, 'refused': False}
        if kind == 'con':
            # the model of the code as it is (CoNeighbor arithmetic works in place on the one shared object, `Op.shared`)
            # is compared with the implementation by `resolve_in_place`: the known finding F16i is matched only when the
            # implementation answers exactly as that model (`effect: in-place-result`)
            tl['in_place_run'] = 'c15.shared %s %s %s %s' % (name, enc_mat(leaf[1]), enc_bool(leaf[2]), enc_vec(xv))
            tl['in_place_sig'] = {'entry': ENTRY[kind], 'aspect': 'in-place-model', 'pattern': name}
        out.append(Case(('shared', name, et, enc_vec(xv)), sig, run, impl, spec,
                        leaf[1].nnz > 0, {'shared': name, 'leaf': expr_desc(leaf), 'x': probe_desc(xv)}, canon='vec', tol=tl))
    return out


# ----------------------------------------------------------------------------------------------
# operand re-use: programs (DAGs) over operator OBJECTS — the same Python object takes part in several operations
# ----------------------------------------------------------------------------------------------
# A program is a list of statements; statement k binds object k:
#   ('leaf', expr) | ('neg', i) | ('mul', i, c) | ('T', i) | ('add', i, j) | ('sub', i, j) | ('addcsr', i, A) | ('subcsr', i, A)
#   | ('ldot', A, i) | ('rdot', i, A) | ('astype', i, dtype, exact) | ('rmul', c, i) | ('d2u', i) | ('b2d', i) | ('b2u', i)
#   | ('normalize', i)
# In the model operands are values (`Prog.run`, Model/LinOp.lean): object k denotes the tree obtained by unfolding the
# statements (`C15.prog_run_denote`) and a later statement never changes an earlier object (`C15.prog_run_prefix`).
# After every statement the operands and the result are re-evaluated against their own trees.

STMT_OPERANDS = {'neg': (1,), 'mul': (1,), 'T': (1,), 'add': (1, 2), 'sub': (1, 2), 'addcsr': (1,), 'subcsr': (1,),
                 'ldot': (2,), 'rdot': (1,), 'astype': (1,), 'rmul': (2,), 'd2u': (1,), 'b2d': (1,), 'b2u': (1,),
                 'normalize': (1,)}
# CoNeighbor works in place and returns the operand (finding F16i): these statements change their CoNeighbor operand
CON_IN_PLACE = {('neg', 'only'), ('mul', 'only'), ('ldot', 'only'), ('rdot', 'only'), ('normalize', 'only'), ('sub', 'right'),
                ('sub', 'both')}


def stmt_tree(st, trees):
    """The expression (tree) that the object bound by the statement denotes."""
    op = st[0]
    if op == 'leaf':
        return st[1]
    if op in ('neg', 'T', 'd2u', 'b2d', 'b2u', 'normalize'):
        return (op, trees[st[1]])
    if op == 'mul':
        return ('mul', trees[st[1]], st[2])
    if op == 'astype':
        return ('astype', trees[st[1]], st[2], st[3] if len(st) > 3 else True)
    if op == 'rmul':
        return ('rmul', st[1], trees[st[2]])
    if op in ('add', 'sub'):
        return (op, trees[st[1]], trees[st[2]])
    if op in ('addcsr', 'subcsr'):
        return (op, trees[st[1]], st[2])
    if op == 'ldot':
        return ('ldot', st[1], trees[st[2]])
    if op == 'rdot':
        return ('rdot', trees[st[1]], st[2])
    raise ToolFailure('unknown statement %r' % (op,))


def stmt_apply(st, objs):
    """Execute the statement on the real objects (no copies: this is the point)."""
    from sknetwork.linalg import normalize
    from sknetwork.utils.format import directed2undirected, bipartite2directed, bipartite2undirected
    op = st[0]
    if op == 'leaf':
        return build(st[1])
    if op == 'neg':
        return -objs[st[1]]
    if op == 'mul':
        return objs[st[1]] * st[2]
    if op == 'rmul':
        return st[1] * objs[st[2]]
    if op == 'T':
        return objs[st[1]].T
    if op == 'add':
        return objs[st[1]] + objs[st[2]]
    if op == 'sub':
        return objs[st[1]] - objs[st[2]]
    if op == 'addcsr':
        return objs[st[1]] + st[2].copy()
    if op == 'subcsr':
        return objs[st[1]] - st[2].copy()
    if op == 'ldot':
        return objs[st[2]].left_sparse_dot(st[1].copy())
    if op == 'rdot':
        return objs[st[1]].right_sparse_dot(st[2].copy())
    if op == 'astype':
        return objs[st[1]].astype(st[2])
    if op == 'd2u':
        return directed2undirected(objs[st[1]])
    if op == 'b2d':
        return bipartite2directed(objs[st[1]])
    if op == 'b2u':
        return bipartite2undirected(objs[st[1]])
    if op == 'normalize':
        return normalize(objs[st[1]])
    raise ToolFailure('unknown statement %r' % (op,))


def stmt_desc(st):
    out = [st[0]]
    for pos, x in enumerate(st[1:], start=1):
        if pos in STMT_OPERANDS.get(st[0], ()):
            out.append({'index': int(x)})
        elif isinstance(x, tuple):
            out.append({'expr': expr_desc(x)})
        elif sparse.issparse(x):
            out.append({'mat': mat_desc(x)})
        elif isinstance(x, str):
            out.append({'str': x})
        elif isinstance(x, (bool, np.bool_)):
            out.append({'bool': bool(x)})
        else:
            out.append({'num': float(x)})
    return out


def stmt_from_desc(d):
    out = [d[0]]
    for x in d[1:]:
        if 'expr' in x:
            out.append(expr_from_desc(x['expr']))
        elif 'mat' in x:
            out.append(mat_from_desc(x['mat']))
        elif 'str' in x:
            out.append(x['str'])
        elif 'index' in x:
            out.append(int(x['index']))
        elif 'bool' in x:
            out.append(x['bool'])
        else:
            out.append(x['num'])
    return tuple(out)


def class_name(o):
    k = obj_kind(o)
    if k == 'slr':
        return type(o).__name__            # SparseLR or Regularizer
    return {'pol': 'Polynome', 'con': 'CoNeighbor', 'nrm': 'Normalizer', 'nrmT': 'Normalizer', 'lap': 'Laplacian',
            'gen': 'LinearOperator'}[k]


def cases_for_object(ctx, rng, o, tree, sig, desc, nontriv, queries=2, qs_list=None):
    """Re-evaluate an existing object against the tree it denotes (nothing here may modify the object)."""
    kind = obj_kind(o)
    r, c = o.shape
    if qs_list is None:
        pool = ['T.dot', 'dotmat', 'shape', 'H.dot', 'rmatvec', 'matvec'] + (['sum0', 'sum1', 'sum'] if kind == 'slr' else [])
        qs_list = [new_query(rng, q, r, c) for q in ['dot'] + rng.sample(pool, max(0, queries - 1))]
    return [make_case(tree, qs, sig, desc, nontriv, o=o) for qs in qs_list]


def in_place_effect(st, role, tree):
    """The tree a CoNeighbor operand denotes after the statement has worked on it in place (finding F16i)."""
    op = st[0]
    if op == 'neg' or op == 'sub':
        return ('neg', tree)
    if op == 'mul':
        return ('mul', tree, st[2])
    if op == 'ldot':
        return ('ldot', st[1], tree)
    if op == 'rdot':
        return ('rdot', tree, st[2])
    if op == 'normalize':
        return ('normalize', tree)
    return tree


def mark_in_place(cases, st, role, tree):
    """Operand of the known in-place family (F16i): every query carries the run line of the tree the operand denotes after
    the statement has worked on it in place; `resolve_in_place` compares it with the implementation, query by query."""
    t2 = in_place_effect(st, role, tree)
    for c in cases:
        qs = c.desc.get('qs') if isinstance(c.desc, dict) else None
        if qs is None or not c.run:
            continue
        c.tol = dict(c.tol or {}, in_place_run=query_run_line(t2, qs),
                     in_place_sig={'entry': c.sig.get('entry'), 'aspect': 'in-place-model', 'reuse': st[0], 'role': role,
                                   'query': qs['query']})
    return cases


def _con_ids(o, seen=None):
    """ids of the CoNeighbor objects reachable from an operator (scipy's combinators keep references to their operands)."""
    from sknetwork.linalg import CoNeighbor
    seen = set() if seen is None else seen
    if isinstance(o, CoNeighbor):
        seen.add(id(o))
    for a in getattr(o, 'args', ()) or ():
        if hasattr(a, 'shape') and hasattr(a, 'dot') and not sparse.issparse(a) and not isinstance(a, np.ndarray):
            _con_ids(a, seen)
    return seen


def cases_program(ctx, rng, program, only=None):
    """Execute a program on real objects; after every statement re-evaluate its operands and its result.
    `only` = {'after', 'checked', 'qs'}: a replay emits exactly the recorded query."""
    out = []
    objs, trees, tainted = [], [], set()
    pdesc = [stmt_desc(st) for st in program]
    for k, st in enumerate(program):
        tree = stmt_tree(st, trees)
        desc = {'program': pdesc[:k + 1], 'after': k}
        nontriv = nontrivial_expr(tree)
        try:
            o = stmt_apply(st, objs)
        except ToolFailure:
            raise
        except ERRORS as ex:
            # the statement is refused: the model must refuse the unfolded expression the same way
            if only is None or only.get('after') == k:
                out.append(make_case(tree, {'query': 'construct'}, {'entry': 'program', 'aspect': 'construct', 'reuse': st[0]},
                                     desc, nontriv, build_error=type(ex).__name__))
            break
        if not hasattr(o, 'shape') or len(o.shape) != 2:
            break
        objs.append(o)
        trees.append(tree)
        if st[0] == 'leaf':
            continue
        pos = STMT_OPERANDS[st[0]]
        same_object = len(pos) == 2 and objs[st[1]] is objs[st[2]]
        roles = []
        for n_, ppos in enumerate(pos):
            role = 'only' if len(pos) == 1 else ('both' if same_object else ('left' if n_ == 0 else 'right'))
            roles.append((st[ppos], role))
        if same_object:
            roles = roles[:1]                      # the same object on both sides: checked once
        # CoNeighbor operands that this statement changes in place (known family F16i), and what references them
        mutated = set()
        for i, role in roles:
            if obj_kind(objs[i]) == 'con' and (st[0], role) in CON_IN_PLACE:
                mutated |= _con_ids(objs[i])
        for i, role in roles:
            if i in tainted:
                continue
            in_place_con = obj_kind(objs[i]) == 'con' and (st[0], role) in CON_IN_PLACE
            if not in_place_con and (_con_ids(objs[i]) & mutated):
                continue                           # changed through the in-place CoNeighbor it references
            sig = {'entry': class_name(objs[i]), 'aspect': 'operand-unchanged', 'reuse': st[0], 'role': role}
            cs = []
            if only is None:
                cs = cases_for_object(ctx, rng, objs[i], trees[i], sig, dict(desc, checked=i, role=role),
                                      nontrivial_expr(trees[i]), queries=3)
            elif only.get('after') == k and only.get('checked') == i and only.get('role', role) == role:
                cs = cases_for_object(ctx, rng, objs[i], trees[i], sig, dict(desc, checked=i, role=role),
                                      nontrivial_expr(trees[i]), qs_list=[only['qs']])
            out += mark_in_place(cs, st, role, trees[i]) if in_place_con else cs
        if mutated:
            for j, oj in enumerate(objs):
                if _con_ids(oj) & mutated:
                    tainted.add(j)
        if k not in tainted and not any(st[ppos] in tainted for ppos in pos):
            sig = {'entry': class_name(o), 'aspect': 'dag-result', 'reuse': st[0], 'role': 'result'}
            if only is None:
                out += cases_for_object(ctx, rng, o, tree, sig, dict(desc, checked=k, role='result'), nontriv, queries=2)
            elif only.get('after') == k and only.get('checked') == k and only.get('role') == 'result':
                out += cases_for_object(ctx, rng, o, tree, sig, dict(desc, checked=k, role='result'), nontriv,
                                        qs_list=[only['qs']])
        elif any(st[ppos] in tainted for ppos in pos):
            tainted.add(k)
    return out


def rand_program(rng, length):
    """A random program in which objects are used again: operands are drawn from the objects already bound."""
    program, objs, trees = [], [], []
    first = rand_leaf(rng)
    program.append(('leaf', first))
    for _ in range(length):
        # replay the program on scratch objects to know kinds and shapes (the checked run is done by cases_program)
        objs = []
        ok = True
        for st in program:
            try:
                objs.append(stmt_apply(st, objs))
            except ToolFailure:
                raise
            except ERRORS:
                ok = False
                break
        if not ok or not objs:
            return program
        i = rng.randrange(len(objs)) if rng.random() < 0.7 else len(objs) - 1
        o = objs[i]
        if not hasattr(o, 'shape') or len(o.shape) != 2:
            return program
        kind, shape = obj_kind(o), tuple(o.shape)
        if kind == 'slr':
            ops = ['neg', 'add', 'sub', 'add', 'sub', 'addcsr', 'subcsr', 'mul', 'rmul', 'T', 'ldot', 'rdot', 'astype', 'astype',
                   'normalize']
            if shape[0] + shape[1] <= 8:
                ops += ['b2d', 'b2u']
            if shape[0] == shape[1]:
                ops += ['d2u']
        elif kind == 'pol':
            ops = ['neg', 'mul', 'rmul', 'T', 'add', 'sub']
        elif kind == 'con':
            ops = ['neg', 'mul', 'rmul', 'T', 'ldot', 'rdot', 'astype', 'astype', 'normalize', 'add', 'sub']
        elif kind in ('nrm', 'nrmT'):
            ops = ['T', 'neg', 'mul', 'rmul', 'add', 'sub']
        elif kind == 'lap':
            ops = ['T', 'astype', 'astype', 'neg', 'mul', 'rmul', 'add', 'sub']
        else:
            ops = ['neg', 'mul', 'rmul', 'T', 'add', 'sub']
        op = rng.choice(ops)
        if op in ('neg', 'T', 'd2u', 'b2d', 'b2u'):
            program.append((op, i))
        elif op == 'normalize':
            if has_tiny_row_sum(o):
                TIE_SKIPPED[0] += 1
                continue
            program.append((op, i))
        elif op == 'mul':
            program.append(('mul', i, rng.choice(SCALARS)))
        elif op == 'astype':
            st = astype_stmt(rng, o)
            if st is None:
                continue
            program.append(('astype', i) + st)
        elif op == 'rmul':
            program.append(('rmul', rng.choice(SCALARS), i))
        elif op in ('addcsr', 'subcsr'):
            m = rand_matrix(rng, *shape)
            if op == 'subcsr' and m.dtype == bool:
                m = m.astype(np.int64)
            program.append((op, i, m))
        elif op == 'ldot':
            k = rand_dim(rng, 1, 4) if rng.random() < 0.5 else shape[0]
            program.append(('ldot', rand_matrix(rng, k, shape[0], density=0.6), i))
        elif op == 'rdot':
            k = rand_dim(rng, 1, 4) if rng.random() < 0.5 else shape[1]
            program.append(('rdot', i, rand_matrix(rng, shape[1], k, density=0.6)))
        else:
            # binary: the second operand is an object already bound (possibly the same one) when one fits, else a new leaf
            fits = [j for j, oj in enumerate(objs) if hasattr(oj, 'shape') and tuple(oj.shape) == shape
                    and (kind != 'slr' or obj_kind(oj) == 'slr')]
            if fits and rng.random() < 0.6:
                j = rng.choice(fits)
            else:
                leaf_kind = rng.choice(['slr', 'reg']) if kind == 'slr' else None
                program.append(('leaf', rand_leaf(rng, leaf_kind, shape)))
                j = len(program) - 1
            program.append((op, i, j) if rng.random() < 0.6 else (op, j, i))
    return program


# ----------------------------------------------------------------------------------------------
# utilities
# ----------------------------------------------------------------------------------------------
def _spec_def(spec_cmd, args, impl):
    """spec line of a documented definition written entry by entry (Spec/Convert.lean): `spec_cmd tol <inputs> <output>`."""
    return '%s %s %s %s' % (spec_cmd, TOL_TOK, args, impl[3:]) if impl.startswith('ok ') else None


def case_pinv(w, nontriv=True):
    from sknetwork.linalg import diagonal_pseudo_inverse
    w = np.asarray(w, dtype=float)
    impl = _call(lambda: 'ok ' + enc_vec(diagonal_pseudo_inverse(w).diagonal()))
    spec = 'c15.spec_pinv %s %s %s' % (enc_vec(w), impl[3:], TOL_TOK) if impl.startswith('ok ') else None
    return Case(('pinv', enc_vec(w)), {'entry': 'diagonal_pseudo_inverse'}, 'c15.pinv ' + enc_vec(w), impl, spec, nontriv,
                {'f': 'diagonal_pseudo_inverse', 'weights': w.tolist()}, canon='vec')


def cases_matrix_utils(ctx, rng, a, full=True):
    """normalize / get_norms / get_laplacian / directed2undirected / bipartite conversions / tfidf on one csr matrix."""
    from sknetwork.linalg import normalize, get_norms, get_laplacian, diagonal_pseudo_inverse
    from sknetwork.utils.format import directed2undirected, bipartite2directed, bipartite2undirected
    from sknetwork.utils.tfidf import get_tfidf
    out = []
    if not a.has_canonical_format:
        # get_norms / normalize work on the stored values (abs, squares): duplicate entries are outside their domain
        b = a.copy()
        b.sum_duplicates()
        if b.nnz != a.nnz:
            a = b
    dts = {'dtype': str(a.dtype)} if str(a.dtype) in BOUNDS else {}
    am = enc_mat(a)
    md = mat_desc(a)
    nt = a.nnz > 0
    r, c = a.shape
    # normalize, p = 1 (csr and ndarray input), p = 2 (sqrt external), p = 3 (ValueError)
    for fmt in ('csr', 'dense'):
        arg = a.copy() if fmt == 'csr' else a.toarray()
        impl = _call(lambda: _ok_mat(sparse.csr_matrix(normalize(arg, p=1)).toarray() if fmt == 'csr' else normalize(arg, p=1)))
        cmd = 'c15.normalize %s 1 -' % am
        out.append(Case(('normalize', am, 1, fmt), dict({'entry': 'normalize', 'p': 1, 'format': fmt}, **dts), cmd, impl,
                        _spec_norm1(am, impl), nt,
                        {'f': 'normalize', 'matrix': md, 'p': 1, 'format': fmt}, canon='mat'))
    af = a.astype(float)                       # the harness's own arithmetic never runs in a narrow integer type
    sq2 = np.sqrt((af.multiply(af)).dot(np.ones(c))) if c else np.zeros(r)
    impl = _call(lambda: _ok_mat(normalize(a.copy(), p=2).toarray()))
    out.append(Case(('normalize', am, 2), dict({'entry': 'normalize', 'p': 2}, **dts), 'c15.normalize %s 2 %s' % (am, enc_vec(sq2)), impl,
                    _spec_norm2(am, impl), nt, {'f': 'normalize', 'matrix': md, 'p': 2}, canon='mat'))
    impl = _call(lambda: _ok_mat(normalize(a.copy(), p=3).toarray()))
    out.append(Case(('normalize', am, 3), dict({'entry': 'normalize', 'p': 3}, **dts), 'c15.normalize %s 3 -' % am, impl, None, False,
                    {'f': 'normalize', 'matrix': md, 'p': 3}))
    # integer / boolean / float32 matrices through normalize and get_norms (same definitions)
    if a.nnz and np.all(a.data == np.round(a.data)) and str(a.dtype) not in BOUNDS:
        for dt in ('int64', 'bool', 'float32'):
            b = _as_dtype(a, dt)
            bm = enc_mat(b)
            impl = _call(lambda: _ok_mat(sparse.csr_matrix(normalize(b.copy(), p=1)).toarray()))
            out.append(Case(('normalize', bm, 1, dt), {'entry': 'normalize', 'p': 1, 'dtype': dt}, 'c15.normalize %s 1 -' % bm, impl,
                            'c15.spec_normalize %s 1 %s %s' % (bm, impl[3:], TOL32_TOK if dt == 'float32' else TOL_TOK)
                            if impl.startswith('ok ') else None, nt,
                            {'f': 'normalize', 'matrix': mat_desc(b), 'p': 1}, canon='mat',
                            tol={'tol': TOL32 if dt == 'float32' else TOL}))
            impl = _call(lambda: 'ok ' + enc_vec(np.asarray(get_norms(b.copy(), p=2), dtype=float) ** 2))
            out.append(Case(('norms', bm, 2, dt), {'entry': 'get_norms', 'p': 2, 'dtype': dt}, 'c15.norms %s 2' % bm, impl, None, nt,
                            {'f': 'get_norms', 'matrix': mat_desc(b), 'p': 2}, canon='vec',
                            tol={'tol': TOL32 if dt == 'float32' else TOL}))
    # get_norms
    impl = _call(lambda: 'ok ' + enc_vec(get_norms(a.copy(), p=1)))
    out.append(Case(('norms', am, 1), dict({'entry': 'get_norms', 'p': 1}, **dts), 'c15.norms %s 1' % am, impl, None, nt,
                    {'f': 'get_norms', 'matrix': md, 'p': 1}, canon='vec'))
    impl = _call(lambda: 'ok ' + enc_vec(get_norms(a.copy(), p=2) ** 2))
    out.append(Case(('norms', am, 2), dict({'entry': 'get_norms', 'p': 2}, **dts), 'c15.norms %s 2' % am, impl, None, nt,
                    {'f': 'get_norms', 'matrix': md, 'p': 2}, canon='vec'))
    # diagonal_pseudo_inverse on the row sums
    out.append(case_pinv(af.dot(np.ones(c)), nt))
    # get_laplacian
    impl = _call(lambda: _ok_mat(sparse.csr_matrix(get_laplacian(a.copy())).toarray()))
    cmd = 'c15.laplacian ' + am
    out.append(Case(('laplacian', am), dict({'entry': 'get_laplacian'}, **dts), cmd, impl, _spec_lap(am, impl), nt and r == c,
                    {'f': 'get_laplacian', 'matrix': md}, canon='mat'))
    # directed2undirected with the dtype rule
    for weighted in (True, False):
        own = str(a.dtype)
        for dt in ([own, 'bool', 'int', 'float32'] if full else [rng.choice([own, 'bool', 'int', 'float32'])]):
            if dt == 'float32' and own in BOUNDS:
                continue                               # 32767 etc. are exact in float32, nothing new; keeps the labels simple
            if dt == 'bool':
                b = a.astype(bool)
            elif dt == 'int':
                b = sparse.csr_matrix((np.trunc(a.data).astype(np.int64), a.indices.copy(), a.indptr.copy()), shape=a.shape)
            elif dt == 'float32':
                b = a.astype(np.float32)
            else:
                b = a.copy()
            bm = enc_mat(b.astype(float))

            def f():
                res = directed2undirected(b.copy(), weighted=weighted)
                return _ok_mat(res.astype(float).toarray()), str(res.dtype)
            try:
                impl, rdt = f()
            except ToolFailure:
                raise
            except ERRORS as ex:
                impl, rdt = 'err ' + type(ex).__name__, None
            cmd = 'c15.d2u %s %s' % (bm, enc_bool(weighted))
            sig = {'entry': 'directed2undirected', 'weighted': weighted, 'dtype': dt}
            spec = 'c15.spec_d2u %s %s %s %s' % (TOL_TOK, bm, enc_bool(weighted), impl[3:]) if impl.startswith('ok ') else None
            out.append(Case(('d2u', bm, weighted, dt), sig, cmd, impl, spec, b.nnz > 0 and r == c,
                            {'f': 'directed2undirected', 'matrix': mat_desc(b), 'weighted': weighted}, canon='mat'))
            if rdt is not None and weighted:
                kind = {'float64': 'float64', 'int64': 'int', 'int32': 'int', 'bool': 'bool', 'float32': 'float32'}.get(rdt, rdt)
                kind = {'int8': 'int', 'int16': 'int', 'uint8': 'int'}.get(kind, kind)     # any integer type: `int`
                out.append(Case(('d2u_dtype', dt, rdt), dict(sig, aspect='dtype'), 'c15.d2u_dtype ' + ('int' if dt in BOUNDS else dt), 'ok ' + kind, None, True,
                                {'f': 'directed2undirected', 'matrix': mat_desc(b), 'weighted': weighted, 'aspect': 'dtype'}))
    # bipartite conversions
    impl = _call(lambda: _ok_mat(bipartite2directed(a.copy()).toarray()))
    cmd = 'c15.b2d ' + am
    out.append(Case(('b2d', am), dict({'entry': 'bipartite2directed'}, **dts), cmd, impl, _spec_def('c15.spec_b2d', am, impl), nt,
                    {'f': 'bipartite2directed', 'matrix': md}, canon='mat'))
    impl = _call(lambda: _ok_mat(bipartite2undirected(a.copy()).toarray()))
    cmd = 'c15.b2u ' + am
    out.append(Case(('b2u', am), dict({'entry': 'bipartite2undirected'}, **dts), cmd, impl, _spec_def('c15.spec_b2u', am, impl), nt,
                    {'f': 'bipartite2undirected', 'matrix': md}, canon='mat'))
    # tf-idf (log external: table log(n_documents / f), f = 1..n_documents)
    import math
    table = [math.log(r / f) for f in range(1, r + 1)]
    impl = _call(lambda: _ok_mat(sparse.csr_matrix(get_tfidf(a.copy())).toarray()))
    cmd = 'c15.tfidf %s %s' % (am, enc_vec(table))
    out.append(Case(('tfidf', am), dict({'entry': 'get_tfidf'}, **dts), cmd, impl, _spec_def('c15.spec_tfidf', am + ' ' + enc_vec(table), impl), nt,
                    {'f': 'get_tfidf', 'matrix': md}, canon='mat'))
    return out


def _spec_norm1(am, impl):
    return 'c15.spec_normalize %s 1 %s %s' % (am, impl[3:], TOL_TOK) if impl.startswith('ok ') else None


def _spec_norm2(am, impl):
    return 'c15.spec_normalize %s 2 %s %s' % (am, impl[3:], TOL_TOK) if impl.startswith('ok ') else None


def _spec_lap(am, impl):
    return 'c15.spec_laplacian %s %s %s' % (am, impl[3:], TOL_TOK) if impl.startswith('ok ') else None


def cases_csr_utils(ctx, rng, a, full=True):
    """get_neighbors / get_degrees / get_weights on the CSR arrays (explicit zeros, duplicates, unsorted rows kept)."""
    from sknetwork.utils import get_neighbors, get_degrees, get_weights
    out = []
    g = enc_csr_arrays(a)
    md = mat_desc(a)
    nt = a.nnz > 0
    r, c = a.shape
    canonical = a.has_canonical_format and (a.data != 0).all() if a.nnz else True
    for tr in (False, True):
        lim = c if tr else r
        nodes = list(range(lim + 1)) if full else sorted(set([rng.randrange(lim + 1), lim]))
        for node in nodes:
            impl = _call(lambda: 'ok ' + enc_list(get_neighbors(a, node, transpose=tr)))
            spec = None
            if impl.startswith('ok ') and canonical:
                spec = 'c15.spec_neighbors %s %d %s %s' % (g, node, enc_bool(tr), impl[3:])
            out.append(Case(('neighbors', g, node, tr), {'entry': 'get_neighbors', 'transpose': tr},
                            'c15.neighbors %s %d %s' % (g, node, enc_bool(tr)), impl, spec, nt and node < lim,
                            {'f': 'get_neighbors', 'matrix': md, 'node': node, 'transpose': tr}, canon='multiset'))
        impl = _call(lambda: 'ok ' + enc_list(get_degrees(a, transpose=tr)))
        spec = 'c15.spec_degrees %s %s %s' % (g, enc_bool(tr), impl[3:]) if canonical and impl.startswith('ok ') else None
        out.append(Case(('degrees', g, tr), {'entry': 'get_degrees', 'transpose': tr}, 'c15.degrees %s %s' % (g, enc_bool(tr)),
                        impl, spec, nt, {'f': 'get_degrees', 'matrix': md, 'transpose': tr}))
        impl = _call(lambda: 'ok ' + enc_vec(get_weights(a, transpose=tr)))
        spec = 'c15.spec_weights %s %s %s' % (g, enc_bool(tr), impl[3:]) if impl.startswith('ok ') else None
        out.append(Case(('weights', g, tr), {'entry': 'get_weights', 'transpose': tr}, 'c15.weights %s %s' % (g, enc_bool(tr)),
                        impl, spec, nt, {'f': 'get_weights', 'matrix': md, 'transpose': tr}, canon='vec'))
    return out


# magnitudes far from 1: no weight is "numerically null" (the pseudo-inverse of diag(w) is 1/w for every w != 0)
SCALES = [1e-9, 1e-12, 3e-8, 2.0 ** -30, 2.0 ** -40, 1e8, 1e12, 2.0 ** 30, 2.0 ** 40]


def cases_pinv_magnitudes(ctx, rng):
    """diagonal_pseudo_inverse on weights in 1e-12 .. 1e-7 and 1e+7 .. 1e+12, mixed with zeros and weights of order 1
    (PinvSpec is multiplicative: out * w = 1 for every w != 0, whatever its size)."""
    out = [case_pinv([1e-9, 1.0, 0.0, -2e-9]), case_pinv([1e-12, 1e12, 5e-8, 1e-7]), case_pinv([2.0 ** -40, 2.0 ** 40, 0.0])]
    for _ in range(6):
        n = rng.randint(1, 6)
        w = [rng.choice([0.0, 1.0, 2.0, -3.0, rng.choice([1, 2, 5, -4]) * 10.0 ** rng.choice([-12, -10, -9, -8, -7, 7, 9, 12])])
             for _ in range(n)]
        out.append(case_pinv(w))
    return out


def weak_node(rng, a):
    """The matrix with one weakly attached node: the stored entries of one non-empty row (and of the matching column of a
    square matrix) become weights of 2e-9 next to weights of order 1."""
    b = sparse.lil_matrix(a.astype(float))
    rows = [i for i in range(a.shape[0]) if a[i].nnz]
    if not rows or (a.data < 0).any():
        return None                     # signed weights: 2e-9 - 1 + 1 is a cancellation, not a weak attachment
    i = rng.choice(rows)
    for j in a[i].indices:
        b[i, j] = 2e-9
    if a.shape[0] == a.shape[1]:
        for k in a[:, i].nonzero()[0]:
            b[k, i] = 2e-9
    b = b.tocsr()
    b.sort_indices()
    return b


def cases_scaled(ctx, rng, a, ks=None, reg=None, x=None, only=None):
    """Scale invariance (exact over Q, C15.normalize_scale_invariant / normalizer_scale_invariant): the implementation runs
    on k * A, the run and spec lines are those of A.  normalize (p = 1, 2), get_tfidf, Normalizer(kA, k reg), the normalised
    Laplacian(kA, k reg), CoNeighbor(kA) applied to x / k (k a power of two)."""
    from sknetwork.linalg import normalize, Normalizer, Laplacian, CoNeighbor
    from sknetwork.utils.tfidf import get_tfidf
    import math
    out = []
    r, c = a.shape
    a = a.astype(float)
    am, md, nt = enc_mat(a), mat_desc(a), a.nnz > 0
    ks = ks if ks is not None else rng.sample(SCALES, 3)
    reg = reg if reg is not None else rng.choice([0, 0, 1, 0.5])
    x = np.asarray(x, dtype=float) if x is not None else rand_vec(rng, c, 'int', dtype='float64')
    sq2 = np.sqrt((a.multiply(a)).dot(np.ones(c))) if c else np.zeros(r)
    table = [math.log(r / f) for f in range(1, r + 1)]

    def add(what, k, run, impl, spec, canon, nontriv=nt):
        if only is None or only == what:
            out.append(Case(('scaled', what, am, repr(k), enc_rat(frac(reg)), enc_vec(x)),
                            {'entry': what, 'scaled': True}, run, impl, spec, nontriv,
                            {'f': 'scaled', 'what': what, 'matrix': md, 'factor': k, 'reg': float(reg), 'x': [float(v) for v in x]},
                            canon=canon))
    ones = np.ones(c)
    # a row whose weights cancel exactly (sum + reg = 0) stays exactly null only under an exact rescaling (DESIGN 8: discrete
    # decision `weight == 0` on a rounded number): the Normalizer of such a matrix is rescaled by powers of two only
    cancels = bool(np.any((a.dot(ones) + reg == 0) & (abs(a).dot(ones) + abs(reg) > 0))) if c else False
    for k in ks:
        b = a * k
        exact_k = math.log2(k) == int(math.log2(k))
        impl = _call(lambda: _ok_mat(sparse.csr_matrix(normalize(b.copy(), p=1)).toarray()))
        add('normalize', k, 'c15.normalize %s 1 -' % am, impl, _spec_norm1(am, impl), 'mat')
        impl = _call(lambda: _ok_mat(normalize(b.copy(), p=2).toarray()))
        add('normalize-p2', k, 'c15.normalize %s 2 %s' % (am, enc_vec(sq2)), impl, _spec_norm2(am, impl), 'mat')
        impl = _call(lambda: _ok_mat(sparse.csr_matrix(get_tfidf(b.copy())).toarray()))
        add('get_tfidf', k, 'c15.tfidf %s %s' % (am, enc_vec(table)), impl, _spec_def('c15.spec_tfidf', am + ' ' + enc_vec(table), impl), 'mat')
        if c > 0 and (exact_k or not cancels):
            tree = ('nrm', a, reg)
            for q, T in (('dot', False), ('T.dot', True)):
                xv = x if not T else rand_vec(random_like(x, r), r, 'int', dtype='float64')
                impl = _call(lambda: _ok_vec((Normalizer(b.copy(), reg * k).T if T else Normalizer(b.copy(), reg * k)).dot(xv)))
                et = ('T ' if T else '') + enc_expr(tree)
                spec = 'c15.spec_dot %s %s %s %s' % (et, enc_vec(xv), impl[3:], TOL_TOK) if impl.startswith('ok ') else None
                add('Normalizer.' + q, k, 'c15.dot %s %s' % (et, enc_vec(xv)), impl, spec, 'vec')
        if r == c and r > 0 and np.all(a.dot(np.ones(c)) + reg > 0):
            tree = ('lap', a, reg, True)
            impl = _call(lambda: _ok_vec(Laplacian(b.copy(), reg * k, True).dot(x)))
            et = enc_expr(tree)
            spec = 'c15.spec_dot %s %s %s %s' % (et, enc_vec(x), impl[3:], TOL_TOK) if impl.startswith('ok ') else None
            add('Laplacian.normalized', k, 'c15.dot %s %s' % (et, enc_vec(x)), impl, spec, 'vec')
        if nt and exact_k:
            tree = ('con', a, True)
            xr = rand_vec(random_like(x, r), r, 'int', dtype='float64')
            impl = _call(lambda: _ok_vec(CoNeighbor(b.copy(), True).dot(xr / k)))
            et = enc_expr(tree)
            spec = 'c15.spec_dot %s %s %s %s' % (et, enc_vec(xr), impl[3:], TOL_TOK) if impl.startswith('ok ') else None
            add('CoNeighbor.normalized', k, 'c15.dot %s %s' % (et, enc_vec(xr)), impl, spec, 'vec')
        if only is None:
            out.append(case_pinv(b.dot(np.ones(c)), nt))
    return out


def random_like(x, n):
    """A generator determined by the stored probe (the replay rebuilds the same second probe)."""
    import random
    return random.Random(repr([float(v) for v in x]) + ':%d' % n)


FORMATS = ('csc', 'coo', 'lil')


def cases_formats(ctx, rng, a):
    """The same matrix as a csc / coo / lil matrix: the six classes (check_format / scipy convert), and on csc / coo the
    utilities that only use scipy's matrix algebra (normalize, get_norms, get_laplacian, get_weights).  get_neighbors /
    get_degrees read the CSR arrays and the remaining utilities name csr_matrix in their signature: csr only (ASSUMPTIONS)."""
    from sknetwork.linalg import normalize, get_norms
    from sknetwork.linalg.laplacian import get_laplacian
    from sknetwork.utils import get_weights
    out = []
    r, c = a.shape
    am = enc_mat(a)
    g = enc_csr_arrays(a)
    nt = a.nnz > 0
    for fmt in FORMATS:
        b = a.asformat(fmt)
        leaves = [('slr', b, [(np.ones(r), np.arange(1., c + 1))], False), ('reg', b, 1), ('nrm', b, 0.5), ('con', b, True),
                  ('con', b, False)]
        if r == c:
            leaves += [('lap', b, 1, False), ('pol', b, [1.0, -1.0, 2.0])]
        for leaf in leaves:
            for cse in cases_for_expr(None, rng, leaf, full=False):
                cse.sig = dict(cse.sig, format=fmt)
                out.append(cse)
        ctx.count('format:' + fmt)
        if fmt == 'lil':
            continue
        md = mat_desc(b)
        impl = _call(lambda: _ok_mat(sparse.csr_matrix(normalize(b.copy(), p=1)).toarray()))
        out.append(Case(('normalize', am, 1, fmt), {'entry': 'normalize', 'p': 1, 'format': fmt}, 'c15.normalize %s 1 -' % am, impl,
                        _spec_norm1(am, impl), nt, {'f': 'format-utils', 'matrix': md}, canon='mat'))
        b1 = b.copy()
        impl = _call(lambda: 'ok ' + enc_vec(get_norms(b1, p=1)))                     # the argument itself, not a copy (F16h)
        out.append(Case(('norms', am, 1, fmt), {'entry': 'get_norms', 'p': 1, 'format': fmt}, 'c15.norms %s 1' % am, impl, None, nt,
                        {'f': 'format-utils', 'matrix': md}, canon='vec'))
        if (b1 != b).nnz or b1.dtype != b.dtype:
            ctx.spec_fail({'entry': 'get_norms', 'p': 1, 'format': fmt, 'aspect': 'input-unchanged'}, {'f': 'format-utils', 'matrix': md},
                          {'what': 'get_norms modified its argument', 'after': mat_desc(b1)})
        impl = _call(lambda: 'ok ' + enc_vec(get_norms(b.copy(), p=2) ** 2))
        out.append(Case(('norms', am, 2, fmt), {'entry': 'get_norms', 'p': 2, 'format': fmt}, 'c15.norms %s 2' % am, impl, None, nt,
                        {'f': 'format-utils', 'matrix': md}, canon='vec'))
        impl = _call(lambda: _ok_mat(sparse.csr_matrix(get_laplacian(b.copy())).toarray()))
        out.append(Case(('laplacian', am, fmt), {'entry': 'get_laplacian', 'format': fmt}, 'c15.laplacian ' + am, impl,
                        _spec_lap(am, impl), nt and r == c, {'f': 'format-utils', 'matrix': md}, canon='mat'))
        for tr in (False, True):
            impl = _call(lambda: 'ok ' + enc_vec(get_weights(b, transpose=tr)))
            spec = 'c15.spec_weights %s %s %s' % (g, enc_bool(tr), impl[3:]) if impl.startswith('ok ') else None
            out.append(Case(('weights', g, tr, fmt), {'entry': 'get_weights', 'transpose': tr, 'format': fmt},
                            'c15.weights %s %s' % (g, enc_bool(tr)), impl, spec, nt, {'f': 'format-utils', 'matrix': md}, canon='vec'))
    return out


def cases_membership(ctx, rng, labels, n_labels):
    from sknetwork.utils.membership import get_membership, from_membership
    out = []
    lt = enc_list(labels)
    nl = '_' if n_labels is None else str(n_labels)
    arr = np.array(labels, dtype=int)
    nt = any(x >= 0 for x in labels)

    def f():
        m = get_membership(arr, n_labels=n_labels)
        return 'ok ' + enc_csr_arrays(m.astype(float))
    impl = _call(f)
    spec = 'c15.spec_membership %s %s %s' % (lt, nl, impl[3:]) if impl.startswith('ok ') else None
    out.append(Case(('membership', lt, nl), {'entry': 'get_membership', 'n_labels': n_labels is not None},
                    'c15.membership %s %s' % (lt, nl), impl, spec, nt,
                    {'f': 'get_membership', 'labels': list(labels), 'n_labels': n_labels}, canon='csr'))

    def g():
        return 'ok ' + enc_list(from_membership(get_membership(arr, n_labels=n_labels)))
    impl = _call(g)
    spec = 'c15.spec_roundtrip %s %s' % (lt, impl[3:]) if impl.startswith('ok ') else None
    out.append(Case(('roundtrip', lt, nl), {'entry': 'from_membership', 'via': 'get_membership'},
                    'c15.roundtrip %s %s' % (lt, nl), impl, spec, nt,
                    {'f': 'roundtrip', 'labels': list(labels), 'n_labels': n_labels}))
    return out


def cases_from_membership(ctx, rng, m):
    from sknetwork.utils.membership import from_membership
    g = enc_csr_arrays(m)
    impl = _call(lambda: 'ok ' + enc_list(from_membership(m)))
    return [Case(('from_membership', g), {'entry': 'from_membership', 'via': 'matrix'}, 'c15.from_membership ' + g, impl, None,
                 m.nnz > 0, {'f': 'from_membership', 'matrix': mat_desc(m)})]


def cases_topk(ctx, rng, scores, k, sort):
    from sknetwork.ranking import top_k
    st = enc_vec(scores)
    impl = _call(lambda: 'ok ' + enc_list(top_k(np.array(scores, dtype=float), k, sort=sort)))
    spec = 'c15.spec_topk %s %d %s %s' % (st, k, enc_bool(sort), impl[3:]) if impl.startswith('ok ') else None
    return [Case(('topk', st, k, sort), {'entry': 'top_k', 'sort': sort, 'k_ge_n': k >= len(scores)},
                 'c15.topk %s %d %s' % (st, k, enc_bool(sort)), impl, spec, len(scores) >= 2,
                 {'f': 'top_k', 'scores': [float(s) for s in scores], 'k': k, 'sort': sort}, canon='topk')]


def case_safe_dot(opa, opb, probe):
    """One safe_sparse_dot case; an operand is ('nd', csr matrix whose dense form is passed) | ('csr', csr matrix) | ('op', expr)."""
    from sknetwork.linalg.basics import safe_sparse_dot

    def enc(opd):
        t, v = opd
        return (t + ' ' + (enc_expr(v) if t == 'op' else enc_mat(v))), ({t: expr_desc(v)} if t == 'op' else {t: mat_desc(v)})
    (sa, da), (sb, db) = enc(opa), enc(opb)
    (ta, va), (tb, vb) = opa, opb

    def f():
        a = build(va) if ta == 'op' else (va.toarray() if ta == 'nd' else va.copy())
        b = build(vb) if tb == 'op' else (vb.toarray() if tb == 'nd' else vb.copy())
        res = safe_sparse_dot(a, b)
        if res is None:
            return 'ok none'
        if sparse.issparse(res):
            return 'ok mat ' + enc_mat(res)
        if isinstance(res, np.ndarray):
            return 'ok mat ' + enc_dense(res if res.ndim == 2 else res.reshape(-1, 1))
        return 'ok op ' + enc_vec(res.dot(probe))
    impl = _call(f)
    f32 = any(t == 'op' and uses_float32(v) for t, v in (opa, opb))
    tol, tol_tok = (TOL32, TOL32_TOK) if f32 else (TOL, TOL_TOK)
    spec = None
    if impl.startswith('ok mat ') or impl.startswith('ok op '):
        spec = 'c15.spec_safedot %s %s %s %s %s' % (sa, sb, enc_vec(probe), impl[3:], tol_tok)
    return Case(('safedot', sa, sb, enc_vec(probe)), {'entry': 'safe_sparse_dot', 'a': ta, 'b': tb},
                'c15.safedot %s %s %s' % (sa, sb, enc_vec(probe)), impl, spec, True,
                {'f': 'safe_sparse_dot', 'a': da, 'b': db, 'probe': probe_desc(probe)}, canon='safedot',
                tol={'tol': tol, 'refused': False})


def cases_safe_dot(ctx, rng):
    """safe_sparse_dot: which product is taken for (ndarray | csr | operator) x (ndarray | csr | operator)."""
    r, k, c = rand_dim(rng, 1, 4), rand_dim(rng, 1, 4), rand_dim(rng, 1, 4)

    def operand(kind, shape):
        if kind in ('nd', 'csr'):
            return (kind, rand_matrix(rng, *shape, dtype='float64'))
        e = rand_leaf(rng, rng.choice(['slr', 'reg', 'nrm'] + (['con'] if shape[0] == shape[1] else [])), shape)
        if e[0] == 'con':
            e = ('con', rand_matrix(rng, shape[0], rand_dim(rng)), e[2])
        return ('op', e)

    ka, kb = rng.choice([('nd', 'nd'), ('nd', 'csr'), ('nd', 'op'), ('op', 'csr'), ('csr', 'op'), ('op', 'nd'), ('csr', 'nd'),
                         ('csr', 'csr'), ('op', 'op')])
    if ka == 'op' and kb == 'op':
        r = k = c
    opa, opb = operand(ka, (r, k)), operand(kb, (k, c))
    probe = rand_vec(rng, c, 'int')
    # operator classes without left/right_sparse_dot against a csr matrix end in scipy's LinearOperator.dot(sparse),
    # which is not a supported call (numpy may even crash on it): never executed
    if (ka, kb) in (('op', 'csr'), ('csr', 'op')) and (opa if ka == 'op' else opb)[1][0] == 'nrm':
        return []
    return [case_safe_dot(opa, opb, probe)]


def operand_from_desc(d):
    if 'op' in d:
        return ('op', expr_from_desc(d['op']))
    t = 'nd' if 'nd' in d else 'csr'
    return (t, mat_from_desc(d[t]))


# ----------------------------------------------------------------------------------------------
# comparison (tolerance of DESIGN 8)
# ----------------------------------------------------------------------------------------------
def _close_lists(a, b, tol=TOL):
    if len(a) != len(b):
        return False
    sc = max([abs(x) for x in b] + [Fraction(0)])
    return all(abs(x - y) <= tol * (1 + sc) for x, y in zip(a, b))


def _tol(c):
    return c.tol['tol'] if isinstance(c.tol, dict) and 'tol' in c.tol else TOL


def _same(c, model, impl, spec_ok):
    if model.startswith('err') and impl.startswith('err'):
        # the same exception class is required (a shape ValueError turned into a TypeError is a difference)
        return model == impl
    if not (model.startswith('ok') and impl.startswith('ok')):
        return False
    mt, it = model.split(' '), impl.split(' ')
    if c.canon == 'vec' and len(mt) == 2 and len(it) == 2:
        return _close_lists(dec_ratlist(mt[1]), dec_ratlist(it[1]), _tol(c))
    if c.canon == 'mat' and len(mt) == 4 and len(it) == 4:
        if mt[1:3] != it[1:3]:
            return False
        _, _, ra = dec_mat(mt[1:])
        _, _, rb = dec_mat(it[1:])
        return _close_lists([x for r in ra for x in r], [x for r in rb for x in r], _tol(c))
    if c.canon == 'safedot' and len(mt) == len(it) and mt[1] == it[1]:
        if mt[1] == 'mat':
            if mt[2:4] != it[2:4]:
                return False
            _, _, ra = dec_mat(mt[2:])
            _, _, rb = dec_mat(it[2:])
            return _close_lists([x for r in ra for x in r], [x for r in rb for x in r], _tol(c))
        if mt[1] == 'op':
            return _close_lists(dec_ratlist(mt[2]), dec_ratlist(it[2]), _tol(c))
        return True
    if c.canon == 'multiset' and len(mt) == 2 and len(it) == 2:
        # the order of the stored entries of a row is a storage detail (DESIGN 8: orders the code does not define)
        return sorted(dec_list(mt[1])) == sorted(dec_list(it[1]))
    if c.canon == 'csr' and len(mt) == 6 and len(it) == 6:
        return _csr_dense(mt[1:]) == _csr_dense(it[1:])
    if c.canon == 'topk':
        # argpartition / argsort order ties as they like: the spec line is the judge
        return sorted(dec_list(mt[1])) == sorted(dec_list(it[1])) or spec_ok and c.spec is not None and _topk_tie(c, mt, it)
    return False


def _csr_dense(toks):
    """['n','m',indptr,indices,data] -> (n, m, sorted entries with duplicates added up)"""
    n, m = int(toks[0]), int(toks[1])
    ip, ix, dt = dec_list(toks[2]), dec_list(toks[3]), dec_ratlist(toks[4])
    acc = {}
    for i in range(n):
        for p in range(ip[i], ip[i + 1]):
            acc[(i, ix[p])] = acc.get((i, ix[p]), 0) + dt[p]
    return n, m, sorted((k, v) for k, v in acc.items() if v != 0)


def _topk_tie(c, mt, it):
    scores = c.desc['scores']
    a, b = dec_list(mt[1]), dec_list(it[1])
    return sorted(scores[i] for i in a) == sorted(scores[i] for i in b)


def resolve_in_place(ctx, cases):
    """Known family F16i (CoNeighbor arithmetic in place).  A marked case has the run / spec line of the PURE tree (the
    property) and, aside, the run line of the IN-PLACE model.  Both model answers are asked here, per case and per query:
      * the implementation answers as the pure tree: nothing to report for this case;
      * else the signature gets `effect: in-place-result` iff the implementation answers exactly as the in-place model
        (only that is matched by the recorded findings; a raise, garbage, any other change is `effect: other` and reported);
      * and a run-only case compares the in-place model with the implementation under a signature of its own, which no
        recorded finding matches: if the in-place model stops describing the code, that is a disagreement whatever the
        outcome of the spec line."""
    marked = [c for c in cases if isinstance(c.tol, dict) and c.tol.get('in_place_run') and c.run]
    if not marked:
        return cases
    lines = []
    for c in marked:
        lines += [c.run, c.tol['in_place_run']]
    answers = ctx.lean(lines)
    extra = []
    for k, c in enumerate(marked):
        pure, inpl = answers[2 * k], answers[2 * k + 1]
        if pure.startswith('unknown-cmd') or inpl.startswith('unknown-cmd') or 'bad-args' in (pure, inpl):
            raise ToolFailure('driver rejected %r / %r' % (c.run, c.tol['in_place_run']))
        if pure == c.impl or _same(c, pure, c.impl, True):
            c.sig = dict(c.sig, effect='none')
            continue
        eq = inpl == c.impl or _same(c, inpl, c.impl, True)
        c.sig = dict(c.sig, effect='in-place-result' if eq else 'other')
        extra.append(Case(('in-place-model',) + tuple(c.key if isinstance(c.key, tuple) else (c.key,)), c.tol['in_place_sig'],
                          c.tol['in_place_run'], c.impl, None, c.nontrivial, c.desc, canon=c.canon,
                          tol={k2: v for k2, v in c.tol.items() if k2 not in ('in_place_run', 'in_place_sig')}))
    return cases + extra


def evaluate(ctx, cases):
    cases = resolve_in_place(ctx, list(cases))
    for c in cases:
        if c.spec is None and c.run and str(c.impl).startswith('err'):
            # the implementation refused: justified only if the model refuses the same request
            c.spec = 'c15.spec_refused ' + c.run
            c.tol = dict(c.tol or {}, refused=True) if isinstance(c.tol, dict) or c.tol is None else {'refused': True}
    _evaluate(ctx, cases, same=_same)


# ----------------------------------------------------------------------------------------------
# generators
# ----------------------------------------------------------------------------------------------
def fixed_reuse_programs():
    """For every class: the operand takes part in a sum, a difference, a scaling / negation, a transposition and (where
    the class has them) the sparse products, and is used again afterwards."""
    a = sparse.csr_matrix(np.array([[1., 2, 0], [0, 0, 0], [3, 0, 1]]))
    b = sparse.csr_matrix(np.array([[0., 1, 1], [2, 0, 0], [0, 0, 0]]))
    r = sparse.csr_matrix(np.array([[1., 0, 2, 0], [0, 0, 0, 0]]))
    r2 = sparse.csr_matrix(np.array([[0., 3, 0, 1], [1, 0, 0, 0]]))
    m = sparse.csr_matrix(np.array([[1., 1], [0, 2], [1, 0]]))
    leaves = {
        'slr': (('slr', r, [(np.array([1., -1]), np.array([1., 0, 2, 1]))], False),
                ('slr', r2, [(np.array([2., 1]), np.array([0., 1, 1, 0])), (np.array([0., 1]), np.array([1., 1, 0, 0]))], False)),
        'reg': (('reg', r, 0.5), ('slr', r2, [(np.array([2., 1]), np.array([0., 1, 1, 0]))], False)),
        'nrm': (('nrm', a, 1), ('nrm', b, 0)),
        'lap': (('lap', a, 0.5, False), ('lap', b, 0, False)),
        'con': (('con', a, True), ('con', b, False)),
        'pol': (('pol', a, [1.0, 2.0, -1.0]), ('pol', b, [0.5, 1.0])),
    }
    for kind, (x, y) in leaves.items():
        prog = [('leaf', x), ('leaf', y), ('add', 0, 1), ('sub', 0, 1), ('mul', 0, 2), ('neg', 0), ('T', 0), ('add', 0, 0)]
        if kind in ('slr', 'reg'):
            prog += [('addcsr', 0, r2), ('ldot', m, 0), ('rdot', 0, sparse.csr_matrix(np.ones((4, 2)))), ('normalize', 0),
                     ('b2u', 0), ('astype', 0, 'float'), ('sub', 2, 0)]
        if kind == 'con':
            prog += [('astype', 0, 'float')]
        yield prog, kind


def small_binary_matrices(max_r=2, max_c=2):
    for r in range(1, max_r + 1):
        for c in range(1, max_c + 1):
            for bits in range(1 << (r * c)):
                d = np.array([[float(bits >> (i * c + j) & 1) for j in range(c)] for i in range(r)])
                yield sparse.csr_matrix(d)


def exhaustive_leaf_exprs():
    """Every leaf class on every 0/1 matrix up to 2x2 (square where the class needs it)."""
    for a in small_binary_matrices():
        r, c = a.shape
        yield ('slr', a, [(np.ones(r), np.arange(1, c + 1, dtype=float))], False)
        yield ('reg', a, 1)
        yield ('nrm', a, 0)
        yield ('nrm', a, 1)
        yield ('con', a, True)
        yield ('con', a, False)
        if r == c:
            yield ('lap', a, 0, False)
            yield ('lap', a, 1, False)
            yield ('lap', a, 0, True)
            yield ('pol', a, [1.0, 2.0, 3.0])


def degenerate_leaf_exprs():
    """Leaves with a dimension 0.  Outside the domain of the definitions (second component False): a Normalizer without
    columns (the regularised matrix `A + reg 1 1^T / n_col` is undefined, numpy gives nan) and a Laplacian without nodes."""
    for r, c in [(2, 0), (0, 2), (0, 0), (1, 0), (0, 1)]:
        a = sparse.csr_matrix((r, c), dtype=float)
        yield ('slr', a, [], False), True
        yield ('slr', a, [(np.ones(r), np.ones(c))], False), True
        yield ('reg', a, 1), True
        yield ('reg', a, 0), True
        yield ('nrm', a, 0), c > 0
        yield ('nrm', a, 1), c > 0
        yield ('con', a, True), True
        yield ('con', a, False), True
        if r == c:
            yield ('lap', a, 1, False), r > 0
            yield ('pol', a, [1.0, 2.0]), True


def cases_degenerate(ctx, rng):
    """Zero-sized dimensions, and 2-d arrays without columns (scipy refuses to stack no column)."""
    out = []
    for leaf, inside in degenerate_leaf_exprs():
        if not inside:
            ctx.count('degenerate:outside-the-domain')
            continue
        out += cases_for_expr(ctx, rng, leaf, full=True)
        ctx.count('degenerate:zero-dimension')
    for leaf in [('slr', sparse.csr_matrix(np.array([[1., 2.], [0., 1.]])), [(np.ones(2), np.ones(2))], False),
                 ('nrm', sparse.csr_matrix(np.array([[1., 2.], [0., 1.]])), 1),
                 ('lap', sparse.csr_matrix(np.array([[1., 2.], [0., 1.]])), 1, False),
                 ('con', sparse.csr_matrix(np.array([[1., 2.], [0., 1.]])), True),
                 ('pol', sparse.csr_matrix(np.array([[1., 2.], [0., 1.]])), [1.0, 2.0])]:
        qs_list = [{'query': q, 'x': probe_desc(np.zeros((2, 0)))} for q in ('dotmat', 'matmat', 'T.dotmat', 'rmatmat')]
        out += cases_for_expr(ctx, rng, leaf, qs_list=qs_list)
        ctx.count('degenerate:array-without-columns')
    return out


def build_cases(ctx):
    rng = ctx.rng
    quick = ctx.quick
    cases = []
    cases += cases_degenerate(ctx, rng)
    # (a) exhaustive small leaves, each with one operation of its class on top
    for leaf in exhaustive_leaf_exprs():
        cases += cases_for_expr(ctx, rng, leaf, full=False)
        ctx.count('expr:exhaustive-leaf')
    if not quick:
        for a in small_binary_matrices(3, 3):
            r, c = a.shape
            if r <= 2 and c <= 2:
                continue
            for leaf in [('slr', a, [(np.ones(r), np.arange(1, c + 1, dtype=float))], False), ('nrm', a, 1), ('con', a, True),
                         ('reg', a, 2)] + ([('lap', a, 1, False), ('pol', a, [1.0, -1.0, 2.0])] if r == c else []):
                cases += cases_for_expr(ctx, rng, leaf, full=False)
                ctx.count('expr:exhaustive-leaf-3x3')
    # (b) random expressions
    n_expr = 600 if quick else 9000
    for i in range(n_expr):
        leaf = rand_leaf(rng, bad=(rng.random() < 0.04))
        depth = rng.choice([0, 1, 1, 2, 2, 3, 3, 4] if quick else [0, 1, 2, 2, 3, 3, 4, 4, 5])
        e = grow(rng, leaf, depth)
        cs = cases_for_expr(ctx, rng, e, full=(rng.random() < 0.5))
        cases += cs
        ctx.count('expr:depth%d' % depth)
        ctx.count('expr:leaf:' + leaf[0])
    # (c) shared operands
    for i in range(12 if quick else 80):
        for kind in ('slr', 'pol', 'con', 'nrm', 'lap'):
            cases += cases_shared(ctx, rng, rand_leaf(rng, kind))
    # (c') operand re-use: programs over operator objects (every class), operands re-evaluated after each operation
    for a_, b_ in fixed_reuse_programs():
        cases += cases_program(ctx, rng, a_)
        ctx.count('reuse:fixed-program')
    for i in range(90 if quick else 900):
        prog = rand_program(rng, rng.randint(2, 5))
        cases += cases_program(ctx, rng, prog)
        ctx.count('reuse:program-length%d' % len(prog))
    # (d) utilities on matrices
    mats = list(small_binary_matrices(2, 2))
    for i in range(60 if quick else 900):
        r, c = (rand_dim(rng),) * 2 if rng.random() < 0.6 else (rand_dim(rng), rand_dim(rng))
        mats.append(rand_matrix(rng, r, c, dtype='float64'))
    mats.append(sparse.csr_matrix(np.array([[-128, 1], [100, 100]], dtype=np.int8)))
    mats.append(sparse.csr_matrix(np.array([[200, 0], [3, 4]], dtype=np.uint8)))
    for i in range(15 if quick else 200):
        r, c = (rand_dim(rng),) * 2 if rng.random() < 0.6 else (rand_dim(rng), rand_dim(rng))
        mats.append(rand_matrix(rng, r, c, dtype=rng.choice(sorted(BOUNDS))))
    for a in mats:
        cases += cases_matrix_utils(ctx, rng, a, full=not quick or rng.random() < 0.3)
        cases += cases_csr_utils(ctx, rng, a, full=not quick or rng.random() < 0.3)
        ctx.count('utils:matrix')
    # (d'') magnitudes far from 1: rescaled matrices against the lines of the unscaled matrix, a weakly attached node,
    #       pseudo-inverse of tiny and huge weights
    cases += cases_pinv_magnitudes(ctx, rng)
    fixed = sparse.csr_matrix(np.array([[0., 1., 1., 0.], [1., 0., 1., 1.], [1., 1., 0., 0.], [0., 1., 0., 0.]]))
    cases += cases_scaled(ctx, rng, fixed, ks=[1e-9, 2.0 ** -40, 1e12], reg=0)
    for i in range(25 if quick else 300):
        r, c = (rand_dim(rng, 2, 5),) * 2 if rng.random() < 0.6 else (rand_dim(rng), rand_dim(rng))
        a = rand_matrix(rng, r, c, mode=rng.choice(['nonneg', 'nonneg', 'binary', 'signed']), dtype='float64')
        if not a.nnz:
            continue
        cases += cases_scaled(ctx, rng, a)
        ctx.count('magnitudes:rescaled-matrix')
        w = weak_node(rng, a)
        if w is not None:
            cases += cases_matrix_utils(ctx, rng, w, full=False)
            leaves = [('nrm', w, 0), ('nrm', w, 1e-9), ('con', _no_hidden_zero(w), True)]
            if r == c and np.all(w.dot(np.ones(c)) > 0):
                leaves.append(('lap', w, 0, True))
            for leaf in leaves:
                cases += cases_for_expr(ctx, rng, leaf, full=False)
            ctx.count('magnitudes:weakly-attached-node')
    # (d') the same entry points on csc / coo / lil matrices
    for i in range(12 if quick else 150):
        r, c = (rand_dim(rng),) * 2 if rng.random() < 0.6 else (rand_dim(rng), rand_dim(rng))
        a = rand_matrix(rng, r, c, mode=rng.choice(['nonneg', 'signed', 'binary']), dtype=rng.choice(['float64', 'float64', 'int64', 'bool']))
        if a.nnz:
            cases += cases_formats(ctx, rng, a)
    # (e) labels
    label_sets = [[0], [-1], [0, 0], [1, 0], [-1, -1], [-2, -5], [2, -1, 2], [0, 3, 3, -1, 1], []]
    for i in range(40 if quick else 800):
        n = rng.randint(1, 8)
        k = rng.randint(1, 5)
        label_sets.append([rng.choice([-1, -1, -3] + list(range(k))) for _ in range(n)])
    for labels in label_sets:
        mx = max(labels) if labels else -1
        for nl in [None, mx + 1, mx + 3, mx]:
            if nl is not None and nl < 0:
                continue
            cases += cases_membership(ctx, rng, labels, nl)
        ctx.count('utils:labels')
    for i in range(30 if quick else 600):
        r, c = rand_dim(rng), rand_dim(rng)
        m = rand_matrix(rng, r, c, mode=rng.choice(['binary', 'messy', 'nonneg']), density=rng.choice([0.2, 0.4]),
                        dtype=rng.choice(['float64', 'bool', 'int64']))
        cases += cases_from_membership(ctx, rng, m)
    # (f) scores
    score_sets = [[], [1.0], [1.0, 1.0], [3, 1, 2], [1, 3, 3, 2, 3], [0, 0, 0, 0]]
    for i in range(40 if quick else 700):
        n = rng.randint(1, 9)
        score_sets.append([rng.choice([0, 1, 2, 3, 0.5, -1, 2.5]) for _ in range(n)])
    for s in score_sets:
        ks = sorted(set([0, 1, len(s), len(s) + 2, max(0, len(s) - 1), rng.randint(0, len(s) + 1)]))
        for k in ks:
            for sort in (True, False):
                cases += cases_topk(ctx, rng, s, k, sort)
        ctx.count('utils:scores')
    # (g) safe_sparse_dot
    for i in range(100 if quick else 2000):
        cases += cases_safe_dot(ctx, rng)
    ctx.exhaustive = False
    return cases


# ----------------------------------------------------------------------------------------------
# source facts (translation): which dispatch-relevant methods each operator class defines itself
# ----------------------------------------------------------------------------------------------
DISPATCH_RELEVANT = {'__neg__', '__add__', '__radd__', '__sub__', '__rsub__', '__mul__', '__rmul__', '__matmul__',
                     '__rmatmul__', '__truediv__', '__pow__', '__call__', '_matvec', '_rmatvec', '_matmat', '_rmatmat',
                     '_transpose', '_adjoint', 'transpose', 'adjoint', 'dot', 'matvec', 'rmatvec', 'matmat', 'rmatmat',
                     'left_sparse_dot', 'right_sparse_dot', 'sum', 'astype', 'T', 'H'}
DISPATCH_FILES = {'SparseLR': 'linalg/sparse_lowrank.py', 'Regularizer': 'linalg/operators.py',
                  'Normalizer': 'linalg/operators.py', 'Laplacian': 'linalg/operators.py',
                  'CoNeighbor': 'linalg/operators.py', 'Polynome': 'linalg/polynome.py'}


SCIPY_COMBINATORS = {'_SumLinearOperator': {'_matvec', '_rmatvec', '_matmat', '_rmatmat', '_adjoint'},
                     '_ScaledLinearOperator': {'_matvec', '_rmatvec', '_matmat', '_rmatmat', '_adjoint'},
                     '_TransposedLinearOperator': {'_matvec', '_rmatvec', '_matmat', '_rmatmat'},
                     '_AdjointLinearOperator': {'_matvec', '_rmatvec', '_matmat', '_rmatmat'}}


def scipy_interface_guard():
    """The model of scipy's generic arithmetic (Op.gsum / gscaled, transposition pushed to the leaves, `.H` re-dispatched)
    mirrors scipy.sparse.linalg._interface of the pinned environment: another layout is a tool failure (the model has to
    be re-read against the new scipy), not a finding about the repository."""
    import scipy.sparse.linalg._interface as itf
    for name, methods in SCIPY_COMBINATORS.items():
        cls = getattr(itf, name, None)
        if cls is None:
            raise ToolFailure('scipy.sparse.linalg._interface has no %s: the model of the generic combinators must be revised' % name)
        own = {m for m in ('_matvec', '_rmatvec', '_matmat', '_rmatmat', '_adjoint', '_transpose') if m in cls.__dict__}
        if own != methods:
            raise ToolFailure('scipy %s defines %s, the model assumes %s' % (name, sorted(own), sorted(methods)))


def dispatch_obligations(ctx):
    """Parse the anchored sources of the working tree (overlay mirror) and let the Lean side compare the class tables
    with the ones the model's dispatch assumes."""
    import ast
    scipy_interface_guard()
    root = os.path.join(ctx.overlay_root, 'sknetwork')
    lines, names = [], []
    for cls, rel in DISPATCH_FILES.items():
        tree = ast.parse(open(os.path.join(root, rel)).read())
        node = next((n for n in tree.body if isinstance(n, ast.ClassDef) and n.name == cls), None)
        if node is None:
            ctx.broken('dispatch:' + cls, 'class %s not found in %s' % (cls, rel), {'entry': cls, 'obligation': 'dispatch'})
            continue
        # every base (a mixin as second base changes the method resolution) and every binding of a dispatch-relevant
        # name in the class body: `def`s, alias assignments (`_adjoint = _transpose`), annotated assignments
        base = '+'.join(ast.unparse(b) for b in node.bases) + ''.join('+' + ast.unparse(k) for k in node.keywords) or '?'
        bound = set()
        for n in node.body:
            if isinstance(n, (ast.FunctionDef, ast.AsyncFunctionDef, ast.ClassDef)):
                bound.add(n.name)
            elif isinstance(n, ast.Assign):
                for t in n.targets:
                    bound.update(x.id for x in ast.walk(t) if isinstance(x, ast.Name))
            elif isinstance(n, (ast.AnnAssign, ast.AugAssign)) and isinstance(n.target, ast.Name):
                bound.add(n.target.id)
        methods = sorted(bound & DISPATCH_RELEVANT)
        lines.append('c15.dispatch %s %s %s' % (cls, base, ','.join(methods) if methods else '-'))
        names.append(cls)
    answers = ctx.lean(lines) if lines else []
    ok = 0
    for cls, ln, a in zip(names, lines, answers):
        if a == 'holds':
            ok += 1
        else:
            ctx.broken('dispatch:' + cls, {'line': ln, 'answer': a,
                                           'what': 'the methods the class defines no longer match the dispatch of the model (Op.neg / add / transpose ...)'},
                       {'entry': cls, 'obligation': 'dispatch'})
    ctx.extra['generated_obligations'] = len(DISPATCH_FILES)
    ctx.extra['generated_discharged'] = ok
    ctx.count('source-facts:dispatch-tables', len(lines))


def corpus_cases(ctx):
    import random
    p = os.path.join(VERIF, 'corpus', 'C15.jsonl')
    out = []
    crng = random.Random(1515)
    if os.path.exists(p):
        for ln in open(p):
            ln = ln.strip()
            if ln and not ln.startswith('#'):
                # corpus lines without stored probes draw them from a generator of their own: the same in every seed
                out += cases_from_payload(ctx, json.loads(ln), rng=crng)
                ctx.count('corpus')
    return out


def run(ctx):
    TIE_SKIPPED[0] = 0
    OUTSIDE[0] = 0
    tie_skip_selftest(ctx)
    dispatch_obligations(ctx)
    cases = corpus_cases(ctx) + build_cases(ctx)
    ctx.count('tie-skipped:normalize-of-inexact-zero-row', TIE_SKIPPED[0])
    ctx.count('outside-domain:astype-int-of-non-integer-duplicate-entries', OUTSIDE[0])
    ctx.extra['tolerance'] = {'TOL': str(TOL), 'rule': '|a - b| <= TOL * (1 + max|b|) per vector / matrix; exact whenever the float64 computation is exact'}
    evaluate(ctx, cases)


# ----------------------------------------------------------------------------------------------
# failing-input search, replay
# ----------------------------------------------------------------------------------------------
def search(ctx, pending):
    """Spec lines over a larger space: the exhaustive leaves with every single operation on top, and fresh random
    expressions around the entries that disagreed."""
    sub = Sub(ctx)
    # (a) the implementation refused an input on which the model of the code (and the dense definition) is defined:
    #     the model's own answer is checked against the specification; if it holds, the refused input is a failing input
    refused = []
    for kind, sig, obj in pending:
        if kind != 'correspondence' or not str(obj.get('impl', '')).startswith('err') or not str(obj.get('model', '')).startswith('ok '):
            continue
        line = obj.get('line') or ''
        toks = line.split(' ')
        spec = None
        if toks[0] == 'c15.dot':
            spec = 'c15.spec_dot %s %s %s' % (' '.join(toks[1:]), obj['model'][3:], TOL_TOK)
        elif toks[0] in ('c15.dotmat', 'c15.mv2d'):
            spec = 'c15.spec_dotmat %s %s %s' % (' '.join(toks[1:]), obj['model'][3:], TOL_TOK)
        elif toks[0] == 'c15.shape':
            spec = 'c15.spec_shape %s %s' % (' '.join(toks[1:]), obj['model'][3:])
        elif toks[0] == 'c15.sum':
            spec = 'c15.spec_sum %s %s %s' % (' '.join(toks[1:]), obj['model'][3:], TOL_TOK)
        if spec:
            refused.append((sig, obj, spec))
    found = []
    if refused:
        answers = ctx.lean([r[2] for r in refused])
        for (sig, obj, spec), a in zip(refused, answers):
            if a == 'holds':
                found.append({'sig': sig, 'case': obj.get('case'),
                              'detail': {'implementation': obj.get('impl'), 'dense_definition_gives': obj.get('model'),
                                         'what': 'the implementation raises on an input for which the denoted dense matrix (and the model of the code) give a result'}})
    if found:
        return found[:5]
    # (b) the run itself already produced failing inputs for the same entry points: they are the failing inputs
    entries = {str(sig.get('entry')) for _, sig, _ in pending}
    from vlib.core import match_finding, load_findings
    recorded = load_findings()
    same = [f for f in getattr(ctx, 'spec_failures', [])
            if str(f['sig'].get('entry')) in entries and match_finding(recorded, 'C15', f['sig']) is None]
    if same:
        return [{'sig': f['sig'], 'case': f['case'], 'detail': f['detail']} for f in same[:5]]
    rng = ctx.rng
    cases = []
    allowed = {'slr': ('neg', 'T', 'mul', 'normalize', 'd2u', 'b2d', 'b2u', 'astype'),
               'reg': ('neg', 'T', 'mul', 'normalize', 'd2u', 'b2d', 'b2u', 'astype'),
               'con': ('neg', 'T', 'mul', 'normalize', 'astype'), 'pol': ('neg', 'T', 'mul'),
               'nrm': ('neg', 'T', 'mul'), 'lap': ('neg', 'T', 'mul', 'astype')}
    for leaf in exhaustive_leaf_exprs():
        for op in allowed[leaf[0]]:
            e = (op, leaf) if op not in ('mul', 'astype') else ((op, leaf, 2) if op == 'mul' else (op, leaf, 'float'))
            o, err = try_build(e)
            if err is None:
                cases += cases_for_expr(ctx, rng, e, full=True)
    for i in range(600):
        e = grow(rng, rand_leaf(rng), rng.randint(0, 3), 0.0)
        cases += cases_for_expr(ctx, rng, e, full=True)
    for a in list(small_binary_matrices(2, 3)) + [rand_matrix(rng, rand_dim(rng), rand_dim(rng), dtype='float64') for _ in range(100)]:
        cases += cases_matrix_utils(ctx, rng, a, full=True) + cases_csr_utils(ctx, rng, a, full=True)
    for n in range(0, 5):
        for k in range(0, n + 2):
            for sort in (True, False):
                cases += cases_topk(ctx, rng, [rng.choice([0, 1, 2]) for _ in range(n)], k, sort)
    evaluate(sub, [c for c in cases if c.spec])
    found = sub.found()
    if not found:
        # a disagreement on a case whose model is the elementary definition is itself a failing input
        for kind, sig, obj in pending:
            if kind == 'correspondence' and obj.get('case') and obj['case'].get('f') in DEFINITIONAL:
                found.append({'sig': sig, 'case': obj['case'], 'detail': {'model': obj.get('model'), 'impl': obj.get('impl')}})
    return found[:5]


DEFINITIONAL = {'get_norms', 'directed2undirected', 'bipartite2directed', 'bipartite2undirected', 'get_tfidf',
                'get_neighbors', 'get_degrees', 'from_membership'}


def cases_from_payload(ctx, case, rng=None):
    """Exactly the recorded case: expression + query + probe, program + checked object + query, utility + arguments."""
    rng = rng or ctx.rng
    if 'expr' in case:
        e = expr_from_desc(case['expr'])
        qs = case.get('qs')
        if qs is None:
            return cases_for_expr(None, rng, e, full=True)            # old corpus lines: every query, fresh probes
        if qs.get('query') == 'inputs-unchanged':
            inputs_unchanged(ctx, e)
            return [make_case(e, {'query': 'shape'}, expr_sig(e, 'shape'), {'expr': case['expr']}, True)]
        return cases_for_expr(None, rng, e, qs_list=[qs])
    if 'program' in case:
        program = [stmt_from_desc(d) for d in case['program']]
        if 'qs' in case and 'checked' in case:
            return cases_program(ctx, rng, program, only={'after': case.get('after', len(program) - 1),
                                                          'checked': case['checked'], 'role': case.get('role'),
                                                          'qs': case['qs']})
        return cases_program(ctx, rng, program)
    if 'shared' in case:
        x = probe_from_desc(case['x']) if isinstance(case.get('x'), dict) else None
        return cases_shared(ctx, rng, expr_from_desc(case['leaf']), only=case['shared'], x=x)
    f = case.get('f')
    if f == 'safe_sparse_dot':
        return [case_safe_dot(operand_from_desc(case['a']), operand_from_desc(case['b']), probe_from_desc(case['probe']))]
    if f == 'diagonal_pseudo_inverse':
        return [case_pinv(case['weights'])]
    if f in ('normalize', 'get_norms', 'get_laplacian', 'directed2undirected',
             'bipartite2directed', 'bipartite2undirected', 'get_tfidf') and 'matrix' in case:
        return cases_matrix_utils(ctx, rng, mat_from_desc(case['matrix']), full=True)
    if f == 'scaled':
        return cases_scaled(ctx, rng, mat_from_desc(case['matrix']), ks=[case['factor']], reg=case['reg'], x=case['x'],
                            only=case['what'])
    if f == 'format-utils':
        m_ = mat_from_desc(case['matrix'])
        return [c_ for c_ in cases_formats(ctx, rng, m_.tocsr()) if c_.sig.get('format') == m_.format]
    if f in ('get_neighbors', 'get_degrees', 'get_weights'):
        return cases_csr_utils(ctx, rng, mat_from_desc(case['matrix']), full=True)
    if f in ('get_membership', 'roundtrip'):
        return cases_membership(ctx, rng, case['labels'], case.get('n_labels'))
    if f == 'from_membership':
        return cases_from_membership(ctx, rng, mat_from_desc(case['matrix']))
    if f == 'top_k':
        return cases_topk(ctx, rng, case['scores'], case['k'], case['sort'])
    return []


def replay(ctx, payload):
    """Re-run exactly the recorded case against the current tree (never a fresh random run)."""
    case = payload.get('case') or {}
    cs = cases_from_payload(ctx, case)
    if not cs and not ctx.spec_failures:
        raise ToolFailure('the replay file describes no case this harness can rebuild: %s' % json.dumps(case)[:300])
    evaluate(ctx, cs)
