"""C06 — modularity is computed as defined; Louvain / Leiden never make it worse.

Correspondence (every case calls the real code from the overlay build of the working tree):
  get_modularity        run : SkNet.Modularity.getModularity in Q, compared within TOL64
                        spec: the documented double sum (Spec/Modularity.lean) on the returned (mod, fit, div)
  optimize_core         run : the kernel model in Float32 on the very arrays the kernel receives (bit patterns);
                              labels and the float32 `increase` compared exactly.  The arrays are (a) built by the
                              harness the way `_optimize` builds them, (b) recorded at the kernel boundary inside
                              tapped fits (`arrays: fit` in the signature): what Louvain._optimize / Leiden._optimize
                              really hand over, on every aggregation level, together with what the kernel returned
  optimize_refine_core  run : the same for the Leiden refinement, the values of libc rand() being the oracle
                              (stream of the seed the kernel receives)
  Louvain.fit/Leiden.fit run: on inputs where float32 arithmetic is exact (total weight a power of two ...)
                              the whole fit (pre-processing, kernels, aggregation, stopping rules) in Q; labels and
                              logged increases compared exactly; elsewhere the model is asked whether it accepts the
                              input (refusals compared both ways)
                        spec: on every input: objective of the kind (documented formula on the input matrix, in Q)
                              >= singletons - EPS32, = singletons + sum of logged increases within EPS32,
                              no cluster across two connected components (above BIG_N nodes with a forest
                              certificate that Lean checks)
Every implementation call runs in a forked worker under an alarm.  A call that outlives its alarm is run again alone
with a longer one: only if it outlives that too is it the answer `hang` (compared with the model's like any other
answer; after MAX_HANGS the rest is not run); if it returns, the machine was slow (`impl:slow`, tool failure beyond
MAX_SLOW).  A crash is the answer `crash N`.  Exceptions: only a ValueError raised by the library is `err ValueError`;
any other exception (of the library or of this harness) is `exc <Class>`, which no model answers.
"""
import ctypes
import json
import math
import os
import re
import signal
from fractions import Fraction

import numpy as np
from scipy import sparse

from vlib import graphs
from vlib.cases import Case, Sub
from vlib.core import enc_list, enc_rat, enc_ratlist, enc_bool, VERIF, ToolFailure

TOL64 = Fraction(1, 10 ** 9)     # float64 paths (DESIGN section 8)
EPS32 = Fraction(2, 10 ** 5)     # float32 kernels: accumulated rounding of the gains (DESIGN section 8)
N_RANDS = 400                    # default number of rand() values handed to the model (see _n_rands)
CALL_TIMEOUT = 15                # seconds allowed to one call of the implementation (inputs have <= 40 nodes)
CALL_TIMEOUT_AFTER_HANG = 5      # once a call has hung (twice: see run_impls), the following ones get this much
RERUN_FACTOR, RERUN_MIN = 4, 20  # a call that outlives its alarm is run again alone with this much more time
MAX_SLOW = 4                     # calls that return on the second attempt tolerated before the run is a tool failure
MAX_HANGS = 6                    # after that many hung / crashed calls the remaining cases are not run

RULE = ('get_modularity: all digraphs n<=3 (loops, sampled weights) x all labelings (one negative label sampled) x '
        '{degree, uniform, custom} x resolutions, rectangular matrices with labels_col, structured random graphs '
        'n<=12, a degenerate stream (empty, mismatched lengths, negative degrees, unknown weights, duplicates, '
        'explicit zeros, dense input); kernels: optimize_core / optimize_refine_core on normalised random graphs '
        '(undirected/directed, self loops, float weights, unsorted rows) x kinds x resolutions x tolerances (zero '
        'included) x initial partitions, and on the arrays recorded at the kernel boundary inside tapped fits (40% of '
        'the fits with <= 40 nodes: first 3 calls of each kernel; zero-tolerance fits on weighted paths / rings of '
        '9..40 nodes: every call, these reach the kernel bound on the passes); fits: all undirected graphs n<=4, '
        'digraphs n=3 and structured graphs n<=16 with total weight forced to a power of two (exact run lines) and '
        'arbitrary weights (spec lines) x {dugue,newman,potts; 25% in the capitalised / upper-case spelling} x '
        'resolutions x tolerances (zero and 1e-7 included everywhere) x n_aggregations {-1,1,2,0} x {square, '
        'bipartite, force_bipartite} x shuffle_nodes / sort_clusters (exact run lines: sort_clusters=False, shuffle for '
        'Louvain only) x return_probs / return_aggregate (20% each) x container {csr 80%, csc, coo, lil, dense} x '
        're-used estimators (12%, same graph or another square / rectangular one), mixed-sign weights, mid-size '
        'graphs of 250..700 nodes (half of them with 2 or 3 components), plus a degenerate stream (one edge, isolated '
        'node, two components, empty, unknown kind, cancelling weights, stored zeros); every matrix in a container '
        'dtype that holds its values (bool, int8, uint8, int16, int32, int64, float32, float64) plus a dtype stream '
        '(bool with reciprocal pairs, narrow integers whose sums wrap); corpus/C06.jsonl first. An evaluation is one '
        'call of the implementation compared with the model and / or judged by the specification (the second, '
        '"accepted?" question on the same call is not counted again; a kernel call recorded in a fit is an evaluation '
        'of its own). Non-trivial: the metric case has a cluster with two nodes and a stored entry; the kernel / fit '
        'case moves at least one node. distinct = distinct (entry point, input, options)')
ASSUMPTIONS = ['scipy sparse products / `+=` / bmat / np.unique are the substrate (monitored through the outputs)',
               'the compiled kernels evaluate float expressions in IEEE binary32 without contraction (the run lines of the kernels compare bit patterns)',
               'optimize_refine_core draws from libc rand(); the harness reads the same stream through ctypes (the seed the kernel receives is observed at the call, or set by the harness when the signature has none)',
               'float32 rounding of the gains is outside the theorems: spec lines allow EPS32 = 2e-5',
               'total weight zero (mixed-sign weights that cancel) is outside the scope: the code divides by zero without raising and the model only covers the two cases of the degenerate stream',
               'the forest certificate of the component clause on graphs above 60 nodes is computed by the harness (scipy pattern, BFS); Lean checks it (sound for any certificate)']

KINDS = ['dugue', 'newman', 'potts']
_libc = ctypes.CDLL('libc.so.6')
_PRISTINE = {}
LOST = {}       # what the run did not look at / had to repeat (made visible in the evidence by `run`)


# ------------------------------------------------------------------------------------------------
# encoding helpers
# ------------------------------------------------------------------------------------------------
def _bits(x):
    return np.ascontiguousarray(np.asarray(x, dtype=np.float32)).view(np.uint32).tolist()


def _f32(bits):
    return np.array(bits, dtype=np.uint32).view(np.float32)


def _enc_csr(shape, indptr, indices, data):
    return '%d %d %s %s %s' % (shape[0], shape[1], enc_list(indptr), enc_list(indices),
                               enc_ratlist(Fraction(float(v)) for v in data))


def _mk_csr(desc):
    """The matrix handed to the implementation: the stored values in the dtype of the description (bool, narrow
    and wide integers, float32, float64); the Lean side always receives the values themselves."""
    shape = tuple(desc['shape'])
    data = np.array(desc['data'], dtype=float).astype(np.dtype(desc.get('dtype', 'float64')))
    a = sparse.csr_matrix((data, np.array(desc['indices'], dtype=np.int32), np.array(desc['indptr'], dtype=np.int32)),
                          shape=shape)
    return a


def _csr_desc(a, dtype='float64'):
    a = sparse.csr_matrix(a)
    return {'shape': [int(a.shape[0]), int(a.shape[1])], 'indptr': [int(x) for x in a.indptr],
            'indices': [int(x) for x in a.indices], 'data': [float(x) for x in a.data], 'dtype': dtype}


DTYPES = ['bool', 'int8', 'uint8', 'int16', 'int32', 'int64', 'float32', 'float64']


def _dtypes_for(values):
    """the dtypes that hold these stored values exactly"""
    vals = [float(v) for v in values]
    out = ['float64']
    if all(float(np.float32(v)) == v for v in vals):
        out.append('float32')
    if all(v == int(v) for v in vals):
        lo, hi = min(vals, default=0), max(vals, default=0)
        out += ['int64', 'int32']
        for name in ('int16', 'int8', 'uint8'):
            info = np.iinfo(name)
            if info.min <= lo and hi <= info.max:
                out.append(name)
        if all(v == 1 for v in vals):
            out.append('bool')
    return out


def _pick_dtype(rng, values, p=0.5):
    if rng.random() >= p:
        return 'float64'
    return rng.choice(_dtypes_for(values))


def _n_rands(n):
    """optimize_refine_core makes at most 100 passes (/repo 695ec4cc) over n nodes and draws at most once per node and
    pass: with 100 n + 1 values the oracle of the model cannot run out"""
    return 100 * n + 1


def _rands(seed, k=N_RANDS):
    _libc.srand(seed)
    out = [_libc.rand() for _ in range(k)]
    _libc.srand(seed)
    return out


def _plain_rand(ctx):
    """The refinement kernel still draws from libc rand() (otherwise the Leiden run lines are replaced by spec lines
    and a note is written).  How Leiden reaches the kernel does not matter: the wrapper is installed on every name of
    `sknetwork.clustering.leiden` bound to the kernel function."""
    root = os.path.join(ctx.overlay_root, 'sknetwork', 'clustering') if getattr(ctx, 'overlay_root', None) else None
    if root is None:
        return True
    try:
        core = open(os.path.join(root, 'leiden_core.pyx')).read()
    except OSError:
        return False
    return 'rand()' in core and 'libc.stdlib' in core


# ------------------------------------------------------------------------------------------------
# the implementation side: every call runs in a forked worker under an alarm, so that a kernel that no longer
# terminates (or crashes) is an answer ('hang' / 'crash') and not a stuck check
# ------------------------------------------------------------------------------------------------
class _Refused(Exception):
    """the library raised ValueError (kept apart from ValueErrors of the harness's own code)"""


def _lib(f, *args, **kw):
    try:
        with np.errstate(all='ignore'):
            return f(*args, **kw)
    except ValueError:
        raise _Refused()


def _impl_modularity(desc):
    from sknetwork.clustering import get_modularity
    a = _mk_csr(desc)
    inp = a.toarray() if desc.get('dense') else a
    labels = np.array(desc['labels'], dtype=int)
    labels_col = None if desc.get('labels_col') is None else np.array(desc['labels_col'], dtype=int)
    w = desc['weights']
    w_arg = np.array(w, dtype=float) if isinstance(w, list) else w
    res = desc['resolution']
    r = _lib(get_modularity, inp, labels, labels_col, weights=w_arg, resolution=res, return_all=True)
    m = _lib(get_modularity, inp, labels, labels_col, weights=w_arg, resolution=res)
    vals = [float(x) for x in r]
    if not all(math.isfinite(v) for v in vals):
        return 'err nonfinite'
    if float(m) != vals[0]:
        return 'return_all-mismatch %r %r' % (float(m), vals[0])
    return 'ok ' + ' '.join(enc_rat(v) for v in vals)


def _kernel_arrays(desc):
    it = np.int64 if desc.get('itype', 'int64') == 'int64' else np.int32
    return dict(
        labels=np.array(desc['labels'], dtype=it), indices=np.array(desc['indices'], dtype=it),
        indptr=np.array(desc['indptr'], dtype=it), data=_f32(desc['data']).copy(),
        ow=_f32(desc['out_weights']).copy(), iw=_f32(desc['in_weights']).copy(),
        oc=_f32(desc['out_cluster_weights']).copy(), ic=_f32(desc['in_cluster_weights']).copy(),
        sl=_f32(desc['self_loops']).copy(),
        cw=(_f32(desc['cluster_weights']).copy() if 'cluster_weights' in desc
            else np.zeros(len(desc['out_cluster_weights']), dtype=np.float32)))


def _impl_core(desc):
    from sknetwork.clustering.louvain_core import optimize_core
    ar = _kernel_arrays(desc)
    lab, inc = optimize_core(ar['labels'], ar['indices'], ar['indptr'], ar['data'], ar['ow'], ar['iw'], ar['oc'],
                             ar['ic'], ar['cw'], ar['sl'], desc['resolution'], desc['tol'])
    return 'ok %s %d' % (enc_list(np.asarray(lab)), _bits([inc])[0])


def _impl_refine(desc):
    from sknetwork.clustering.leiden_core import optimize_refine_core
    ar = _kernel_arrays(desc)
    refined = np.array(desc['refined'], dtype=ar['labels'].dtype)
    args = (ar['labels'], refined, ar['indices'], ar['indptr'], ar['data'], ar['ow'], ar['iw'], ar['oc'], ar['ic'],
            ar['cw'], ar['sl'], desc['resolution'])
    try:
        out = optimize_refine_core(*args, desc['seed'])      # the kernel seeds libc's generator itself
    except TypeError:
        _libc.srand(desc['seed'])                            # signature without the seed argument
        out = optimize_refine_core(*args)
    return 'ok ' + enc_list(np.asarray(out))


MAX_TAPS = 3     # kernel calls recorded per kernel and tapped fit (the first ones); the zero-tolerance stream: all


def _container(a, name):
    """the adjacency in the container the description names (the values and their dtype are those of `a`)"""
    if name in (None, 'csr'):
        return a
    if name == 'dense':
        return a.toarray()
    return getattr(a, 'to' + name)()


def _tap_arrays(n, labels, indices, indptr, data, ow, iw, oc, ic, cw, sl):
    """copy of what a kernel is handed (the kernels work in place), in the form of a kernel description"""
    return {'n': int(n), 'labels': [int(x) for x in labels], 'indices': [int(x) for x in indices],
            'indptr': [int(x) for x in indptr], 'data': _bits(data), 'out_weights': _bits(ow), 'in_weights': _bits(iw),
            'out_cluster_weights': _bits(oc), 'in_cluster_weights': _bits(ic), 'cluster_weights': _bits(cw),
            'self_loops': _bits(sl), 'itype': str(np.asarray(indices).dtype)}


def _impl_fit(desc):
    from sknetwork.clustering import Louvain, Leiden
    import sknetwork.clustering.louvain as lvm
    import sknetwork.clustering.leiden as lm
    import sknetwork.clustering.louvain_core as lvc
    import sknetwork.clustering.leiden_core as lc
    a = _mk_csr(desc)
    fb = bool(desc.get('force_bipartite'))
    bip = fb or a.shape[0] != a.shape[1]
    cls = Louvain if desc['f'] == 'Louvain' else Leiden
    base = int(desc.get('seed', 1))
    shuffle = bool(desc.get('shuffle_nodes'))
    est = _lib(cls, resolution=desc['resolution'], modularity=desc['kind'], tol_optimization=desc['tol_optimization'],
               tol_aggregation=desc['tol_aggregation'], n_aggregations=desc['n_aggregations'], shuffle_nodes=shuffle,
               sort_clusters=bool(desc.get('sort_clusters')), return_probs=bool(desc.get('return_probs')),
               return_aggregate=bool(desc.get('return_aggregate')), random_state=base)
    seeds, taps, seen = [], [], {}
    tap = int(desc.get('tap') or 0)      # how many calls of each kernel are recorded
    # observe the permutation `_pre_processing` draws when shuffle_nodes is set (its fifth result)
    orig_pp = est._pre_processing

    def pre_processing(*args, **kw):
        r = orig_pp(*args, **kw)
        seen['index'] = [int(x) for x in r[4]]
        return r
    est._pre_processing = pre_processing
    # observe, at the kernel boundary: which stream of rand() each refinement draws from (the seed Leiden.fit hands to
    # the kernel, or - signature without a seed - a seed set here just before the call), and, for tapped fits, what
    # the kernels are handed and what they return
    orig_ref = _PRISTINE.setdefault('refine', lc.optimize_refine_core)   # never wrap a wrapper
    orig_core = _PRISTINE.setdefault('core', lvc.optimize_core)

    def refine_recorder(*args, **kw):
        sd = kw.get('seed', args[12] if len(args) > 12 else None)
        if sd is not None and sd >= 0:
            seeds.append(int(sd))
        else:
            sd = (base + 7919 * len(seeds)) % (2 ** 31 - 1)
            seeds.append(sd)
            _libc.srand(sd)
        rec = None
        if not kw and len(args) >= 12 and sum(t['f'] == 'optimize_refine_core' for t in taps) < tap:
            rec = _tap_arrays(len(args[0]), args[0], *args[2:11])
            rec.update(f='optimize_refine_core', refined=[int(x) for x in args[1]], resolution=float(args[11]),
                       seed=int(sd))
        out = orig_ref(*args, **kw)
        if rec is not None:
            rec['impl'] = 'ok ' + enc_list(np.asarray(out))
            taps.append(rec)
        return out

    def core_recorder(*args, **kw):
        rec = None
        if not kw and len(args) == 12 and sum(t['f'] == 'optimize_core' for t in taps) < tap:
            rec = _tap_arrays(len(args[0]), *args[:10])
            rec.update(f='optimize_core', resolution=float(args[10]), tol=float(args[11]))
        out = orig_core(*args, **kw)
        if rec is not None:
            rec['impl'] = 'ok %s %d' % (enc_list(np.asarray(out[0])), _bits([out[1]])[0])
            taps.append(rec)
        return out
    patched = []
    for mod in (lvm, lm):
        for k, v in list(vars(mod).items()):
            if v is orig_ref:
                patched.append((mod, k, orig_ref))
                setattr(mod, k, refine_recorder)
            elif v is orig_core:
                patched.append((mod, k, orig_core))
                setattr(mod, k, core_recorder)
    try:
        refit = desc.get('refit')
        if refit:
            # the estimator has a history: an earlier fit on the same or on another graph
            first = a if refit == 'same' else _mk_csr(refit)
            _lib(est.fit, first, force_bipartite=fb if refit == 'same' else False)
            del seeds[:]
            del taps[:]
            seen.clear()
        _lib(est.fit, _container(a, desc.get('container')), force_bipartite=fb)
    finally:
        for mod, k, v in patched:
            setattr(mod, k, v)
    # the named observable: the 'Increase:' figures recorded in the estimator's `log` attribute
    incs = [float(x) for x in re.findall(r'Increase: (\S+)', est.log)]
    if not all(math.isfinite(x) for x in incs):
        return 'err nonfinite'
    if bip:
        labs = [int(x) for x in est.labels_row_] + [int(x) for x in est.labels_col_]
    else:
        labs = [int(x) for x in est.labels_]
    ans = 'ok %s %s' % (enc_list(labs), enc_ratlist(Fraction(x) for x in incs))
    if desc['f'] == 'Leiden':
        ans += ' seeds=' + enc_list(seeds)
    if shuffle and 'index' in seen:
        ans += ' index=' + enc_list(seen['index'])
    if taps:
        ans += ' taps=' + json.dumps(taps, separators=(',', ':'))
    return ans


_IMPL = {'get_modularity': _impl_modularity, 'optimize_core': _impl_core, 'optimize_refine_core': _impl_refine,
         'Louvain': _impl_fit, 'Leiden': _impl_fit}


def _impl_of(desc):
    try:
        return _IMPL[desc['f']](desc)
    except _Refused:
        return 'err ValueError'
    except Exception as e:  # any other exception class (of the library or of this harness) is reported as such
        return 'exc ' + type(e).__name__


def _worker(descs, start, timeout, w):
    code = 0
    try:
        signal.signal(signal.SIGALRM, signal.SIG_DFL)
        out = os.fdopen(w, 'w')
        for k in range(start, len(descs)):
            signal.alarm(timeout)
            ans = _impl_of(descs[k])
            signal.alarm(0)
            out.write(json.dumps([k, ans]) + '\n')
            out.flush()
        out.close()
    except BaseException:
        code = 3
    finally:
        os._exit(code)


def _collect(descs, start, timeout):
    """Run descs[start:] in one forked worker; returns (answers read, index of the last answer, wait status)."""
    r, w = os.pipe()
    pid = os.fork()
    if pid == 0:
        os.close(r)
        _worker(descs, start, timeout, w)
    os.close(w)
    got, last = {}, start - 1
    with os.fdopen(r) as inp:
        for ln in inp:
            k, ans = json.loads(ln)
            got[k] = ans
            last = k
    _, status = os.waitpid(pid, 0)
    return got, last, status


def run_impls(descs, timeout=None):
    """Implementation answer for every description, computed in forked workers (one alarm per call).
    A call that outlives its alarm is run again, alone, with RERUN_FACTOR times the alarm: when it then returns it was
    the machine, not the code (counted `impl:slow`; beyond MAX_SLOW such calls the run is a tool failure, exit 2 —
    scheduling never becomes an answer); only a call that outlives the second alarm too is the answer `hang`."""
    results = [None] * len(descs)
    start = 0
    timeout = timeout or CALL_TIMEOUT
    lost = 0
    while start < len(descs):
        if lost >= MAX_HANGS:
            for k in range(start, len(descs)):
                results[k] = 'not-run'
            break
        got, last, status = _collect(descs, start, timeout)
        results[start:last + 1] = [got[k] for k in range(start, last + 1)]
        if last + 1 < len(descs):
            k = last + 1
            sig = os.WTERMSIG(status) if os.WIFSIGNALED(status) else 0
            if sig == signal.SIGALRM:
                again, last2, _ = _collect(descs[:k + 1], k, max(RERUN_FACTOR * timeout, RERUN_MIN))
                if last2 == k:
                    results[k] = again[k]
                    LOST['impl:slow'] = LOST.get('impl:slow', 0) + 1
                    if LOST['impl:slow'] > MAX_SLOW:
                        raise ToolFailure('%d calls of the implementation outlived their alarm and returned when run '
                                          'again: the machine is too loaded for this check' % LOST['impl:slow'])
                    start = k + 1
                    continue
                results[k] = 'hang'
                timeout = CALL_TIMEOUT_AFTER_HANG
            else:
                results[k] = 'crash %d' % (sig or os.WEXITSTATUS(status))
            start = k + 1
            lost += 1
        else:
            start = len(descs)
    return results


# ------------------------------------------------------------------------------------------------
# cases from descriptions (a description is what a replay file stores) and the implementation's answer
# ------------------------------------------------------------------------------------------------
def case_modularity(desc, impl):
    a = _mk_csr(desc)
    inp = a.toarray() if desc.get('dense') else a
    labels = desc['labels']
    labels_col = desc.get('labels_col')
    w = desc['weights']
    res = desc['resolution']
    enc = sparse.csr_matrix(inp)          # what check_format builds
    g = _enc_csr(enc.shape, enc.indptr, enc.indices, enc.data)
    if isinstance(w, list):
        wtok = 'c:' + (enc_ratlist(Fraction(float(x)) for x in w) if w else '-')
    else:
        wtok = w.lower() if w.lower() in ('degree', 'uniform') else 'unknown'   # make_weights lower-cases the name
    ltok = enc_list(labels)
    lctok = '_' if labels_col is None else enc_list(labels_col)
    run = 'c06.mod %s %s %s %s %s' % (g, ltok, lctok, wtok, enc_rat(Fraction(res)))
    spec = None
    bip = enc.shape[0] != enc.shape[1]
    stacked = list(labels) + (list(labels_col) if (bip and labels_col is not None) else [])
    if impl.startswith('ok '):
        spec = 'c06.spec_mod %s %s %s %s %s %s' % (g, enc_list(stacked), wtok, enc_rat(Fraction(res)),
                                                   enc_rat(TOL64), impl[3:])
    pos = [x for x in stacked if x >= 0]
    nontriv = impl.startswith('ok') and enc.nnz >= 1 and len(pos) > len(set(pos))
    sig = {'entry': 'get_modularity', 'weights': wtok.split(':')[0], 'bipartite': bool(bip)}
    return Case(('mod', g, ltok, lctok, wtok, res, bool(desc.get('dense'))), sig, run, impl, spec, nontriv,
                dict(desc), canon='mod')


def _kernel_tokens(desc):
    k = len(desc['out_cluster_weights'])
    return [str(desc['n']), enc_list(desc['indptr']), enc_list(desc['indices']), enc_list(desc['data']),
            enc_list(desc['labels'])], [enc_list(desc['out_weights']), enc_list(desc['in_weights']),
                                        enc_list(desc['out_cluster_weights']), enc_list(desc['in_cluster_weights']),
                                        enc_list(desc.get('cluster_weights', [0] * k)),
                                        enc_list(desc['self_loops'])]


def case_core(desc, impl):
    head, tail = _kernel_tokens(desc)
    run = 'c06.core %s %s %d %d' % (' '.join(head), ' '.join(tail), _bits([desc['resolution']])[0],
                                    _bits([desc['tol']])[0])
    moved = impl.startswith('ok') and impl.split(' ')[1] != enc_list(desc['labels'])
    sig = {'entry': 'optimize_core', 'itype': desc.get('itype', 'int64'), 'arrays': desc.get('arrays', 'harness')}
    return Case(('core', run), sig, run, impl, None, moved, dict(desc), canon='kernel')


def case_refine(desc, impl):
    rands = _rands(desc['seed'], _n_rands(desc['n']))
    head, tail = _kernel_tokens(desc)
    run = 'c06.refine %s %s %s %d %s' % (' '.join(head), enc_list(desc['refined']), ' '.join(tail),
                                         _bits([desc['resolution']])[0], enc_list(rands))
    moved = impl.startswith('ok') and impl.split(' ')[1] != enc_list(desc['refined'])
    sig = {'entry': 'optimize_refine_core', 'itype': desc.get('itype', 'int32'),
           'arrays': desc.get('arrays', 'harness')}
    return Case(('refine', run), sig, run, impl, None, moved, dict(desc), canon='refine')


BIG_N = 60      # above this many nodes the spec line uses the per-cluster form of the objective and a component test
                # with a certificate (a forest and the root of every cluster: Lean checks both, sound for any forest)


def _forest(a, fb, labs):
    """BFS forest of the graph of the non-zero entries (either direction; the block form for a biadjacency matrix) and,
    for every cluster label, the root its first member reaches"""
    a = sparse.csr_matrix(a)
    pat = sparse.csr_matrix((a != 0).astype(np.int8))
    if fb or a.shape[0] != a.shape[1]:
        pat = sparse.bmat([[None, pat], [pat.T, None]], format='csr')
    pat = sparse.csr_matrix(pat + pat.T)
    n = pat.shape[0]
    parent, root = list(range(n)), [-1] * n
    for s0 in range(n):
        if root[s0] >= 0:
            continue
        root[s0] = s0
        queue = [s0]
        for u in queue:
            for v in pat.indices[pat.indptr[u]:pat.indptr[u + 1]]:
                v = int(v)
                if root[v] < 0:
                    root[v], parent[v] = s0, u
                    queue.append(v)
    croot = [0] * (max(labs) + 1 if labs else 0)
    seen = set()
    for u, l in enumerate(labs):
        if l not in seen:
            seen.add(l)
            croot[l] = root[u]
    return parent, croot


def case_fit(desc, impl, plain_rand=True):
    """One fit: the main case (exact run line and/or spec line) and, where there is no run line, a second case asking
    the model whether `_pre_processing` accepts the input (refusals are compared both ways)."""
    algo = desc['f']
    a = _mk_csr(desc)
    kind, res = desc['kind'], desc['resolution']
    tol_o, tol_a, n_agg = desc['tol_optimization'], desc['tol_aggregation'], desc['n_aggregations']
    fb = bool(desc.get('force_bipartite'))
    bip = fb or a.shape[0] != a.shape[1]
    n_nodes = a.shape[0] + a.shape[1] if bip else a.shape[0]
    seed = desc.get('seed', 1)
    shuffle, sort = bool(desc.get('shuffle_nodes')), bool(desc.get('sort_clusters'))
    g = _enc_csr(a.shape, a.indptr, a.indices, a.data)
    res32 = Fraction(float(np.float32(res)))
    tol32 = Fraction(float(np.float32(tol_o)))
    seeds, index, taps = None, None, []
    if impl.startswith('ok '):
        if ' taps=' in impl:
            impl, tj = impl.split(' taps=', 1)       # last field: JSON (its strings contain spaces)
            taps = json.loads(tj)
        toks = impl.split(' ')
        for t in toks[3:]:
            if t.startswith('seeds='):
                seeds = [int(x) for x in t[6:].split(',')] if t[6:] != '-' else []
            if t.startswith('index='):
                index = [int(x) for x in t[6:].split(',')] if t[6:] != '-' else []
        impl = ' '.join(toks[:3])
    if impl.startswith('ok '):
        n_labs = 0 if impl.split(' ')[1] == '-' else impl.split(' ')[1].count(',') + 1
        if n_labs != n_nodes:
            # not a labelling of the nodes: an answer no model gives (disagreement), not a request the driver rejects
            impl = 'badshape labels=%d nodes=%d' % (n_labs, n_nodes)
    ktok = kind.lower() if kind.lower() in KINDS else 'other'     # Louvain._pre_processing lower-cases the name
    run = None
    note = None
    if shuffle and impl.startswith('ok ') and index is None:
        note = 'shuffle:index-not-observed'
    if desc.get('exact') and not sort:
        common = '%s %s %s %s %d %s %s' % (ktok, enc_rat(res32), enc_rat(tol32), enc_rat(Fraction(tol_a)), n_agg, g,
                                           enc_bool(fb))
        if algo == 'Louvain' and not shuffle:
            run = 'c06.louvain ' + common
        elif algo == 'Louvain' and (index is not None or not impl.startswith('ok ')):
            # the permutation the random state drew is the oracle of the shuffled model
            run = 'c06.louvain_shuffled %s %s' % (common, enc_list(index if index is not None else range(n_nodes)))
        elif algo == 'Leiden' and not shuffle and plain_rand and (seeds or not impl.startswith('ok ')):
            # one oracle per aggregation: the stream of rand() after srand(seed of that aggregation)
            k = _n_rands(n_nodes)
            run = 'c06.leiden %s %s' % (common, ';'.join(enc_list(_rands(sd, k)) for sd in seeds) if seeds else '-')
        elif algo == 'Leiden' and not shuffle and plain_rand:
            note = 'leiden:no-seed-observed'
    spec = None
    moved = False
    extra = []
    if impl.startswith('ok ') and ktok != 'other':
        _, ltok, itok = impl.split(' ')
        cmd = 'c06.spec_fit_big' if n_nodes > BIG_N else 'c06.spec_fit'
        spec = '%s %s %s %s %s %s %s %s' % (cmd, ktok, enc_rat(res32), g, enc_bool(fb), ltok, itok, enc_rat(EPS32))
        labs = [int(x) for x in ltok.split(',')]
        if n_nodes > BIG_N and len(labs) == n_nodes and min(labs) >= 0:
            parent, croot = _forest(a, fb, labs)
            spec += ' %s %s' % (enc_list(parent), enc_list(croot))
        elif n_nodes > BIG_N:
            spec += ' %s %s' % (enc_list(range(n_nodes)), enc_list(range(n_nodes)))
        moved = len(set(labs)) < len(labs)
    sig = {'entry': algo + '.fit', 'kind': ktok, 'bipartite': bool(bip)}
    if desc.get('refit'):
        sig['refit'] = True
    key = (algo, kind, res, tol_o, tol_a, n_agg, g, fb, seed if (algo == 'Leiden' or shuffle) else 0,
           bool(desc.get('exact')), shuffle, sort, repr(desc.get('refit'))[:40], desc.get('dtype'),
           desc.get('container'), bool(desc.get('return_probs')), bool(desc.get('return_aggregate')))
    # the kernel calls this fit made, as recorded at the kernel boundary: bit-exact against the Float32 models
    for t in taps:
        ans = t.pop('impl')
        t['arrays'] = 'fit'
        extra.append(case_core(t, ans) if t['f'] == 'optimize_core' else case_refine(t, ans))
    if run is None:
        # no model fit to compare with: ask the model whether the input is accepted — compared both ways
        acc = 'c06.accepts %s %s %s' % (ktok, g, enc_bool(fb))
        verdict = 'accepted' if impl.startswith('ok ') else ('refused' if impl.startswith('err') else impl)
        if spec is None:
            return [Case(key, sig, acc, verdict, None, moved, dict(desc))] + extra, note
        extra.append(Case(key + ('accepts',), sig, acc, verdict, None, False, dict(desc), canon='second'))
    return [Case(key, sig, run, impl, spec, moved, dict(desc))] + extra, note


def case_from_desc(desc, impl, plain_rand=True):
    f = desc.get('f')
    if f == 'get_modularity':
        return [case_modularity(desc, impl)], None
    if f == 'optimize_core':
        return [case_core(desc, impl)], None
    if f == 'optimize_refine_core':
        return [case_refine(desc, impl)], None
    if f in ('Louvain', 'Leiden'):
        return case_fit(desc, impl, plain_rand)
    raise ValueError('unknown case description %r' % (f,))


def cases_of(descs, plain_rand=True, timeout=None):
    impls = run_impls(descs, timeout)
    out = []
    for d, i in zip(descs, impls):
        if i == 'not-run':
            LOST['impl:not-run'] = LOST.get('impl:not-run', 0) + 1
            continue
        if i == 'hang' or str(i).startswith('crash'):
            LOST['impl:' + str(i).split(' ')[0]] = LOST.get('impl:' + str(i).split(' ')[0], 0) + 1
        cs, note = case_from_desc(d, i, plain_rand)
        if note:
            LOST[note] = LOST.get(note, 0) + 1
        out += cs
    return out


def _same(c, model, impl, spec_ok):
    if c.canon == 'mod' and model.startswith('ok ') and impl.startswith('ok '):
        ms = [Fraction(x) for x in model.split(' ')[1:]]
        xs = [Fraction(x) for x in impl.split(' ')[1:]]
        return len(ms) == len(xs) and all(abs(m - x) <= TOL64 * (1 + abs(m)) for m, x in zip(ms, xs))
    if c.canon == 'kernel' and model.startswith('ok ') and impl.startswith('ok '):
        # third figure of the model: whether the kernel's bound on the passes ended the loop (informative)
        return model.split(' ')[1:3] == impl.split(' ')[1:3]
    if c.canon == 'refine' and model.startswith('ok ') and impl.startswith('ok '):
        # the model also reports how much of the oracle is left (it must not have run out) and whether the
        # kernel's bound on the passes ended the loop (informative)
        parts = model.split(' ')
        if int(parts[2]) <= 0:
            raise ToolFailure('the oracle of rand() values ran out in %r' % (c.run[:80],))
        return parts[1] == impl.split(' ')[1]
    if model == 'fuel' and impl == 'hang':
        return True     # neither terminates within its budget: termination is C17's subject
    return False


def _clause(spec_answer):
    """which clause of the specification failed: `logged` (the logged increases do not add up to the change of the
    objective), `notworse`, `components`; `value` for get_modularity"""
    for t in str(spec_answer).split(' ')[1:]:
        name, _, val = t.partition('=')
        if name in ('logged', 'notworse', 'components') and val == '0':
            return name
    return 'value'


def evaluate(ctx, cases):
    """vlib.cases.evaluate, with three differences: a second case of the same input (`canon='second'`: the two-way
    refusal question) is not a further evaluation; the signature of a failed spec line names the clause that failed;
    the kernel models' `capped` flag is counted."""
    # the driver is sharded over contiguous blocks of lines: deal the cases out so that the streams (and the few
    # expensive lines: mid-size graphs, fully tapped fits) are spread over all shards
    cases = [c for r in range(12) for c in cases[r::12]]
    lines, idx = [], []
    for c in cases:
        idx.append(len(lines))
        if c.run:
            lines.append(c.run)
        if c.spec:
            lines.append(c.spec)
    answers = ctx.lean(lines)
    for c, i in zip(cases, idx):
        model = answers[i] if c.run else None
        if c.canon == 'second':
            ctx.count('fit:accepts-asked-too')
        else:
            ctx.case(c.key, c.nontrivial, sample={'request': c.run or c.spec, 'model': model, 'impl': c.impl})
            ctx.count('entry:' + str(c.sig.get('entry')))
            ctx.count('answer:' + ('error' if str(c.impl).startswith('err') else 'ok'))
        spec_ok = True
        if c.spec:
            sp = answers[i + (1 if c.run else 0)]
            if sp in ('bad-args', 'bad-certificate') or sp.startswith('unknown-cmd'):
                raise ToolFailure('driver rejected request %r -> %r' % (c.spec[:200], sp))
            if sp != 'holds':
                spec_ok = False
                ctx.spec_fail(dict(c.sig, clause=_clause(sp)), c.desc,
                              {'spec_line': c.spec, 'spec_answer': sp, 'impl': c.impl, 'model': model})
        if not c.run:
            continue
        if model.startswith('unknown-cmd') or model == 'bad-args':
            raise ToolFailure('driver rejected request %r -> %r' % (c.run[:200], model))
        if c.canon in ('kernel', 'refine') and model.startswith('ok ') and model.split(' ')[-1] in ('1', 'true'):
            ctx.count('%s:capped' % c.sig.get('entry'))
        if model != c.impl and not _same(c, model, c.impl, spec_ok) and spec_ok:
            ctx.disagree(c.sig, c.desc, model, c.impl, c.run)


# ------------------------------------------------------------------------------------------------
# generators
# ------------------------------------------------------------------------------------------------
RESOLUTIONS = [1, 0.5, 2, 0, 1.5, 0.25]


def _csr_from(n, es, w, m=None):
    m = n if m is None else m
    if not es:
        return sparse.csr_matrix((n, m), dtype=float)
    a = sparse.csr_matrix((np.asarray(w, dtype=float), ([e[0] for e in es], [e[1] for e in es])), shape=(n, m))
    a.sort_indices()
    return a


def _labelings(n, k=None):
    """all label vectors over 0..k-1 up to nothing (no symmetry reduction: label values matter to get_membership)"""
    k = n if k is None else k
    out = [[]]
    for _ in range(n):
        out = [p + [x] for p in out for x in range(k)]
    return out


def gen_modularity(ctx):
    rng = ctx.rng
    quick = ctx.quick
    descs = []

    def add(a, labels, labels_col=None, weights='degree', res=1, dense=False, dtype=None):
        d = _csr_desc(a, _pick_dtype(rng, sparse.csr_matrix(a).data, 0.4) if dtype is None else dtype)
        d.update(labels=[int(x) for x in labels], labels_col=None if labels_col is None else [int(x) for x in labels_col],
                 weights=weights, resolution=res, dense=dense)
        descs.append(d)

    # exhaustive small digraphs with loops x all labelings
    for n in (1, 2, 3):
        gs = list(graphs.all_digraphs(n, loops=True))
        if n == 3 and quick:
            gs = rng.sample(gs, 60)
        for es in gs:
            w = [rng.choice([1, 1, 2, 3, 0.5]) for _ in es]
            a = _csr_from(n, es, w)
            labs = _labelings(n)
            if n == 3:
                labs = rng.sample(labs, 6 if quick else 27)
            for lab in labs:
                if rng.random() < 0.15:
                    lab = list(lab)
                    lab[rng.randrange(n)] = -1
                wt = rng.choice(['degree', 'degree', 'uniform'])
                add(a, lab, weights=wt, res=rng.choice(RESOLUTIONS))
            ctx.count('mod:exhaustive-digraph')
    # undirected n = 4 exhaustive
    for es in graphs.all_undirected(4, loops=False):
        a = _csr_from(4, es, graphs.sym_weights(rng, es, [1, 2, 3]))
        for lab in rng.sample(_labelings(4), 3 if quick else 12):
            add(a, lab, weights=rng.choice(['degree', 'uniform']), res=rng.choice(RESOLUTIONS))
        ctx.count('mod:exhaustive-undirected4')
    # rectangular (bipartite) matrices, all 0/1 patterns of small shapes
    for nr, nc in [(1, 2), (2, 1), (2, 3), (3, 2)] + ([] if quick else [(1, 3), (3, 1), (2, 4)]):
        pats = list(graphs.all_bipartite(nr, nc))
        if len(pats) > 20 and quick:
            pats = rng.sample(pats, 20)
        for es in pats:
            b = _csr_from(nr, es, [rng.choice([1, 2, 3]) for _ in es], m=nc)
            for _ in range(2):
                k = rng.randint(1, 3)
                add(b, [rng.randrange(k) for _ in range(nr)], [rng.randrange(k) for _ in range(nc)],
                    weights=rng.choice(['degree', 'uniform']), res=rng.choice(RESOLUTIONS))
            ctx.count('mod:bipartite')
    # rectangular matrices with custom node weights, negative labels on either side, duplicates and stored zeros
    for _ in range(40 if quick else 300):
        nr, nc = rng.randint(1, 4), rng.randint(1, 4)
        if nr == nc:
            nc += 1
        es = graphs.random_edges(rng, nr, 0.7, m=nc) or [(0, 0)]
        b = _csr_from(nr, es, [rng.choice([1, 2, 3, 0.5]) for _ in es], m=nc)
        if rng.random() < 0.3:
            # the same entries stored twice / an explicit zero appended (non-canonical CSR)
            coo = b.tocoo()
            rows = list(coo.row) + [coo.row[0]]
            cols = list(coo.col) + [coo.col[0]]
            vals = list(coo.data) + [rng.choice([0.0, 1.0])]
            order = sorted(range(len(rows)), key=lambda k: rows[k])
            indptr = [0] * (nr + 1)
            for r in rows:
                indptr[r + 1] += 1
            for k in range(nr):
                indptr[k + 1] += indptr[k]
            b = sparse.csr_matrix((np.array([vals[k] for k in order]), np.array([cols[k] for k in order]),
                                   np.array(indptr)), shape=(nr, nc))
        k = rng.randint(1, 3)
        lr = [rng.choice(list(range(k)) + [-1]) for _ in range(nr)]
        lc = [rng.choice(list(range(k)) + [-1]) for _ in range(nc)]
        wt = rng.choice(['degree', 'uniform', 'custom'])
        if wt == 'custom':
            wt = [rng.choice([0, 1, 2, 0.5]) for _ in range(nr + nc)]
        add(b, lr, lc, weights=wt, res=rng.choice(RESOLUTIONS), dtype='float64')
        ctx.count('mod:bipartite-custom-negative')
    # structured random graphs
    for name, n, es, w in graphs.suite(rng, 100 if quick else 600, 3, 12, weights=[1, 2, 3, 5, 0.5, 0.25]):
        a = _csr_from(n, es, w)
        if rng.random() < 0.4:
            a = graphs.unsorted_copy(a, rng)
        k = rng.randint(1, max(1, n // 2))
        lab = [rng.randrange(k) for _ in range(n)]
        wt = rng.choice(['degree', 'degree', 'uniform', 'custom'])
        if wt == 'custom':
            wt = [rng.choice([0, 1, 2, 0.5, 3]) for _ in range(n)]
        add(a, lab, weights=wt, res=rng.choice(RESOLUTIONS), dense=rng.random() < 0.2)
        ctx.count('mod:structured:' + name.rstrip('0123456789'))
    # degenerate / malformed stream
    tri = _csr_from(3, [(0, 1), (1, 0), (1, 2), (2, 1)], [1, 1, 2, 2])
    add(sparse.csr_matrix((3, 3), dtype=float), [0, 0, 1])                       # empty -> ValueError
    add(tri, [0, 1])                                                             # length mismatch
    add(tri, [0, 0, 1, 1])
    add(_csr_from(2, [(0, 0), (0, 1), (1, 0)], [1, 1, 1], m=3), [0, 1])           # bipartite without labels_col
    add(_csr_from(2, [(0, 0), (0, 1), (1, 0)], [1, 1, 1], m=3), [0, 1], [0, 1])   # labels_col too short
    add(_csr_from(2, [(0, 0), (0, 1), (1, 0)], [1, 1, 1], m=3), [0, 1], [0, 1, 1])
    add(tri, [0, 0, 1], labels_col=[5, 5, 5])                                    # labels_col ignored when square
    add(_csr_from(3, [(0, 1), (1, 0), (1, 2), (2, 1)], [1, 1, -2, 2]), [0, 0, 1])   # negative degree -> ValueError
    add(_csr_from(3, [(0, 1), (1, 0), (1, 2), (2, 1)], [1, 1, -2, 2]), [0, 0, 1], weights='uniform')
    add(_csr_from(3, [(0, 1), (1, 0), (1, 2), (2, 1)], [1, -1, -2, 2]), [0, 0, 1], weights='uniform')  # total 0
    add(_csr_from(3, [(0, 1), (1, 0), (1, 2), (2, 1)], [3, -1, -1, 1]), [0, 0, 1])   # mixed signs, valid degrees
    add(tri, [0, 0, 1], weights='bogus')
    add(tri, [0, 0, 1], weights='Degree')
    add(tri, [0, 0, 1], weights=[1.0, 2.0])                                      # custom, wrong length
    add(tri, [0, 0, 1], weights=[1.0, 0.0, -1.0])                                # custom, negative
    add(tri, [0, 0, 1], weights=[0.0, 0.0, 0.0])
    add(tri, [0, 0, 1], weights=[1.0, 2.0, 5.0], res=0.5)
    add(tri, [-1, -1, -1])                                                       # no cluster at all
    add(tri, [-2, -2, -2])
    add(tri, [-3, 0, 0])
    add(tri, [7, 7, 2], res=2)                                                   # sparse label values
    add(tri, [0, 0, 1], dense=True)
    # explicit zeros and duplicate entries (non-canonical CSR)
    z = sparse.csr_matrix((np.array([1., 0., 1., 2., 0.]), np.array([1, 2, 0, 2, 1]), np.array([0, 2, 4, 5])), shape=(3, 3))
    add(z, [0, 0, 1])
    add(z, [0, 1, 1], weights='uniform', res=0.5)
    zz = sparse.csr_matrix((np.array([0., 0.]), np.array([1, 0]), np.array([0, 1, 2])), shape=(2, 2))
    add(zz, [0, 0])                                                              # only explicit zeros
    add(zz, [0, 0], weights='uniform')
    dup = sparse.csr_matrix((np.array([1., 2., 3., 1.]), np.array([1, 1, 0, 0]), np.array([0, 2, 4])), shape=(2, 2))
    add(dup, [0, 0])
    add(dup, [0, 1], res=0.5)
    ctx.count('mod:degenerate', 30)
    # the dtypes of the library's own data sets and of user matrices: bool, narrow integers (values that overflow
    # when added in their own dtype), float32
    for _ in range(40 if quick else 300):
        n = rng.randint(2, 9)
        flavour = rng.choice(['bool', 'bool', 'uint8', 'int8', 'int16', 'int32', 'float32'])
        es = graphs.random_edges(rng, n, rng.choice([0.4, 0.7]), directed=rng.random() < 0.6, loops=rng.random() < 0.3)
        if not es:
            continue
        wts = {'bool': [1], 'uint8': [200, 130, 255, 128, 1, 7], 'int8': [100, 127, 64, 90, 1],
               'int16': [20000, 30000, 1, 300], 'int32': [1, 2, 70000, 5], 'float32': [0.5, 1.5, 3, 0.25]}[flavour]
        a = _csr_from(n, es, [rng.choice(wts) for _ in es])
        k = rng.randint(1, max(1, n // 2))
        add(a, [rng.randrange(k) for _ in range(n)], weights=rng.choice(['degree', 'degree', 'uniform']),
            res=rng.choice(RESOLUTIONS), dtype=flavour)
        ctx.count('mod:dtype:' + flavour)
    return descs


def _power_of_two(x):
    return x >= 1 and (int(x) & (int(x) - 1)) == 0 and int(x) == x


def _kind_total(a, kind, bip):
    """total weight w of the adjacency the kind works on (block matrices count B once or twice)"""
    s = float(a.sum())
    if bip and kind != 'dugue':
        return 2 * s
    return s


def _force_pow2(rng, n, es, undirected, m=None, maxw=256):
    """integer weights on the edge list such that the sum of all entries is a power of two (<= maxw) or None"""
    if not es:
        return None
    w = {e: 1 for e in es}
    total = len(es)
    target = 1
    while target < total:
        target *= 2
    if rng.random() < 0.3 and target * 2 <= maxw:
        target *= 2
    if target > maxw:
        return None
    pairs = [e for e in es if (not undirected) or e[0] <= e[1]]
    guard = 0
    while total < target and guard < 10000:
        guard += 1
        e = rng.choice(pairs)
        step = 1
        if undirected and e[0] != e[1]:
            step = 2
        if total + step > target:
            # need a step of 1: a loop in the undirected case
            singles = [p for p in pairs if (not undirected) or p[0] == p[1]]
            if not singles:
                return None
            e = rng.choice(singles)
            step = 1
        w[e] += 1
        if undirected and e[0] != e[1]:
            w[(e[1], e[0])] += 1
        total += step
    if total != target:
        return None
    return [w[e] for e in es]


def exact_domain(a, kind, res, fb):
    """float32 (and float64) arithmetic of the whole fit is exact on this input: see design-notes/status/C06.md"""
    a = sparse.csr_matrix(a)
    if a.nnz == 0 or np.any(a.data == 0) or np.any(a.data != np.round(a.data)):
        return False
    if np.any(a.data < 0) and abs(a).sum() > 64:
        return False        # mixed signs: the magnitudes of the normalised values must stay small
    bip = fb or a.shape[0] != a.shape[1]
    w = _kind_total(a, kind, bip)
    if not _power_of_two(w):
        return False
    k = int(w).bit_length() - 1
    n = a.shape[0] + a.shape[1] if bip else a.shape[0]
    s = k
    if kind == 'potts':
        if not _power_of_two(n):
            return False
        s = n.bit_length() - 1
    r = 0
    fr = Fraction(res)
    while fr.denominator > 1 and r < 8:
        fr *= 2
        r += 1
    if fr.denominator > 1 or res < 0 or res > 4:
        return False
    return max(k + 1, r + 2 * s) <= 19


def _fit_desc(algo, a, kind, res, tol_o, tol_a, n_agg, fb, exact, seed, dtype='float64', shuffle=False, sort=False,
              refit=None, **more):
    d = _csr_desc(a, dtype)
    d.update(f=algo, kind=kind, resolution=res, tol_optimization=tol_o, tol_aggregation=tol_a, n_aggregations=n_agg,
             force_bipartite=fb, exact=bool(exact), seed=seed, shuffle_nodes=bool(shuffle), sort_clusters=bool(sort),
             refit=refit)
    d.update({k: v for k, v in more.items() if v})
    return d


def _other_graph(rng):
    """a small graph an estimator was fitted on before (refit stream)"""
    if rng.random() < 0.3:
        # a biadjacency matrix: the first fit leaves labels_row_ / labels_col_ / bipartite=True behind
        nr, nc = rng.randint(2, 4), rng.randint(5, 7)
        es = graphs.random_edges(rng, nr, 0.6, m=nc) or [(0, 0)]
        return _csr_desc(_csr_from(nr, es, [rng.choice([1, 2]) for _ in es], m=nc))
    n = rng.randint(3, 7)
    es = graphs.structured(rng, rng.choice(['cycle', 'clique', 'star', 'path']), n)
    return _csr_desc(_csr_from(n, es, graphs.sym_weights(rng, es, [1, 2, 0.5])))


FIT_RES = [1, 0.5, 2, 1.5, 0.25, 3]
TOLS = [1e-3, 0, 1e-2, 0.05, 1e-7]      # where float32 arithmetic is exact
# elsewhere float32 rounding turns exact ties into gains of ~4e-8: with a zero tolerance the kernels then run to their
# bound on the passes (/repo 68bb875c, 5e6d9e2b) and Leiden.fit to its `n == n_previous` stop (/repo b2c73765); every
# fit returns, so zero and tiny tolerances are drawn everywhere (less often: such fits are the slow ones)
TOLS_INEXACT = [1e-3, 1e-2, 0.05, 1e-4, 1e-3, 1e-2, 0, 1e-7]
CONTAINERS = ['csc', 'coo', 'lil', 'dense']      # the containers check_format's signature names (dok is refused)
TAP_MAX_NODES = 40


def gen_fits(ctx):
    rng = ctx.rng
    quick = ctx.quick
    descs = []

    def pow2(n, es, undirected, **kw):
        w = _force_pow2(rng, n, es, undirected, **kw)
        if w is None:
            ctx.count('fit:dropped:no-power-of-two-total')
        return w

    def both(a, kind, res, fb=False, exact=None, tol_o=None, tol_a=None, n_agg=None, dtype=None, refit=None,
             plain=False, tap=None):
        ex = exact_domain(a, kind.lower(), res, fb) if exact is None else exact
        dt = _pick_dtype(rng, sparse.csr_matrix(a).data) if dtype is None else dtype
        tol_o = rng.choice(TOLS if ex else TOLS_INEXACT) if tol_o is None else tol_o
        tol_a = rng.choice(TOLS if ex else TOLS_INEXACT) if tol_a is None else tol_a
        n_agg = rng.choice([-1, -1, -1, 1, 2, 0]) if n_agg is None else n_agg    # 0 is never reached: as -1
        shape = sparse.csr_matrix(a).shape
        n_nodes = shape[0] + shape[1] if (fb or shape[0] != shape[1]) else shape[0]
        more = {}
        if not plain:
            if rng.random() < 0.25:
                kind = rng.choice([kind.capitalize(), kind.upper()])     # the documented spelling is capitalised
                ctx.count('fit:kind-capitalised')
            more['return_probs'] = rng.random() < 0.2
            more['return_aggregate'] = rng.random() < 0.2
            if rng.random() < 0.2:
                more['container'] = rng.choice(CONTAINERS)
                ctx.count('fit:container:' + more['container'])
            more['tap'] = tap if tap is not None else (MAX_TAPS if n_nodes <= TAP_MAX_NODES and rng.random() < 0.4 else 0)
            if more['tap']:
                ctx.count('fit:tapped')
        if rng.random() < 0.2 and sparse.csr_matrix(a).nnz:
            a = graphs.unsorted_copy(sparse.csr_matrix(a), rng)      # CSR rows in any order
        if refit is None and not plain and rng.random() < 0.12:
            refit = rng.choice(['same', _other_graph(rng)])
        for algo in ('Louvain', 'Leiden'):
            # shuffle seeds and cluster sorting: everywhere for the spec lines; the exact run lines keep
            # sort_clusters=False, and shuffle only for Louvain (the permutation drawn is the model's oracle)
            if plain:
                shuffle, sort = False, False
            elif ex:
                shuffle, sort = (algo == 'Louvain' and rng.random() < 0.35), False
            else:
                shuffle, sort = rng.random() < 0.5, rng.random() < 0.5
            descs.append(
                _fit_desc(algo, a, kind, res, tol_o, tol_a, n_agg, fb, ex, rng.randrange(1, 10 ** 6), dt,
                          shuffle=shuffle, sort=sort, refit=refit, **more))
            ctx.count('fit:shuffle_nodes=%s' % shuffle)
            ctx.count('fit:sort_clusters=%s' % sort)
        ctx.count('fit:' + ('exact' if ex else 'spec-only'))
        ctx.count('fit:dtype:' + dt)
        if refit:
            ctx.count('fit:refit')

    # all undirected graphs on 4 nodes (with loops sampled): weights forced to a power-of-two total
    g4 = list(graphs.all_undirected(4, loops=True))
    if quick:
        g4 = rng.sample(g4, 120)
    for es in g4:
        w = pow2(4, es, True)
        if w is None:
            continue
        a = _csr_from(4, es, w)
        both(a, rng.choice(KINDS), rng.choice(FIT_RES))
    # digraphs on 3 nodes
    g3 = list(graphs.all_digraphs(3, loops=True))
    for es in rng.sample(g3, 100 if quick else 500):
        w = pow2(3, es, False)
        if w is None:
            continue
        both(_csr_from(3, es, w), rng.choice(KINDS), rng.choice(FIT_RES))
    # structured graphs, exact domain
    kinds_g = graphs.UNDIRECTED_KINDS + graphs.DIRECTED_KINDS
    for name, n, es, _ in graphs.suite(rng, 160 if quick else 1200, 4, 16, kinds=kinds_g):
        undirected = name.rstrip('0123456789') in graphs.UNDIRECTED_KINDS
        kind = rng.choice(KINDS)
        if kind == 'potts' and not _power_of_two(n):
            n2 = 8 if n < 12 else 16
            es = [e for e in es if e[0] < n2 and e[1] < n2]
            n = n2
        w = pow2(n, es, undirected)
        if w is None:
            continue
        a = _csr_from(n, es, w)
        if a.shape[0] != n:
            continue
        both(a, kind, rng.choice(FIT_RES))
        ctx.count('fit:structured:' + name.rstrip('0123456789'))
    # bipartite: rectangular and forced
    for _ in range(60 if quick else 400):
        nr, nc = rng.randint(1, 6), rng.randint(1, 6)
        fb = nr == nc or rng.random() < 0.2
        kind = rng.choice(KINDS)
        if kind == 'potts':
            nr, nc = rng.choice([(2, 2), (3, 5), (4, 4), (2, 6), (1, 3), (5, 3)])
            fb = fb or nr == nc
        es = graphs.random_edges(rng, nr, rng.choice([0.3, 0.5, 0.8]), m=nc)
        w = pow2(nr, es, False, m=nc, maxw=128)
        if w is None:
            continue
        both(_csr_from(nr, es, w, m=nc), kind, rng.choice(FIT_RES), fb=fb)
        ctx.count('fit:bipartite')
    # arbitrary weights: spec lines only
    for name, n, es, w in graphs.suite(rng, 120 if quick else 900, 3, 20, kinds=kinds_g,
                                       weights=[1, 2, 3, 5, 0.5, 0.3, 1.7, 10]):
        a = _csr_from(n, es, w)
        if a.nnz == 0:
            continue
        both(a, rng.choice(KINDS), rng.choice(FIT_RES + [0.7, 1.3]), exact=False)
        ctx.count('fit:weighted:' + name.rstrip('0123456789'))
    for _ in range(25 if quick else 200):
        nr, nc = rng.randint(1, 7), rng.randint(2, 7)
        es = graphs.random_edges(rng, nr, 0.5, m=nc)
        if not es:
            continue
        b = _csr_from(nr, es, [rng.choice([1, 2, 0.5, 3.3]) for _ in es], m=nc)
        both(b, rng.choice(KINDS), rng.choice(FIT_RES), fb=(nr == nc), exact=False)
    # dtype stream: bool adjacency (directed with reciprocal pairs, undirected, bipartite), narrow integers whose sums
    # overflow in their own dtype, int32, float32 — the symmetrised adjacency and the node weights must both be
    # computed on the values, whatever the container's dtype (spec line: objective on the ORIGINAL values)
    for _ in range(60 if quick else 500):
        flavour = rng.choice(['bool-directed', 'bool-directed', 'bool-undirected', 'bool-bipartite', 'uint8', 'uint8',
                              'int8', 'int16', 'int32', 'float32', 'uint8-bipartite'])
        kind = rng.choice(KINDS)
        res = rng.choice([1, 1, 0.5, 2])
        if flavour.endswith('bipartite'):
            nr, nc = rng.randint(2, 6), rng.randint(2, 6)
            es = graphs.random_edges(rng, nr, rng.choice([0.4, 0.7]), m=nc)
            if not es:
                continue
            wts = [1] if flavour.startswith('bool') else [200, 130, 255, 1]
            b = _csr_from(nr, es, [rng.choice(wts) for _ in es], m=nc)
            both(b, kind, res, fb=(nr == nc), dtype=flavour.split('-')[0])
        else:
            n = rng.randint(3, 12)
            if flavour == 'bool-undirected':
                es = graphs.random_edges(rng, n, rng.choice([0.3, 0.6]), directed=False)
            else:
                # dense enough for reciprocal pairs i -> j, j -> i
                es = graphs.random_edges(rng, n, rng.choice([0.4, 0.7]), directed=True, loops=rng.random() < 0.2)
            if not es:
                continue
            wts = {'bool': [1], 'uint8': [200, 130, 255, 128, 1], 'int8': [100, 127, 64, 90, 1],
                   'int16': [20000, 30000, 1], 'int32': [1, 2, 70000], 'float32': [0.5, 1.5, 3]}[flavour.split('-')[0]]
            if flavour == 'bool-undirected':
                w = [1] * len(es)
            elif rng.random() < 0.5:
                w = graphs.sym_weights(rng, es, wts)      # reciprocal pairs carry equal weights: x + x overflows
            else:
                w = [rng.choice(wts) for _ in es]
            both(_csr_from(n, es, w), kind, res, dtype=flavour.split('-')[0])
        ctx.count('fit:dtype-stream:' + flavour)
    # a re-used estimator: the 'Increase:' figures of its log must be those of the fit that produced labels_
    for name, n, es, w in graphs.suite(rng, 24 if quick else 200, 4, 16, kinds=kinds_g, weights=[1, 2, 3, 0.5]):
        a = _csr_from(n, es, w)
        if a.nnz == 0:
            continue
        both(a, rng.choice(KINDS), rng.choice(FIT_RES), exact=False, refit=rng.choice(['same', _other_graph(rng)]))
    # mixed-sign weights with positive degrees, exact domain (scipy's products prune the sums that cancel)
    for _ in range(30 if quick else 300):
        n = rng.randint(3, 8)
        es = graphs.random_edges(rng, n, rng.choice([0.5, 0.8]), directed=rng.random() < 0.5, loops=rng.random() < 0.3)
        if len(es) < 3:
            continue
        a = _mixed_sign(rng, n, es)
        if a is None:
            ctx.count('fit:dropped:no-mixed-sign-draw')
            continue
        both(a, rng.choice(['potts', 'potts', 'newman', 'dugue']), rng.choice([1, 0.5, 2]), dtype='float64')
        ctx.count('fit:mixed-sign')
    # zero / tiny tolerances on inexact inputs (the quantifier says "tolerances")
    for name, n, es, w in graphs.suite(rng, 16 if quick else 150, 3, 14, kinds=kinds_g,
                                       weights=[1, 2, 3, 5, 0.5, 0.3, 1.7]):
        a = _csr_from(n, es, w)
        if a.nnz == 0:
            continue
        both(a, rng.choice(KINDS), rng.choice(FIT_RES), exact=False, tol_o=rng.choice([0, 0, 1e-7, 1e-3]),
             tol_a=rng.choice([0, 0, 1e-7]))
        ctx.count('fit:tol0-inexact')
    # zero tolerances on weighted paths and rings, every kernel call recorded: on the aggregated levels float32 noise
    # moves nodes back and forth until optimize_core's bound of n + 1 passes ends the loop (about one call in 40);
    # the Float32 model must end the same way, bit for bit (its `capped` flag is counted: `optimize_core:capped`)
    for _ in range(50 if quick else 400):
        n = rng.randint(9, 40)
        es = [(i, i + 1) for i in range(n - 1)] + ([(n - 1, 0)] if rng.random() < 0.5 else [])
        es = sorted(es + [(j, i) for i, j in es])
        a = _csr_from(n, es, graphs.sym_weights(rng, es, [1, 2, 3]))
        both(a, rng.choice(KINDS), rng.choice([1, 1, 0, 0.5]), exact=False, tol_o=0, tol_a=0, n_agg=-1, tap=40)
        ctx.count('fit:tol0-paths-rings')
    # mid-size graphs (hundreds of nodes): the float32 drift of the logged increases grows with the number of moves
    for _ in range(3 if quick else 12):
        n = rng.randint(250, 400 if quick else 700)
        es = set()
        for i in range(n):
            for j in (i + 1, i + rng.randint(2, 9), rng.randrange(n)):
                j %= n
                if i != j:
                    es.add((i, j))
                    if rng.random() < 0.8:
                        es.add((j, i))
        if rng.random() < 0.5:
            # two or three components: no edge between the thirds of the node range
            parts = rng.choice([2, 3])
            es = {(i, j) for i, j in es if i * parts // n == j * parts // n}
            ctx.count('fit:mid-size:components=%d' % parts)
        es = sorted(es)
        a = _csr_from(n, es, [rng.choice([1, 2, 3, 0.5, 0.3]) for _ in es])
        both(a, rng.choice(KINDS), rng.choice([1, 0.5, 2, 0.25]), exact=False, tol_o=1e-3, tol_a=1e-3, n_agg=-1,
             dtype='float64')
        ctx.count('fit:mid-size')
    # degenerate stream
    one = _csr_from(2, [(0, 1), (1, 0)], [1, 1])
    both(one, 'dugue', 1, exact=True, plain=True)
    both(_csr_from(1, [(0, 0)], [4]), 'newman', 1, exact=True, plain=True)
    both(_csr_from(3, [(0, 1)], [2]), 'dugue', 1, exact=True, plain=True)          # one directed edge, isolated node
    both(_csr_from(4, [(0, 1), (1, 0), (2, 3), (3, 2)], [1, 1, 1, 1]), 'potts', 0.25, exact=True, plain=True)   # two components
    both(sparse.csr_matrix((3, 3), dtype=float), 'dugue', 1, exact=True, plain=True)    # empty -> ValueError
    both(one, 'modularity', 1, exact=True, plain=True)                             # unknown kind -> ValueError
    # every symmetrised sum cancels: nothing is stored, nothing is divided, the fit returns the singletons
    both(_csr_from(2, [(0, 1), (1, 0)], [1, -1]), 'potts', 1, exact=True, plain=True, tol_a=0)
    both(_csr_from(3, [(0, 1), (1, 0), (1, 2), (2, 1)], [1, -1, 2, -2]), 'potts', 1, exact=True, plain=True, tol_a=0)
    # stored zeros in the input never reach the kernel
    z = sparse.csr_matrix((np.array([1., 0., 1., 0., 2., 2.]), np.array([1, 2, 0, 3, 3, 2]), np.array([0, 2, 3, 4, 6])),
                          shape=(4, 4))
    both(z, 'newman', 3, exact=False)
    both(z, 'potts', 3, exact=False)
    return descs


def _mixed_sign(rng, n, es):
    """integer weights of both signs with total a power of two, sum of absolute values <= 64 and every out- and
    in-degree positive (so that `get_probs` accepts); None when the draw does not fit"""
    for _ in range(20):
        w = [rng.choice([1, 1, 2, 3, -1, -1, -2]) for _ in es]
        a = _csr_from(n, es, w)
        tot = a.sum()
        if tot < 1:
            continue
        target = 1
        while target < tot:
            target *= 2
        # raise one positive entry to reach the power of two
        pos = [k for k, x in enumerate(w) if x > 0]
        if not pos:
            continue
        w[rng.choice(pos)] += int(target - tot)
        a = _csr_from(n, es, w)
        if abs(a).sum() > 64 or a.sum() != target:
            continue
        if np.any(np.asarray(a.sum(axis=1)).ravel() <= 0) or np.any(np.asarray(a.sum(axis=0)).ravel() <= 0):
            continue
        return a
    return None


def _normalised(rng, n, directed, loops, p, weights):
    es = graphs.random_edges(rng, n, p, directed=directed, loops=loops)
    if not es:
        es = [(0, n - 1), (n - 1, 0)] if n > 1 else [(0, 0)]
    if directed:
        w = [rng.choice(weights) for _ in es]
    else:
        w = graphs.sym_weights(rng, es, weights)
    return _csr_from(n, es, w)


def _kernel_desc(rng, a, kind, res, tol, start, itype, unsorted):
    """The arrays Louvain._optimize / Leiden._optimize would hand to the kernel for adjacency `a` (float64, square)."""
    n = a.shape[0]
    tot = a.sum()
    out = np.asarray(a.sum(axis=1)).ravel() / tot
    inn = np.asarray(a.sum(axis=0)).ravel() / tot
    if kind == 'newman':
        inn = out.copy()
    if kind == 'potts':
        out = np.ones(n) / n
        inn = out.copy()
    sym = sparse.csr_matrix(a + a.T)
    sym = sym / sym.data.sum()
    sym = sparse.csr_matrix(sym)
    sym.sort_indices()
    if unsorted:
        sym = graphs.unsorted_copy(sym, rng)
    data = sym.data.astype(np.float32)
    ow = out.astype(np.float32)
    iw = inn.astype(np.float32)
    if start == 'singletons':
        labels = list(range(n))
        k = n
    else:
        k = rng.randint(1, n)
        labels = [rng.randrange(k) for _ in range(n)]
        k = max(labels) + 1
    oc = np.zeros(k, dtype=np.float32)
    ic = np.zeros(k, dtype=np.float32)
    for i, l in enumerate(labels):
        oc[l] += ow[i]
        ic[l] += iw[i]
    return {'n': n, 'indptr': [int(x) for x in sym.indptr], 'indices': [int(x) for x in sym.indices],
            'data': _bits(data), 'labels': labels, 'out_weights': _bits(ow), 'in_weights': _bits(iw),
            'out_cluster_weights': _bits(oc), 'in_cluster_weights': _bits(ic),
            'self_loops': _bits(sym.diagonal().astype(np.float32)), 'resolution': res, 'tol': tol, 'itype': itype}


def gen_kernels(ctx):
    rng = ctx.rng
    quick = ctx.quick
    core, refine = [], []
    wsets = [[1], [1, 2, 3], [1, 2, 3, 5, 0.5, 0.3, 1.7, 10], [0.1, 0.7, 1.3]]
    for t in range(500 if quick else 4000):
        n = rng.randint(2, 14 if quick else 24)
        directed = rng.random() < 0.4
        a = _normalised(rng, n, directed, rng.random() < 0.3, rng.choice([0.15, 0.3, 0.6]), rng.choice(wsets))
        kind = rng.choice(KINDS)
        res = rng.choice([1, 1, 0.5, 2, 1.5, 0.7, 3, 0.1])
        tol = rng.choice([1e-3, 1e-3, 1e-2, 0.05, 1e-4, 1e-5])
        start = 'singletons' if rng.random() < 0.6 else 'random'
        itype = rng.choice(['int64', 'int32'])
        d = _kernel_desc(rng, a, kind, res, tol, start, itype, rng.random() < 0.3)
        d['f'] = 'optimize_core'
        core.append(d)
        ctx.count('kernel:core:' + start)
        if t % 2 == 0:
            # refinement: clusters given (random or singletons merged), refined labels start as singletons
            d2 = _kernel_desc(rng, a, kind, res, tol, 'singletons', 'int32', rng.random() < 0.3)
            k = rng.randint(1, max(1, n // 2))
            d2['labels'] = [rng.randrange(k) for _ in range(n)]
            d2['refined'] = list(range(n))
            d2['seed'] = rng.randrange(1, 10 ** 6)
            d2['f'] = 'optimize_refine_core'
            refine.append(d2)
            ctx.count('kernel:refine')
    # zero tolerance on first-level arrays (weighted paths and rings, random graphs); the calls that run into the
    # kernel's bound on the passes come from the aggregated levels: see the zero-tolerance stream of gen_fits
    for t in range(40 if quick else 300):
        n = rng.randint(6, 24 if quick else 40)
        shape = rng.choice(['path', 'ring', 'random'])
        wts = rng.choice([[1, 2, 3, 5, 0.3, 0.7, 1.7], [0.1, 0.7, 1.3], [1, 3]])
        if shape == 'random':
            a = _normalised(rng, n, rng.random() < 0.4, False, rng.choice([0.15, 0.3]), wts)
        else:
            es = [(i, i + 1) for i in range(n - 1)] + ([(n - 1, 0)] if shape == 'ring' else [])
            es = sorted(es + [(j, i) for i, j in es])
            a = _csr_from(n, es, graphs.sym_weights(rng, es, wts))
        d = _kernel_desc(rng, a, rng.choice(KINDS), rng.choice([1, 0.5, 2, 0, 1.5]), 0.0,
                         'singletons' if rng.random() < 0.8 else 'random', rng.choice(['int64', 'int32']), False)
        d['f'] = 'optimize_core'
        core.append(d)
        ctx.count('kernel:core:tol0:' + shape)
    return core, refine


def build_descs(ctx):
    plain = _plain_rand(ctx)
    if not plain:
        ctx.note('leiden_core no longer draws from libc rand(): Leiden run lines are replaced by spec lines')
    descs = []
    corpus = os.path.join(VERIF, 'corpus', 'C06.jsonl')
    if os.path.exists(corpus):
        for ln in open(corpus):
            ln = ln.strip()
            if ln and not ln.startswith('#'):
                descs.append(json.loads(ln))
                ctx.count('corpus')
    for d in gen_modularity(ctx):
        d['f'] = 'get_modularity'
        descs.append(d)
    core, refine = gen_kernels(ctx)
    descs += core
    if plain:
        descs += refine
    descs += gen_fits(ctx)
    ctx.exhaustive = False
    return descs, plain


def run(ctx):
    LOST.clear()
    descs, plain = build_descs(ctx)
    cases = cases_of(descs, plain)
    for k, v in sorted(LOST.items()):
        ctx.count(k, v)
    if LOST.get('impl:not-run'):
        ctx.note('%d cases were not run: the implementation hung or crashed %d times before' % (
            LOST['impl:not-run'], MAX_HANGS))
    if LOST.get('leiden:no-seed-observed'):
        ctx.note('%d exact Leiden fits without an observed seed of the refinement: compared through spec lines only'
                 % LOST['leiden:no-seed-observed'])
        if LOST['leiden:no-seed-observed'] > 20:
            raise ToolFailure('the wrapper around optimize_refine_core observes no call: the tie of Leiden.fit is lost')
    if LOST.get('shuffle:index-not-observed'):
        ctx.note('%d shuffled fits whose permutation was not observed in `_pre_processing`: spec lines only'
                 % LOST['shuffle:index-not-observed'])
        if LOST['shuffle:index-not-observed'] > 5:
            raise ToolFailure('the wrapper around _pre_processing observes no permutation: the tie of the shuffled '
                              'fits is lost')
    if LOST.get('impl:slow'):
        ctx.note('%d calls outlived their alarm and returned when run again alone' % LOST['impl:slow'])
    evaluate(ctx, cases)


# ------------------------------------------------------------------------------------------------
# failing-input search: the Lean specifications on the implementation over the exhaustive small space
# ------------------------------------------------------------------------------------------------
def search(ctx, pending):
    rng = ctx.rng
    descs = []

    def mod_desc(a, lab, w, res):
        d = _csr_desc(a)
        d.update(f='get_modularity', labels=lab, labels_col=None, weights=w, resolution=res)
        return d
    for n in (2, 3, 4):
        for es in graphs.all_undirected(n, loops=(n <= 3)):
            if not es:
                continue
            a = _csr_from(n, es, graphs.sym_weights(rng, es, [1, 2]))
            for kind in KINDS:
                for res in (1, 0.5, 2):
                    for algo in ('Louvain', 'Leiden'):
                        descs.append(_fit_desc(algo, a, kind, res, 1e-3, 1e-3, -1, False, False, 1))
            for lab in _labelings(n):
                descs.append(mod_desc(a, lab, rng.choice(['degree', 'uniform']), rng.choice([1, 0.5, 2])))
    for es in graphs.all_digraphs(3):
        if not es:
            continue
        a = _csr_from(3, es, [1] * len(es))
        for kind in KINDS:
            for algo in ('Louvain', 'Leiden'):
                descs.append(_fit_desc(algo, a, kind, 1, 1e-3, 1e-3, -1, False, False, 1))
        for lab in _labelings(3):
            descs.append(mod_desc(a, lab, 'degree', 1))
    for nr, nc in [(2, 2), (2, 3)]:
        for es in graphs.all_bipartite(nr, nc):
            if not es:
                continue
            b = _csr_from(nr, es, [1] * len(es), m=nc)
            for kind in KINDS:
                for algo in ('Louvain', 'Leiden'):
                    descs.append(_fit_desc(algo, b, kind, 1, 1e-3, 1e-3, -1, nr == nc, False, 1))
    # histories and shuffles of the estimator
    for es in list(graphs.all_undirected(4))[1::3]:
        if not es:
            continue
        a = _csr_from(4, es, [1] * len(es))
        for algo in ('Louvain', 'Leiden'):
            descs.append(_fit_desc(algo, a, rng.choice(KINDS), 1, 1e-3, 1e-3, -1, False, False, 1, refit='same'))
            descs.append(_fit_desc(algo, a, rng.choice(KINDS), 1, 1e-3, 1e-3, -1, False, False, rng.randrange(1, 99),
                                   shuffle=True, sort=rng.random() < 0.5))
    cases = cases_of(descs, False)
    for c in cases:
        if c.spec is not None:
            c.run = None          # the search judges with the specification only
    sub = Sub(ctx)
    evaluate(sub, [c for c in cases if c.run or c.spec])
    return sub.found()


def replay(ctx, payload):
    case = payload.get('case') or {}
    if not case.get('f'):
        w = payload.get('what_no_longer_checks') or {}
        case = w.get('case') or {}
    if case.get('f'):
        evaluate(ctx, cases_of([case], _plain_rand(ctx)))
    else:
        run(ctx)
