"""Translator for C11: every `prange` loop of a .pyx file, read with Cython's own parser, as a descriptor line.

A descriptor says what a behavioural run cannot see: which variables the loop body stores to, which of them are
`+=`-style reductions, whether the reduction variable is read elsewhere in the body, and for every function called
from the body whether it is defined in the file, declared `nogil`, and stores only to its own local variables.
The Lean side (`SkNet.Topology.PrangeDesc.raceFree`) decides whether the loop is a pure `+` reduction; the
theorem `reduction_schedule_free` then gives parallel = sequential for every schedule.

line format (blank-free tokens):
  <function> <loopvar> <reductions: op:name,... | -> <their declared C types: t,... ('~' for a blank, '?' unknown) | ->
  <other stores: kind:name,... | -> <reads of a reduction var>
  <callees: name:known:nogil:nonlocal_stores:unknown_calls;... | ->
"""
from Cython.Compiler.TreeFragment import parse_from_strings
from Cython.Compiler.Visitor import TreeVisitor
from Cython.Compiler import Nodes, ExprNodes

PURE_BUILTINS = {'range', 'min', 'max', 'abs', 'len', 'int', 'float', 'prange'}
PRANGE_NAMES = {'prange'}     # extended per file with the aliases of `from cython.parallel import prange as X`


def _fname(node):
    d = node.declarator if hasattr(node, 'declarator') else None
    while d is not None and not hasattr(d, 'name'):
        d = getattr(d, 'base', None)
    return getattr(d, 'name', None) or getattr(node, 'name', None)


def _is_nogil(node):
    d = getattr(node, 'declarator', None)
    while d is not None:
        if getattr(d, 'nogil', False):
            return True
        d = getattr(d, 'base', None)
    return False


def _arg_names(node):
    names = []
    d = getattr(node, 'declarator', None)
    while d is not None and not hasattr(d, 'args'):
        d = getattr(d, 'base', None)
    for a in (getattr(d, 'args', None) or getattr(node, 'args', None) or []):
        dd = getattr(a, 'declarator', None)
        while dd is not None and not getattr(dd, 'name', None):
            dd = getattr(dd, 'base', None)
        nm = getattr(dd, 'name', None) or getattr(getattr(a, 'base_type', None), 'name', None)
        if nm:
            names.append(nm)
    return names


def _ctype(bt, declarator):
    """Declared C type of a cdef variable as text (pointers / arrays / memoryviews are not scalars: '?')."""
    if type(bt).__name__ != 'CSimpleBaseTypeNode' or type(declarator).__name__ != 'CNameDeclaratorNode':
        return '?'
    name = bt.name
    if name == 'int':
        name = {0: 'int', 1: 'long', 2: 'long long'}.get(bt.longness, 'int')
        if bt.longness == -1:
            name = 'short'
    if getattr(bt, 'signed', 1) == 0:
        name = 'unsigned ' + name
    return name


class _Collect(TreeVisitor):
    """stores / calls / name reads of a statement tree"""

    def __init__(self):
        super().__init__()
        self.stores = []      # (kind, base name, is_inplace, operator)
        self.calls = []
        self.reads = []
        self.locals = []
        self.ctypes = {}      # declared C type of the cdef variables
        self.pranges = []

    def _target(self, lhs, inplace=False, op=''):
        if isinstance(lhs, ExprNodes.NameNode):
            self.stores.append(('name', lhs.name, inplace, op))
        elif isinstance(lhs, ExprNodes.IndexNode):
            b = lhs.base
            while isinstance(b, (ExprNodes.IndexNode, ExprNodes.AttributeNode)):
                b = b.base if isinstance(b, ExprNodes.IndexNode) else b.obj
            self.stores.append(('index', getattr(b, 'name', '?'), inplace, op))
            self.visit(lhs.index)
            self.visit(lhs.base)
        elif isinstance(lhs, ExprNodes.AttributeNode):
            b = lhs.obj
            while isinstance(b, (ExprNodes.IndexNode, ExprNodes.AttributeNode)):
                b = b.base if isinstance(b, ExprNodes.IndexNode) else b.obj
            self.stores.append(('attr', getattr(b, 'name', '?'), inplace, op))
        elif isinstance(lhs, (ExprNodes.TupleNode, ExprNodes.ListNode)):
            for x in lhs.args:
                self._target(x, inplace, op)
        else:
            self.stores.append(('other', type(lhs).__name__, inplace, op))

    def visit_SingleAssignmentNode(self, node):
        self._target(node.lhs)
        self.visit(node.rhs)

    def visit_CascadedAssignmentNode(self, node):
        for lhs in node.lhs_list:
            self._target(lhs)
        self.visit(node.rhs)

    def visit_InPlaceAssignmentNode(self, node):
        self._target(node.lhs, True, node.operator)
        self.visit(node.rhs)

    def visit_ForInStatNode(self, node):
        self._target(node.target)
        it = node.iterator
        seq = getattr(it, 'sequence', it)
        fn = getattr(seq, 'function', None)
        if fn is not None and (getattr(fn, 'name', None) in PRANGE_NAMES or
                               getattr(fn, 'attribute', None) == 'prange'):
            self.pranges.append(node)
        self.visit(it)
        self.visit(node.body)
        if node.else_clause is not None:
            self.visit(node.else_clause)

    def visit_CVarDefNode(self, node):
        for d in node.declarators:
            dd = d
            while dd is not None and not getattr(dd, 'name', None):
                dd = getattr(dd, 'base', None)
            if dd is not None:
                self.locals.append(dd.name)
                self.ctypes[dd.name] = _ctype(node.base_type, d)
            if getattr(d, 'default', None) is not None:
                self.visit(d.default)

    def visit_SimpleCallNode(self, node):
        self._call(node)

    def visit_GeneralCallNode(self, node):
        self._call(node)

    def _call(self, node):
        fn = node.function
        if isinstance(fn, ExprNodes.NameNode):
            self.calls.append(fn.name)
        elif isinstance(fn, ExprNodes.AttributeNode):
            self.calls.append('.' + fn.attribute)
            self.visit(fn.obj)
        else:
            self.calls.append('?')
        self.visitchildren(node, attrs=[a for a in node.child_attrs if a != 'function'])

    def visit_NameNode(self, node):
        self.reads.append(node.name)

    def visit_Node(self, node):
        self.visitchildren(node)


class _Funcs(TreeVisitor):
    def __init__(self):
        super().__init__()
        self.funcs = {}

    def visit_CFuncDefNode(self, node):
        self.funcs[_fname(node)] = node
        self.visitchildren(node)

    def visit_DefNode(self, node):
        self.funcs[node.name] = node
        self.visitchildren(node)

    def visit_Node(self, node):
        self.visitchildren(node)


def _summary(node):
    c = _Collect()
    c.visit(node.body)
    args = _arg_names(node)
    own = set(c.locals)
    nonlocal_stores = [s for s in c.stores if not (s[0] == 'name' and (s[1] in own or s[1] in args))]
    return c, nonlocal_stores


def _aliases(src):
    """names under which `prange` / `parallel` of cython.parallel are visible in the file"""
    import re
    pr, par = {'prange'}, {'parallel'}
    for m in re.finditer(r'^\s*from\s+cython\.parallel\s+c?import\s+(.+)$', src, flags=re.M):
        for item in m.group(1).replace('(', ' ').replace(')', ' ').split(','):
            toks = item.split()
            if not toks:
                continue
            name, alias = toks[0], (toks[2] if len(toks) >= 3 and toks[1] == 'as' else toks[0])
            if name == 'prange':
                pr.add(alias)
            if name == 'parallel':
                par.add(alias)
            if name == '*':
                pr.add('prange')
                par.add('parallel')
    return pr, par


def _code_lines(src):
    """source lines without comments, strings of one line and import lines (for the textual cross-checks)"""
    import re
    out = []
    in_doc = False
    for ln in src.split('\n'):
        if ln.count('"""') % 2 == 1 or ln.count("'''") % 2 == 1:
            in_doc = not in_doc
            continue
        if in_doc:
            continue
        ln = re.sub(r'#.*$', '', ln)
        ln = re.sub(r'"[^"]*"|\'[^\']*\'', '""', ln)
        if re.match(r'^\s*(from|import|cimport)\b', ln):
            continue
        out.append(ln)
    return out


def describe(path):
    global PRANGE_NAMES
    import re
    src = open(path).read()
    pr_names, par_names = _aliases(src)
    PRANGE_NAMES = pr_names
    tree = parse_from_strings(path.rsplit('/', 1)[-1].split('.')[0], src)
    fs = _Funcs()
    fs.visit(tree)
    out = []
    n_found = [0]
    for fname, fnode in fs.funcs.items():
        c = _Collect()
        c.visit(fnode.body)
        for loop in c.pranges:
            body = _Collect()
            body.visit(loop.body)
            loopvar = getattr(loop.target, 'name', '?')
            reductions = [(s[3], s[1]) for s in body.stores if s[0] == 'name' and s[2]]
            others = [(s[0], s[1]) for s in body.stores if not (s[0] == 'name' and s[2])]
            red_types = [c.ctypes.get(r[1], '?') for r in reductions]
            red_names = {r[1] for r in reductions}
            red_reads = sum(1 for r in body.reads if r in red_names)
            callees = []
            for cal in sorted(set(body.calls)):
                if cal in PURE_BUILTINS:
                    continue
                if cal in fs.funcs:
                    cc, nl = _summary(fs.funcs[cal])
                    unknown = [x for x in cc.calls if x not in PURE_BUILTINS and x != cal]
                    callees.append((cal, 1, 1 if _is_nogil(fs.funcs[cal]) else 0, len(nl) + len(cc.pranges), len(unknown)))
                else:
                    callees.append((cal.replace(':', '_').replace(';', '_'), 0, 0, 0, 0))
            line = ' '.join([
                fname, loopvar,
                ','.join('%s:%s' % r for r in reductions) or '-',
                ','.join(t.replace(' ', '~') for t in red_types) or '-',
                ','.join('%s:%s' % o for o in others) or '-',
                str(red_reads),
                ';'.join('%s:%d:%d:%d:%d' % c for c in callees) or '-'])
            n_found[0] += 1
            out.append({'function': fname, 'loopvar': loopvar, 'reductions': reductions, 'other_stores': others,
                        'reduction_types': red_types, 'reduction_reads': red_reads, 'callees': callees, 'line': line})
    # textual cross-checks: every `for ... in <something>prange(` of the source must have produced a descriptor (a
    # spelling the tree walk does not recognise would otherwise be invisible), and no `parallel(...)` block
    code = _code_lines(src)
    pat = r'\bfor\b.*\bin\b.*(\b(' + '|'.join(re.escape(x) for x in sorted(pr_names)) + r')|\.prange)\s*\('
    n_text = sum(1 for ln in code if re.search(pat, ln))
    if n_text != n_found[0]:
        out.append({'function': '<%d prange loop(s) in the text, %d in the tree>' % (n_text, n_found[0]), 'line': None})
    ppat = r'(\b(' + '|'.join(re.escape(x) for x in sorted(par_names)) + r')|\.parallel)\s*\('
    n_par = sum(1 for ln in code if re.search(ppat, ln))
    if n_par:
        out.append({'function': '<%d parallel() block(s)>' % n_par, 'line': None})
    return out


if __name__ == '__main__':
    import sys
    for d in describe(sys.argv[1]):
        print(d['line'] if d['line'] else d['function'])
