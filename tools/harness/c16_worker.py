"""C16 — job execution shared by the in-process harness and by the fresh-process / thread-count workers.

A *job* is a JSON object describing one deterministic piece of work on the implementation:
  {'kind': 'est', 'cls': name, 'params': {...}, 'history': [op, ...], 'target': input, 'np_seed': s}
      op = {'op': 'fit', 'input': input} | {'op': 'set', 'params': {...}}
      input = {'graph': {shape, indptr, indices, data}, 'labels': {...}|None, 'values': {...}|None, 'kw': {...}}
  {'kind': 'fn', 'fn': name, 'graph': {...}, 'kw': {...}, 'np_seed': s}
The result is a canonical, JSON-able rendering of the object's state after the last fit (every attribute, nested
objects included; `log`s and generator objects left out), floats as hexadecimal strings: equality of results is
bitwise equality.

As a script: reads a JSON list of jobs on stdin, writes the list of results on stdout (used with different
OMP_NUM_THREADS in fresh interpreters).  sys.argv[1] = overlay root to import sknetwork from.
"""
import importlib
import inspect
import json
import sys
import warnings

SKIP_ATTRS = {'log'}


class EnvironmentFailure(Exception):
    """the operating system refused a resource: a failure of the run, never an outcome of the implementation"""

PACKAGES = ['clustering', 'hierarchy', 'embedding', 'ranking', 'classification', 'regression', 'linkpred', 'gnn',
            'linalg']


def canon(v, depth=0):
    import numpy as np
    from scipy import sparse
    if v is None or isinstance(v, (bool, str)):
        return v
    if isinstance(v, int):
        return v
    if isinstance(v, float):
        return 'f:' + v.hex()
    if isinstance(v, np.generic):
        return canon(v.item(), depth)
    if isinstance(v, complex):
        return 'c:%s:%s' % (v.real.hex(), v.imag.hex())
    if isinstance(v, np.ndarray):
        flat = v.ravel()
        if v.dtype.kind == 'f':
            vals = [float(x).hex() for x in flat]
        elif v.dtype.kind in 'iub':
            vals = [int(x) for x in flat]
        else:
            vals = [canon(x, depth + 1) for x in flat.tolist()]
        return {'nd': str(v.dtype), 'shape': list(v.shape), 'v': vals}
    if sparse.issparse(v):
        c = sparse.csr_matrix(v)
        c.sort_indices()
        return {'sp': str(c.dtype), 'shape': list(c.shape), 'indptr': [int(x) for x in c.indptr],
                'indices': [int(x) for x in c.indices], 'data': canon(np.asarray(c.data), depth + 1)['v']}
    if isinstance(v, (list, tuple)):
        return [canon(x, depth + 1) for x in v]
    if isinstance(v, dict):
        return {'dict': [[canon(k, depth + 1), canon(x, depth + 1)] for k, x in sorted(v.items(), key=lambda t: repr(t[0]))]}
    if isinstance(v, (set, frozenset)):
        return {'set': sorted(repr(x) for x in v)}
    if isinstance(v, np.random.RandomState) or type(v).__name__ == 'Generator':
        return {'generator': type(v).__name__}
    if callable(v) and not hasattr(v, '__dict__'):
        return {'callable': getattr(v, '__name__', type(v).__name__)}
    if hasattr(v, '__dict__') and depth < 5:
        return {'obj': type(v).__name__, 'state': state(v, depth + 1)}
    return {'type': type(v).__name__}


def state(obj, depth=0):
    return {k: canon(v, depth) for k, v in sorted(vars(obj).items()) if k not in SKIP_ATTRS}


def outputs(obj):
    """what the accessor methods return after the fit (they may compute, not only hand back an attribute)"""
    out = {}
    for m in ('predict', 'transform', 'predict_proba'):
        f = getattr(obj, m, None)
        if callable(f):
            try:
                out['<%s()>' % m] = canon(f())
            except Exception as e:
                out['<%s()>' % m] = 'err ' + type(e).__name__
    return out


def mk_graph(g):
    import numpy as np
    from scipy import sparse
    m = sparse.csr_matrix((np.array(g['data'], dtype=float), np.array(g['indices'], dtype=np.int32),
                           np.array(g['indptr'], dtype=np.int32)), shape=tuple(g['shape']))
    if g.get('dtype') == 'bool':
        m = m.astype(bool)
    elif g.get('dtype') == 'int':
        m = m.astype(int)
    return m


def estimator_classes():
    """Concrete estimator classes of the public packages: name -> class."""
    from sknetwork.base import Algorithm
    out = {}
    for p in PACKAGES:
        m = importlib.import_module('sknetwork.' + p)
        for nm in dir(m):
            c = getattr(m, nm)
            if inspect.isclass(c) and issubclass(c, Algorithm) and not nm.startswith('Base') and 'fit' in dir(c):
                if c.fit is Algorithm.fit or nm in ('EigSolver', 'SVDSolver', 'RankClassifier'):
                    continue
                out.setdefault(nm, c)
    return out


def _decode_param(v):
    """Parameters that are objects travel as {'__est__': name, 'params': {...}}."""
    if isinstance(v, dict) and '__est__' in v:
        cls = estimator_classes()[v['__est__']]
        return cls(**{k: _decode_param(x) for k, x in v.get('params', {}).items()})
    return v


def construct(name, params):
    cls = estimator_classes()[name]
    return cls(**{k: _decode_param(v) for k, v in params.items()})


def fit_args(name, cls, inp):
    """Positional / keyword arguments of `fit` for one input description."""
    import numpy as np
    g = mk_graph(inp['graph'])
    if inp.get('dense'):
        g = g.toarray()
    kw = dict(inp.get('kw') or {})
    args = [g]
    ps = list(inspect.signature(cls.fit).parameters)[1:]
    if name == 'GNNClassifier':
        n = g.shape[0]
        lab = np.array(inp['labels_array'], dtype=int)
        feats = mk_graph(inp['features']) if inp.get('features') else g
        return [g, feats, lab], kw
    if name == 'LanczosSVD':
        return [g.astype(float), int(inp.get('k', 2))], kw
    if name == 'LanczosEig':
        s = (g + g.T).astype(float) if g.shape[0] == g.shape[1] else (g.T.dot(g)).astype(float)
        return [s, int(inp.get('k', 2))], kw
    if 'labels' in ps and inp.get('labels') is not None:
        if g.shape[0] != g.shape[1] and 'labels_row' in ps and inp.get('labels_row') is not None:
            kw['labels_row'] = {int(k): int(v) for k, v in inp['labels_row'].items()}
        else:
            args.append({int(k): int(v) for k, v in inp['labels'].items()})
    elif 'values' in ps and inp.get('values') is not None:
        args.append({int(k): float(v) for k, v in inp['values'].items()})
    elif 'weights' in ps and inp.get('weights') is not None:
        args.append({int(k): float(v) for k, v in inp['weights'].items()})
    return args, kw


def run_history(job, trace=None):
    """Build the object, replay the history, seed numpy's global generator, fit on the target. -> (result, object)"""
    import numpy as np
    name = job['cls']
    cls = estimator_classes()[name]
    obj = construct(name, job['params']) if trace is None else trace(name, job['params'])
    errors = []
    params_after = dict(job['params'])
    for op in job.get('history') or []:
        if op['op'] == 'set':
            try:
                obj.set_params({k: _decode_param(v) for k, v in op['params'].items()})
                params_after.update(op['params'])
            except Exception as e:
                # Algorithm.set_params assigns the items in order and raises at the first unknown name: what came
                # before it has been applied
                errors.append('set:' + type(e).__name__)
                try:
                    valid = obj.get_params()
                except Exception:
                    valid = {}
                for k, v in op['params'].items():
                    if k not in valid:
                        break
                    params_after[k] = v
        elif op['op'] == 'attr':
            # plain attribute assignment by the user (e.g. `est.random_state = 4`, which set_params refuses)
            for k, v in op['params'].items():
                setattr(obj, k, _decode_param(v))
                params_after[k] = v
        else:
            if op.get('np_seed') is not None:
                np.random.seed(op['np_seed'])
            a, kw = fit_args(name, cls, op['input'])
            try:
                getattr(obj, op['input'].get('entry', 'fit'))(*a, **kw)
            except (OSError, MemoryError) as e:
                raise EnvironmentFailure('%s during %s.fit: %s' % (type(e).__name__, name, str(e)[:200]))
            except Exception as e:      # a failing fit is a legitimate part of a history
                errors.append('fit:' + type(e).__name__)
    if job.get('np_seed') is not None:
        np.random.seed(job['np_seed'])
    a, kw = fit_args(name, cls, job['target'])
    if trace is not None and hasattr(obj, '_c16_start'):
        obj._c16_start()
    returned = None
    entry = job['target'].get('entry', 'fit')
    try:
        r = getattr(obj, entry)(*a, **kw)
        outcome = 'ok'
        if entry != 'fit':
            returned = canon(r)
    except (OSError, MemoryError) as e:
        # the machine refused a resource (fork of a multiprocessing pool under load, memory): not an outcome of the code
        raise EnvironmentFailure('%s during %s.%s: %s' % (type(e).__name__, name, entry, str(e)[:200]))
    except Exception as e:
        outcome = 'err ' + type(e).__name__ + ': ' + ' '.join(str(e).split())[:60]
    if trace is not None and hasattr(obj, '_c16_stop'):
        obj._c16_stop()
    # after a fit that raised, the exception is the result: the attributes are not compared
    st = None
    if outcome == 'ok':
        st = state(obj)
        st.update(outputs(obj))
        if returned is not None:
            st['<return of %s>' % entry] = returned
    return {'outcome': outcome, 'state': st, 'history_errors': errors,
            'params_after': params_after}, obj


def run_fn(job):
    import numpy as np
    g = mk_graph(job['graph'])
    kw = dict(job.get('kw') or {})
    if job.get('np_seed') is not None:
        np.random.seed(job['np_seed'])
    fn = job['fn']
    try:
        if fn == 'count_triangles':
            from sknetwork.topology import count_triangles
            r = count_triangles(g, **kw)
        elif fn == 'get_clustering_coefficient':
            from sknetwork.topology import get_clustering_coefficient
            r = get_clustering_coefficient(g, **kw)
        elif fn == 'get_pagerank':
            from sknetwork.linalg.ppr_solver import get_pagerank
            n = g.shape[0]
            seeds = np.ones(n) / n
            r = get_pagerank(g, seeds, **kw)
        elif fn in ('block_model', 'erdos_renyi', 'albert_barabasi', 'watts_strogatz'):
            from sknetwork.data import models
            r = getattr(models, fn)(**kw)
        elif ':' in fn:
            # generic public function "package.module:name" called on the graph (plus keyword arguments)
            modname, name = fn.split(':')
            f = getattr(importlib.import_module('sknetwork.' + modname), name)
            pos = [g]
            if job.get('labels_from'):
                modn2, cls2 = job['labels_from'].split(':')
                est = getattr(importlib.import_module('sknetwork.' + modn2), cls2)()
                pos.append(est.fit_predict(g))
            r = f(*pos, **kw)
        else:
            raise KeyError(fn)
        return {'outcome': 'ok', 'state': canon(r)}
    except Exception as e:
        return {'outcome': 'err ' + type(e).__name__, 'state': None}


def run_job(job):
    with warnings.catch_warnings():
        warnings.simplefilter('ignore')
        if job['kind'] == 'est':
            return run_history(job)[0]
        return run_fn(job)


def main():
    root = sys.argv[1]
    sys.path.insert(0, root)
    import sknetwork
    import os
    assert os.path.abspath(sknetwork.__file__).startswith(os.path.abspath(root)), sknetwork.__file__
    jobs = json.load(sys.stdin)
    out = []
    for j in jobs:
        try:
            out.append(run_job(j))
        except EnvironmentFailure:
            raise
        except Exception as e:      # never kill the batch
            out.append({'outcome': 'worker-exception ' + type(e).__name__ + ': ' + str(e)[:200], 'state': None})
    json.dump(out, sys.stdout)


if __name__ == '__main__':
    main()
