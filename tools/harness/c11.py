"""C11 — triangle, clique and core computations are exact, sequential or parallel.

Correspondence: every case calls the real function (overlay build of the working tree) and sends
  run  line -> the Lean model (SkNet/Model/Topology.lean: get_dag loop, merge loop, prange reduction under a
               static schedule, MinHeap + compute_core, ListingBox + count_cliques_from_dag) computes the answer;
               compared exactly (the clustering coefficient within the float64 tolerance of DESIGN section 8)
  spec line -> the Lean specification (SkNet/Spec/Topology.lean: brute-force clique count, core number by
               exhaustive pruning, connected triples) is evaluated on the implementation's own output
Parallel clause: `parallelize=True` in-process, and a sweep over OMP_NUM_THREADS in fresh sub-processes whose
answers must equal the sequential answer of this process.
The `prange` loop of triangles.pyx is translated on every run (Cython's parser) into a descriptor whose
race-freedom is decided by the Lean side (`generate`, `c11.prange`).
"""
import json
import math
import os
import subprocess
import sys
from fractions import Fraction

import numpy as np
from scipy import sparse

from vlib import graphs
from vlib.cases import Case, Sub, evaluate as _evaluate
from vlib.core import enc_csr, enc_list, enc_rat, ToolFailure, VERIF

RULE = ('all undirected simple graphs n<=4 with every function, every clique size k in 2..n+1 and the DAG comparison; '
        'n=5: all 1024 labelled graphs with triangles / clustering / core and k in {3,4}, a random quarter of them (quick; '
        'all in thorough) with every k in 2..6 and the DAG comparison; n=6 (thorough): all graphs, k in {2,3,4} and one of '
        '{5,6,7} (sampled); refused k<2 and non-square matrices; structured and random graphs 6<=n<=40 (onion, '
        'preferential attachment, dense blocks, multipartite, G(n,p), relabelled copies) with k in {2,3,4,5} plus sampled '
        'larger k; storage variants of the same graphs (unsorted rows, integer / fractional float32 weights, bool / int64 '
        'values, stored zeros, duplicate entries); dense graphs n=6..8 (k=3,4,5); near-complete and complete multipartite '
        'graphs n=8..11 (thorough 14) with every k in 2..n+1; a degenerate stream outside "undirected simple" (directed, '
        'self-loops, negative and cancelling weights, cancelling duplicates, n<=5) that ties the model to the code; hubs '
        '(a node of degree >= 46341, where degree^2 passes 2^31); thread sweep OMP_NUM_THREADS in {1,2,3,5,8,16} in '
        'sub-processes. A case is non-trivial when the graph has at least one edge (triangles/cliques: at least one path of '
        'length two); distinct = distinct (function, graph, arguments)')
ASSUMPTIONS = ['scipy csr construction / + / .T / astype / tocoo / tocsr / sum_duplicates / eliminate_zeros are the '
               'substrate (the DAG handed to the kernels is compared with the model\'s on every graph)',
               'np.argsort returns a permutation (checked by a contract line; the clique count of a symmetric matrix is '
               'independent of it: cliques_order_free)',
               'integer widths, not modelled: index arrays of the DAG are int32 (scipy below 2^31 stored entries; int64 '
               'index arrays of the *input* are accepted since repair c080841f and generated), hence degrees < 2^31 and, '
               'since repair dc1060d3, the int64 products degree*(degree-1) and their sum cannot overflow; the `long` '
               'triangle / clique counters stay below 2^63; clique sizes k < 2^31 (labels int32 since repair 3c08572a; '
               'k = 32768 is generated)',
               'containers: the four functions are called on scipy csr_matrix only (count_triangles / the coefficient refuse '
               'csc / coo / ndarray, the two others convert them: container formats are C01\'s)',
               'OpenMP implements `+` reduction of a prange as: private copies initialised to 0, combined in an '
               'unspecified order (the model quantifies over all assignments and all combination trees); that the compiled '
               'loop is parReduce of some valid schedule is the reading of the race-free descriptor, not a theorem',
               'the hub graphs (47 000 nodes) are beyond the brute-force specification: their triangle count is the closed '
               'form (one per extra edge of the star) and the coefficient is evaluated by the Lean side from that count '
               'and the exact degree sequence (clusteringFromDegrees = clusteringSpec: clusteringSpec_from_degrees)']
os.environ.setdefault('OMP_WAIT_POLICY', 'passive')   # libgomp is loaded later, with the overlay's kernels
TOL = 1e-12          # clustering coefficient: one float64 division of two exactly known integers (DESIGN section 8
                     # allows 1e-9; two distinct values of 3t/T with T <= 3e4 can be that close)
THREADS = [1, 2, 3, 5, 8, 16]


# ---------------------------------------------------------------------------------------------
# helpers
# ---------------------------------------------------------------------------------------------
def _call(f):
    """Run the implementation; *every* exception class becomes `err <Class>` (an exception on an in-scope input is
    a failing input, on a refused input it is compared with the model's refusal)."""
    try:
        return f()
    except Exception as e:   # noqa: BLE001 - MemoryError / OverflowError / AssertionError ... included on purpose
        return 'err ' + type(e).__name__


def _sym_pattern(a):
    """The undirected simple graph the functions are about: the non-zero entries of A + A^T (duplicates summed, so
    cancelling weights are no edge), loops dropped."""
    b = sparse.csr_matrix(a).astype(float)
    b = sparse.csr_matrix((b.data.copy(), b.indices.copy(), b.indptr.copy()), shape=b.shape)
    b.sum_duplicates()
    b = sparse.csr_matrix(b + b.T)
    b.setdiag(0)
    b.eliminate_zeros()
    b.sort_indices()
    b.data[:] = 1.0
    return b


def _is_simple(a):
    """symmetric, loop-free, every stored entry >= 0 (stored zeros and duplicate entries allowed)"""
    b = sparse.csr_matrix(a).astype(float)
    b = sparse.csr_matrix((b.data.copy(), b.indices.copy(), b.indptr.copy()), shape=b.shape)
    b.sum_duplicates()
    b.eliminate_zeros()
    if b.shape[0] != b.shape[1]:
        return False
    if a.nnz and not (np.asarray(sparse.csr_matrix(a).data, dtype=float) >= 0).all():
        return False      # a negative stored entry (even one that a duplicate cancels) is not a simple graph's storage
    return bool(abs(b - b.T).nnz == 0 and b.diagonal().sum() == 0 and (b.nnz == 0 or (b.data > 0).all()))


def _pat(a):
    return '%d %s %s' % (a.shape[0], enc_list(a.indptr), enc_list(a.indices))


def _gdesc(a):
    d = {'shape': list(a.shape), 'indptr': a.indptr.tolist(), 'indices': a.indices.tolist(),
         'data': [float(x) for x in a.data], 'dtype': str(a.dtype)}
    if a.indices.dtype != np.int32 or a.indptr.dtype != np.int32:
        d['index_dtype'] = str(a.indices.dtype)
    return d


def _from_desc(gd):
    dt = {'bool': bool, 'int64': np.int64, 'int32': np.int32, 'float32': np.float32}.get(gd.get('dtype'), float)
    a = sparse.csr_matrix((np.array(gd['data']).astype(dt), np.array(gd['indices'], dtype=np.int32),
                           np.array(gd['indptr'], dtype=np.int32)), shape=tuple(gd['shape']))
    if gd.get('index_dtype') == 'int64':
        a.indices = a.indices.astype(np.int64)
        a.indptr = a.indptr.astype(np.int64)
    return a


def _enc_float(x):
    x = float(x)
    if math.isnan(x):
        return 'nan'
    if math.isinf(x):
        return 'inf'
    return enc_rat(x)


def _mk(n, es, w=None, dtype=float):
    if not es:
        return sparse.csr_matrix((n, n), dtype=dtype)
    data = np.ones(len(es)) if w is None else np.asarray(w, dtype=float)
    a = sparse.csr_matrix((data, ([e[0] for e in es], [e[1] for e in es])), shape=(n, n))
    a.sum_duplicates()
    a.sort_indices()
    return a.astype(dtype)


def _has_wedge(s):
    d = np.diff(s.indptr)
    return bool((d >= 2).any())


# ---------------------------------------------------------------------------------------------
# crash isolation: the implementation is called in a forked child; a child killed by a signal (segfault, abort
# of the allocator after a heap overflow ...) is a failing input (the one in progress), not a tool failure
# ---------------------------------------------------------------------------------------------
_PROGRESS_FILE = None


def _progress(desc):
    if _PROGRESS_FILE is not None:
        with open(_PROGRESS_FILE, 'w') as fh:
            json.dump(desc, fh)


class StreamList(list):
    """A list of cases whose `+=` also streams the chunk to the parent (so that the cases evaluated before a crash
    of the implementation are not lost)."""

    def __iadd__(self, other):
        other = list(other)
        if _STREAM is not None and other:
            import pickle
            pickle.dump([_raw(c) for c in other], _STREAM)
            _STREAM.flush()
        list.extend(self, other)
        return self


_STREAM = None


def _raw(c):
    return (c.key, c.sig, c.run, c.impl, c.spec, c.nontrivial, c.desc, c.canon, c.tol)


def in_child(ctx, fn):
    """Run fn() (which accumulates its cases in a StreamList) in a forked child. Returns (cases, crash) where
    crash is None or {'signal': n, 'case': <description of the input in progress>}; the cases built before a
    crash are returned as well."""
    global _PROGRESS_FILE, _STREAM
    import pickle
    import tempfile
    d = os.path.join(VERIF, '.cache', 'c11_tmp')
    os.makedirs(d, exist_ok=True)
    fd, out = tempfile.mkstemp(dir=d, suffix='.pkl')
    os.close(fd)
    prog = out + '.progress'
    sys.stdout.flush()
    sys.stderr.flush()
    pid = os.fork()
    if pid == 0:
        code = 0
        try:
            _PROGRESS_FILE = prog
            _STREAM = open(out, 'wb')
            res = fn()
            if not isinstance(res, StreamList):
                pickle.dump([_raw(c) for c in res], _STREAM)
            pickle.dump({'dist': ctx.dist, 'n_cases': len(res)}, _STREAM)
            _STREAM.close()
        except BaseException:
            import traceback
            with open(out + '.err', 'w') as fh:
                fh.write(traceback.format_exc())
            code = 3
        finally:
            os._exit(code)
    import time as _time
    deadline = _time.time() + (600 if ctx.quick else 3000)
    while True:
        wpid, status = os.waitpid(pid, os.WNOHANG)
        if wpid != 0:
            break
        if _time.time() > deadline:
            os.kill(pid, 9)
            os.waitpid(pid, 0)
            for f in (out, prog, out + '.err'):
                if os.path.exists(f):
                    os.remove(f)
            raise ToolFailure('timeout: the case builder (implementation calls) did not finish in time')
        _time.sleep(0.05)
    try:
        if not os.WIFSIGNALED(status) and os.WEXITSTATUS(status) != 0:
            err = open(out + '.err').read() if os.path.exists(out + '.err') else 'exit %d' % os.WEXITSTATUS(status)
            raise ToolFailure('case builder failed in the child process:\n' + err[-3000:])
        cases = []
        trailer = None
        with open(out, 'rb') as fh:
            while True:
                try:
                    chunk = pickle.load(fh)
                except (EOFError, pickle.UnpicklingError):
                    break
                if isinstance(chunk, dict):
                    trailer = chunk
                    for k, v in chunk['dist'].items():
                        ctx.dist[k] = v
                else:
                    cases += [Case(*r) for r in chunk]
        if not os.WIFSIGNALED(status) and (trailer is None or trailer.get('n_cases') != len(cases)):
            raise ToolFailure('truncated result stream from the case builder: %d cases read, trailer %r' % (
                len(cases), None if trailer is None else trailer.get('n_cases')))
        crash = None
        if os.WIFSIGNALED(status):
            case = json.load(open(prog)) if os.path.exists(prog) else {}
            crash = {'signal': os.WTERMSIG(status), 'case': case}
        return cases, crash
    finally:
        for f in (out, prog, out + '.err'):
            if os.path.exists(f):
                os.remove(f)


def report_crash(ctx, crash):
    case = crash['case'] or {'f': 'unknown'}
    ctx.spec_fail({'entry': 'crash', 'signal': crash['signal']}, case,
                  {'what': 'the implementation was killed by signal %d while processing this input' % crash['signal']})


# ---------------------------------------------------------------------------------------------
# cases of one graph
# ---------------------------------------------------------------------------------------------
REFUSED = 'c11.spec_refused x'


def cases_for_graph(ctx, a, rng, name='', simple=True, ks=None, funcs=('tri', 'cc', 'core', 'cliques', 'dag'),
                    storage=None):
    """Request lines for one square csr matrix.
    simple=True : `a` represents an undirected simple graph (symmetric, loop-free, positive once duplicates are
                  summed and stored zeros dropped — any storage: unsorted rows, stored zeros, duplicate entries, any
                  value dtype): every function is in the scope of the property; spec lines everywhere, and an
                  exception is a failing input (`c11.spec_refused`).
    simple=False: directed / self-loop / negative or cancelling weights: run lines tie the model to the code; spec
                  lines only where the named quantity is defined: triangles of `A + A^T != 0`; the clustering
                  coefficient and the core numbers when the graph is loop-free (and, for cores, symmetric)."""
    from sknetwork.topology import count_triangles, count_cliques, get_core_decomposition, get_clustering_coefficient
    from sknetwork.path import get_dag
    n = a.shape[0]
    g = enc_csr(a)
    s = _sym_pattern(a)
    sp = _pat(s)
    gd = _gdesc(a)
    _progress({'f': 'all', 'graph': gd, 'name': name, 'funcs': list(funcs), 'ks': None if ks is None else list(ks),
               'simple': bool(simple)})
    out = []
    nontriv = s.nnz > 0
    wedge = _has_wedge(s)
    scope = 'simple' if simple else 'outside-simple'
    if storage is None:
        storage = name.split(':', 1)[1].split(':')[0] if ':' in name else 'canonical'
    if simple:
        loopfree = symmetric = True
    else:
        c = sparse.csr_matrix(a).astype(float)
        c = sparse.csr_matrix((c.data.copy(), c.indices.copy(), c.indptr.copy()), shape=c.shape)
        c.sum_duplicates()
        c.eliminate_zeros()
        loopfree = not (c.diagonal() != 0).any()
        pat = sparse.csr_matrix(((c.data != 0).astype(float), c.indices, c.indptr), shape=c.shape)
        raw = sparse.csr_matrix(a).astype(float)
        anyp = sparse.csr_matrix(((raw.data != 0).astype(float), raw.indices.copy(), raw.indptr.copy()), shape=raw.shape)
        anyp.sum_duplicates()
        anyp.eliminate_zeros()
        anyp.data[:] = 1.0            # get_dag: astype(bool) entry by entry, so (1, -1) stored twice is an edge
        # symmetric pattern that is also the pattern of A + A^T and of the stored non-zero entries (no cancellation
        # between the two directions nor between duplicate entries)
        symmetric = (abs(pat - pat.T).nnz == 0 and (pat.nnz - int((c.diagonal() != 0).sum())) == s.nnz
                     and abs(anyp - pat).nnz == 0)
    if 'tri' in funcs:
        for par in (False, True):
            impl = _call(lambda: 'ok %d' % count_triangles(a, parallelize=par))
            t = rng.choice([1, 2, 3, 4, 7]) if par else 0
            run = 'c11.tri %s %d' % (g, t)
            spec = None
            if impl.startswith('ok '):
                spec = 'c11.spec_cliques %s 3 %s' % (sp, impl[3:])
            elif simple:
                spec = REFUSED
            out.append(Case(('tri', g, par), {'entry': 'count_triangles', 'parallelize': par, 'scope': scope, 'storage': storage}, run, impl,
                            spec, wedge, {'f': 'count_triangles', 'graph': gd, 'parallelize': par, 'name': name}))
    if 'cc' in funcs:
        par = rng.random() < 0.5

        def f_cc():
            import warnings
            with warnings.catch_warnings():
                warnings.simplefilter('ignore')
                return 'ok ' + _enc_float(get_clustering_coefficient(a, parallelize=par))
        impl = _call(f_cc)
        run = 'c11.cc %s %d' % (g, rng.choice([2, 3, 5]) if par else 0)
        spec = None
        if impl.startswith('ok ') and loopfree:
            spec = 'c11.spec_cc %s %s' % (sp, impl[3:])
        elif simple:
            spec = REFUSED
        out.append(Case(('cc', g, par), {'entry': 'get_clustering_coefficient', 'parallelize': par, 'scope': scope,
                                     'storage': storage}, run, impl, spec, wedge,
                        {'f': 'get_clustering_coefficient', 'graph': gd, 'parallelize': par, 'name': name},
                        canon='float'))
    if 'core' in funcs:
        impl = _call(lambda: 'ok ' + enc_list(get_core_decomposition(a)))
        run = 'c11.core %s' % g
        spec = None
        if impl.startswith('ok ') and loopfree and symmetric:
            spec = 'c11.spec_core %s %s' % (sp, impl[3:])
        elif simple:
            spec = REFUSED
        out.append(Case(('core', g), {'entry': 'get_core_decomposition', 'scope': scope, 'storage': storage}, run, impl, spec,
                        nontriv,
                        {'f': 'get_core_decomposition', 'graph': gd, 'name': name}))
    if 'cliques' in funcs:
        for k in (ks if ks is not None else range(2, n + 2)):
            impl = _call(lambda: 'ok %d' % count_cliques(a, k))
            run = 'c11.cliques %s %d' % (g, k)
            spec = None
            if impl.startswith('ok '):
                spec = 'c11.spec_cliques %s %d %s' % (sp, k, impl[3:])
            elif simple and k >= 2 and not impl.startswith('ok '):
                spec = REFUSED
            out.append(Case(('cliques', g, k), {'entry': 'count_cliques', 'k': 'k>=2' if k >= 2 else 'k<2',
                                                'scope': scope, 'storage': storage}, run, impl, spec, wedge or k == 2 and nontriv,
                            {'f': 'count_cliques', 'graph': gd, 'k': k, 'name': name}))
    if 'dag' in funcs:
        # the structure handed to the kernels: the real get_dag against the model's getDag, for the two orders used
        # and for an order array with ties and negative entries (the `value < 0` branch of the loop)
        gsq = '%d %s %s %s' % (n, enc_list(a.indptr), enc_list(a.indices), g.split(' ')[4])
        orders = [np.arange(n)]
        core = _call(lambda: get_core_decomposition(a))
        if not isinstance(core, str):
            orders.append(np.argsort(core))
            out.append(Case(('argsort', g), {'entry': 'np.argsort', 'kind': 'contract'}, None, 'ok',
                            'c11.contract_perm %d %s' % (n, enc_list(orders[1])), nontriv,
                            {'f': 'get_dag', 'graph': gd, 'order': [int(x) for x in orders[1]], 'name': name}))
        if n > 0:
            orders.append(np.array([rng.randint(-2, max(1, n - 1)) for _ in range(n)]))
        for o in orders:
            def f_dag():
                d = get_dag(a, order=o)
                return 'ok %s %s' % (enc_list(d.indptr), enc_list(d.indices))
            impl = _call(f_dag)
            run = 'c11.dag %s %s' % (gsq, enc_list(o))
            out.append(Case(('dag', g, tuple(int(x) for x in o)), {'entry': 'get_dag', 'scope': scope, 'storage': storage}, run, impl, None,
                            nontriv, {'f': 'get_dag', 'graph': gd, 'order': [int(x) for x in o], 'name': name}))
    return out


def _same(c, model, impl, spec_ok):
    if model.startswith('err') and impl.startswith('err'):
        return True      # refused at the same place; the class / wording of the exception is not part of the property
    if c.canon == 'float' and model.startswith('ok ') and impl.startswith('ok '):
        m, i = model[3:], impl[3:]
        if m == 'nan' or i in ('nan', 'inf'):
            return m == i
        fm, fi = Fraction(m), Fraction(i)
        return abs(fm - fi) <= Fraction(TOL) * (1 + abs(fm))
    return False


class _Intercept:
    """Forwards everything to the context but holds the spec failures back so that they can be shrunk first."""

    def __init__(self, ctx):
        object.__setattr__(self, '_ctx', ctx)
        object.__setattr__(self, 'held', [])

    def __getattr__(self, k):
        return getattr(self._ctx, k)

    def __setattr__(self, k, v):
        setattr(self._ctx, k, v)

    def spec_fail(self, sig, case, detail):
        self.held.append((sig, case, detail))

    def lean(self, lines):
        """The driver shards contiguous chunks; the expensive lines (large graphs) are contiguous in the case
        stream, so the lines are dealt round-robin over the shards and the answers put back in order."""
        lines = list(lines)
        k = 12
        order = [i for c in range(k) for i in range(c, len(lines), k)]
        ans = self._ctx.lean([lines[i] for i in order])
        out = [None] * len(lines)
        for pos, i in enumerate(order):
            out[i] = ans[pos]
        return out


def evaluate(ctx, cases, shrink=True):
    if not shrink or isinstance(ctx, Sub):
        _evaluate(ctx, cases, same=_same)
        return
    ic = _Intercept(ctx)
    _evaluate(ic, cases, same=_same)
    seen = set()
    for sig, case, detail in ic.held:
        key = json.dumps(sig, sort_keys=True, default=str)
        if key not in seen and len(seen) < 3 and isinstance(case, dict) and 'graph' in case and sig.get('entry') != 'crash':
            seen.add(key)
            try:
                small = shrink_case(ctx, sig, case)
            except (Exception, subprocess.TimeoutExpired) as e:  # the shrinker must never hide a failure (ToolFailure incl.)
                ctx.note('shrinker failed: %r' % (e,))
                small = None
            if small is not None:
                case2, detail2 = small
                detail2 = dict(detail2)
                detail2['shrunk_from'] = {'n': case['graph']['shape'][0], 'nnz': len(case['graph']['indices']),
                                          'name': case.get('name')}
                ctx.spec_fail(sig, case2, detail2)
                continue
        ctx.spec_fail(sig, case, detail)


# ---------------------------------------------------------------------------------------------
# shrinking a failing input (greedy: drop nodes, then edges, re-evaluating the Lean specification on the
# implementation's output for every candidate of a round in one batch)
# ---------------------------------------------------------------------------------------------
def _sub_desc(case, a, tag):
    d = dict(case)
    d['graph'] = _gdesc(a)
    d['name'] = (case.get('name') or '') + tag
    return d


def _spec_only_cases(ctx, descs):
    out = StreamList()
    for i, d in enumerate(descs):
        cs = [c for c in _cases_of_desc(ctx, d) if c.spec and c.sig.get('entry') == d.get('_entry')]
        if d.get('_par') is not None:
            cs = [c for c in cs if c.sig.get('parallelize') == d['_par']]
        for c in cs:
            c.run = None
            c.key = ('shrink', i) + tuple(c.key)
        out += cs
    return out


def shrink_case(ctx, sig, case, budget_s=45.0, max_rounds=30):
    import time as _time
    t0 = _time.time()
    if case.get('f') not in ('count_triangles', 'count_cliques', 'get_core_decomposition',
                             'get_clustering_coefficient', 'all'):
        return None
    base = dict(case)
    base['_entry'] = sig.get('entry')
    base['_par'] = sig.get('parallelize')
    fmap = {'count_triangles': 'count_triangles', 'count_cliques': 'count_cliques',
            'get_core_decomposition': 'get_core_decomposition',
            'get_clustering_coefficient': 'get_clustering_coefficient'}
    if base['_entry'] in fmap:
        base['f'] = fmap[base['_entry']]
    cur = _from_desc(case['graph'])
    cur = sparse.csr_matrix(cur).astype(float)
    cur.sort_indices()
    best = None
    rng = ctx.rng
    for rnd in range(max_rounds):
        if _time.time() - t0 > budget_s:
            break
        n = cur.shape[0]
        cands = []
        if n > 1:
            keep_sets = [[v for v in range(n) if v != u] for u in range(n)]
            for frac in (2, 3):
                if n >= 2 * frac:
                    for _ in range(3):
                        keep_sets.append(sorted(rng.sample(range(n), n - n // frac)))
            for ks in keep_sets:
                cands.append(sparse.csr_matrix(cur[ks][:, ks]))
        und = sparse.triu(cur, 1).tocoo()
        edges = list(zip(und.row.tolist(), und.col.tolist()))
        if len(cands) == 0 or rnd % 2 == 1 or n <= 6:
            for (i, j) in edges[:200]:
                b = cur.tolil(copy=True)
                b[i, j] = 0
                b[j, i] = 0
                b = sparse.csr_matrix(b)
                b.eliminate_zeros()
                cands.append(b)
        if not cands:
            break
        descs = [_sub_desc(base, b, ':shrunk') for b in cands]
        sub = Sub(ctx)
        sub.overlay_root = ctx.overlay_root
        sub.dist = {}
        cases, crash = in_child(sub, lambda: _spec_only_cases(sub, descs))
        _evaluate(sub, cases, same=_same)
        failing = {}
        for f in sub.spec_failures:
            # recover the candidate index from the description
            for i, d in enumerate(descs):
                if f['case'] is not None and f['case'].get('graph') == d['graph']:
                    failing.setdefault(i, f)
                    break
        if not failing:
            if len(cands) > n and rnd % 2 == 1:
                break       # neither a node nor an edge can be dropped
            if n <= 6 or rnd % 2 == 1:
                break
            continue
        # smallest failing candidate: fewest nodes, then fewest entries
        i = min(failing, key=lambda t: (cands[t].shape[0], cands[t].nnz))
        cur = cands[i]
        cur.sort_indices()
        f = failing[i]
        d = {k: v for k, v in f['case'].items() if not k.startswith('_')}
        best = (d, f['detail'])
    return best


# ---------------------------------------------------------------------------------------------
# generators
# ---------------------------------------------------------------------------------------------
def _relabel(es, n, rng):
    p = list(range(n))
    rng.shuffle(p)
    return sorted((p[i], p[j]) for i, j in es)


def _und(pairs):
    es = set()
    for i, j in pairs:
        if i != j:
            es.add((i, j))
            es.add((j, i))
    return sorted(es)


def gen_onion(rng, n):
    """Nested cores: cliques of decreasing size chained by sparse links and pendant paths (core values vary and
    go down again after having gone up in any peeling order)."""
    pairs = []
    nodes = list(range(n))
    pos = 0
    sizes = []
    while pos < n:
        s = min(n - pos, rng.choice([1, 1, 2, 3, 4, 5, 6]))
        sizes.append((pos, s))
        for i in range(pos, pos + s):
            for j in range(i + 1, pos + s):
                if rng.random() < 0.9:
                    pairs.append((i, j))
        if pos > 0:
            for _ in range(rng.choice([1, 1, 2])):
                pairs.append((rng.randrange(pos), rng.randrange(pos, pos + s)))
        pos += s
    return _und(pairs)


def gen_pref(rng, n):
    """Preferential attachment with m in 1..4 (skewed degrees: deep heap, many decrease_key calls)."""
    m = rng.choice([1, 2, 3, 4])
    pairs = []
    targets = [0]
    for v in range(1, n):
        for u in set(rng.choice(targets) for _ in range(m)):
            pairs.append((u, v))
            targets.append(u)
        targets.append(v)
    return _und(pairs)


def gen_dense_blocks(rng, n):
    """Dense overlapping blocks: many cliques of size 4..7."""
    pairs = []
    for _ in range(rng.choice([1, 2, 3])):
        size = rng.randint(3, min(n, 9))
        blk = rng.sample(range(n), size)
        for x in range(size):
            for y in range(x + 1, size):
                if rng.random() < 0.92:
                    pairs.append((blk[x], blk[y]))
    for _ in range(n // 2):
        pairs.append((rng.randrange(n), rng.randrange(n)))
    return _und(pairs)


def gen_multipartite(rng, n):
    k = rng.randint(2, min(n, 6))
    lab = [rng.randrange(k) for _ in range(n)]
    return _und((i, j) for i in range(n) for j in range(i + 1, n) if lab[i] != lab[j] and rng.random() < 0.95)


def gen_gnp(rng, n):
    p = rng.choice([0.1, 0.25, 0.5, 0.8])
    return _und((i, j) for i in range(n) for j in range(i + 1, n) if rng.random() < p)


FAMILIES = [('onion', gen_onion), ('pref', gen_pref), ('blocks', gen_dense_blocks), ('multipartite', gen_multipartite),
            ('gnp', gen_gnp)]


def random_graphs(ctx, rng, count, nmin, nmax):
    """(name, csr) pairs: the families above plus the shared structured suite, with random relabelling."""
    out = []
    for c in range(count):
        name, gen = FAMILIES[c % len(FAMILIES)]
        n = rng.randint(nmin, nmax)
        es = gen(rng, n)
        if rng.random() < 0.7:
            es = _relabel(es, n, rng)
        out.append(('%s%d' % (name, n), _mk(n, es)))
    kinds = [k for k in graphs.UNDIRECTED_KINDS if k != 'selfloops']
    for name, n, es, w in graphs.suite(rng, max(10, count // 3), nmin, nmax, kinds=kinds):
        if rng.random() < 0.5:
            es = _relabel(es, n, rng)
        out.append((name, _mk(n, es)))
    return out


def _ks_for(rng, a, quick):
    n = a.shape[0]
    if n <= 7:
        return list(range(2, n + 2))
    ks = [2, 3, 4, 5]
    ks += rng.sample(range(6, min(n, 10) + 1), 1 if quick else 2)
    if rng.random() < 0.2:
        ks.append(n)
    return ks


def variants(ctx, a, rng):
    """Same undirected graph in other clothes: unsorted indices, integer weights, bool / int dtype, stored zeros,
    duplicate entries (a scipy matrix that is not in canonical format)."""
    v = rng.choice(['unsorted', 'weights', 'bool', 'int', 'float32', 'explicit_zeros', 'duplicates', 'int64idx'])
    n = a.shape[0]
    if v == 'explicit_zeros' and n >= 2:
        # the way they arise in practice: entries set to zero without eliminate_zeros()
        coo = sparse.coo_matrix(a)
        rows, cols, data = list(coo.row), list(coo.col), list(coo.data)
        present = set(zip(rows, cols))
        added = 0
        asym = rng.random() < 0.5        # `A[i, j] = 0` alone is the practical case
        for _ in range(rng.randint(1, 2 * n)):
            i, j = rng.randrange(n), rng.randrange(n)
            for (x, y) in ([(i, j)] if asym else sorted({(i, j), (j, i)})):
                if (x, y) not in present:
                    present.add((x, y))
                    rows.append(x)
                    cols.append(y)
                    data.append(0.0)
                    added += 1
        if added == 0:                   # a complete graph: the only free cells are on the diagonal
            free = [(x, y) for x in range(n) for y in range(n) if (x, y) not in present]
            if not free:
                return 'unsorted', graphs.unsorted_copy(a, rng)
            x, y = rng.choice(free)
            rows.append(x)
            cols.append(y)
            data.append(0.0)
        order = np.lexsort((np.array(cols), np.array(rows)))
        rows, cols, data = np.array(rows)[order], np.array(cols)[order], np.array(data, dtype=float)[order]
        indptr = np.zeros(n + 1, dtype=np.int32)
        np.add.at(indptr, rows + 1, 1)
        indptr = np.cumsum(indptr).astype(np.int32)
        return v, sparse.csr_matrix((data, cols.astype(np.int32), indptr), shape=(n, n))
    if v == 'duplicates' and a.nnz > 0:
        # some undirected edges stored twice (weight split over the two entries), rows left unsummed
        coo = sparse.coo_matrix(a)
        rows, cols, data = list(coo.row), list(coo.col), list(coo.data)
        und = [(i, j) for i, j in zip(rows, cols) if i < j]
        for (i, j) in rng.sample(und, min(len(und), rng.randint(1, 3))):
            for (x, y) in ((i, j), (j, i)):
                rows.append(x)
                cols.append(y)
                data.append(1.0)
        order = np.lexsort((np.array(cols), np.array(rows)))
        rows, cols, data = np.array(rows)[order], np.array(cols)[order], np.array(data, dtype=float)[order]
        indptr = np.zeros(n + 1, dtype=np.int32)
        np.add.at(indptr, rows + 1, 1)
        indptr = np.cumsum(indptr).astype(np.int32)
        return v, sparse.csr_matrix((data, cols.astype(np.int32), indptr), shape=(n, n))
    if v in ('explicit_zeros', 'duplicates'):
        v = 'unsorted'
    if v == 'unsorted':
        return v, graphs.unsorted_copy(a, rng)
    if v == 'weights':
        b = sparse.triu(a, 1).tocsr().astype(float)
        b.data = np.array([rng.choice([1, 2, 3, 5]) for _ in range(b.nnz)], dtype=float)
        b = sparse.csr_matrix(b + b.T)
        b.sort_indices()
        return v, b
    if v == 'float32':
        # fractional float32 weights (directed2undirected must keep them floating)
        b = sparse.triu(a, 1).tocsr().astype(float)
        b.data = np.array([rng.choice([0.5, 0.25, 1.5, 2]) for _ in range(b.nnz)], dtype=float)
        b = sparse.csr_matrix(b + b.T)
        b.sort_indices()
        return v, b.astype(np.float32)
    if v == 'int64idx':
        # index arrays of dtype int64 (what scipy produces beyond 2^31 stored entries, or by assignment)
        b = sparse.csr_matrix(a).copy()
        b.indices = b.indices.astype(np.int64)
        b.indptr = b.indptr.astype(np.int64)
        return v, b
    if v == 'bool':
        return v, a.astype(bool)
    return v, a.astype(np.int64)


def hub_graph(m, extra):
    """star with centre 0 and leaves 1..m, plus the edges `extra` between leaves (no triangle among themselves)"""
    r = [0] * m + list(range(1, m + 1))
    c = list(range(1, m + 1)) + [0] * m
    for (i, j) in extra:
        r += [i, j]
        c += [j, i]
    a = sparse.csr_matrix((np.ones(len(r)), (r, c)), shape=(m + 1, m + 1))
    a.sort_indices()
    return a


def hub_compute(desc):
    """Call the implementation on one hub graph (slow: the kernels copy `indptr`/`indices` for every node, about 27 s
    for 46 343 nodes). Returns the implementation's answer as text."""
    from sknetwork.topology import get_clustering_coefficient
    a = hub_graph(desc['m'], [tuple(e) for e in desc['extra']])

    def f_cc():
        import warnings
        with warnings.catch_warnings():
            warnings.simplefilter('ignore')
            return 'ok ' + _enc_float(get_clustering_coefficient(a))
    from sknetwork.topology import count_triangles
    return [_call(f_cc), _call(lambda: 'ok %d' % count_triangles(a, parallelize=True))]


def hub_cases(ctx, desc, impl=None):
    """Graphs too large for the brute-force specification: the triangle count is known in closed form (one per extra
    edge), the coefficient is evaluated by the Lean side from that count and the exact degree sequence
    (`clusteringFromDegrees`, equal to the specification by `clusteringSpec_from_degrees`). A wrong triangle count
    shows in the coefficient as well."""
    m, extra = desc['m'], [tuple(e) for e in desc['extra']]
    if impl is None:
        _progress(desc)
        impl = hub_compute(desc)
    degs = [m] + [1] * m
    for (i, j) in extra:
        degs[i] += 1
        degs[j] += 1
    t = len(extra)
    sig = {'entry': 'get_clustering_coefficient', 'parallelize': False, 'scope': 'simple', 'stream': 'hub'}
    impl, impl_tri = impl
    spec = 'c11.spec_cc_deg %d %s %s' % (t, enc_list(degs), impl[3:]) if impl.startswith('ok ') else REFUSED
    out = [Case(('hub-cc', m, tuple(extra)), sig, None, impl, spec, True, desc)]
    spec = 'c11.spec_closed %d %s' % (t, impl_tri[3:]) if impl_tri.startswith('ok ') else REFUSED
    out.append(Case(('hub-tri', m, tuple(extra)), {'entry': 'count_triangles', 'parallelize': True, 'scope': 'simple',
                                                   'stream': 'hub'}, None, impl_tri, spec, True, desc))
    return out


_HUB_WORKER = r'''
import sys, json
sys.path.insert(0, sys.argv[1]); sys.path.insert(0, sys.argv[2])
import sknetwork
assert sknetwork.__file__.startswith(sys.argv[1]), sknetwork.__file__
from harness import c11
out = []
for i, d in enumerate(json.load(sys.stdin)):
    sys.stderr.write('#%d\n' % i); sys.stderr.flush()
    out.append(c11.hub_compute(d))
json.dump(out, sys.stdout)
'''


def hub_descs(ctx):
    hubs = ([(46342, [(1, 2)])] if ctx.quick else
            [(46341, [(1, 2)]), (46342, [(1, 2)]), (50000, [(1, 2), (2, 3)]), (70000, [(1, 2), (3, 4)]),
             (100000, [(5, 6)])])
    out = [{'f': 'hub', 'm': m, 'extra': [list(e) for e in extra]} for m, extra in hubs]
    # hub witnesses of the corpus run here too (a hub costs half a minute: they stay out of the serial stream)
    p = os.path.join(VERIF, 'corpus', 'C11.jsonl')
    if os.path.exists(p):
        for ln in open(p):
            ln = ln.strip()
            if ln and not ln.startswith('#'):
                d = json.loads(ln)
                if d.get('f') == 'hub' and not any(o['m'] == d['m'] and o['extra'] == d['extra'] for o in out):
                    out.append({'f': 'hub', 'm': d['m'], 'extra': d['extra']})
    return out


def hub_start(ctx):
    """The hub stream runs in its own process, beside the rest of the check."""
    descs = hub_descs(ctx)
    env = dict(os.environ)
    env['OMP_NUM_THREADS'] = '4'          # capped: the thread counts are the sweep's job
    env['OMP_WAIT_POLICY'] = 'passive'
    p = subprocess.Popen(['/venv/bin/python', '-c', _HUB_WORKER, ctx.overlay_root, os.path.join(VERIF, 'tools')],
                         stdin=subprocess.PIPE, stdout=subprocess.PIPE, stderr=subprocess.PIPE, text=True, env=env)
    p.stdin.write(json.dumps(descs))      # a few hundred bytes: cannot block
    p.stdin.close()
    p.stdin = None                        # so that communicate() only drains the two output pipes
    return p, descs


def hub_finish(ctx, started):
    p, descs = started
    try:
        out, err = p.communicate(timeout=900 if ctx.quick else 3000)
    except subprocess.TimeoutExpired:
        p.kill()
        p.communicate()
        raise ToolFailure('timeout: the hub stream did not finish in time')
    cases = []
    if p.returncode < 0:
        marks = [ln for ln in err.split('\n') if ln.startswith('#')]
        i = int(marks[-1][1:]) if marks else 0
        ctx.spec_fail({'entry': 'crash', 'signal': -p.returncode, 'stream': 'hub'}, descs[i],
                      {'what': 'the implementation was killed by signal %d on this hub graph' % -p.returncode})
        return cases
    if p.returncode != 0:
        raise ToolFailure('hub worker failed: %s' % err[-1500:])
    for d, impl in zip(descs, json.loads(out)):
        cases += hub_cases(ctx, d, impl)
        ctx.count('hub (degree >= 46341)')
    return cases


def build_cases(ctx):
    rng = ctx.rng
    quick = ctx.quick
    cases = StreamList()
    # 1. exhaustive: all undirected simple graphs
    nmax = 5 if quick else 6
    for n in range(0, nmax + 1):
        for es in graphs.all_undirected(n):
            a = _mk(n, es)
            funcs = ('tri', 'cc', 'core', 'cliques', 'dag') if n <= 5 else ('tri', 'cc', 'core', 'cliques')
            ks = None
            if n == 6:
                ks = [2, 3, 4] + rng.sample([5, 6, 7], 1)
            tag = 'all-k+dag'
            if n == 6:
                tag = 'sampled-k'
            if n == 5 and quick and rng.random() < 0.75:
                # quick tier: every labelled graph keeps triangles / core / clustering / cliques of size 3, 4;
                # the other clique sizes and the DAG comparison run on a quarter of them
                funcs = ('tri', 'cc', 'core', 'cliques')
                ks = [3, 4]
                tag = 'k=3,4 only'
            cases += cases_for_graph(ctx, a, rng, 'all%d' % n, True, ks, funcs)
            ctx.count('exhaustive:n=%d (%s)' % (n, tag))
    # a clique size beyond the int16 range (the labels of the box were int16: OverflowError before 3c08572a)
    cases += cases_for_graph(ctx, _mk(4, _und([(0, 1), (1, 2), (0, 2), (2, 3)])), rng, 'k=32768', True, [32768],
                             ('cliques',))
    # refused clique sizes
    for k in (1, 0, -1):
        a = _mk(3, _und([(0, 1), (1, 2), (0, 2)]))
        cases += cases_for_graph(ctx, a, rng, 'k<2', True, [k], ('cliques',))
    # non-square matrices are refused by the three entry points
    for b in (sparse.csr_matrix(np.array([[0, 1, 1], [1, 0, 1]], dtype=float)),
              sparse.csr_matrix(np.array([[0, 1], [1, 0], [1, 1]], dtype=float))):
        cases += _nonsquare_cases(b)
    # 2. structured / random graphs
    for name, a in random_graphs(ctx, rng, 60 if quick else 500, 6, 16 if quick else 22):
        cases += cases_for_graph(ctx, a, rng, name, True, _ks_for(rng, a, quick))
        ctx.count('random:' + name.rstrip('0123456789'))
        if rng.random() < 0.5:
            v, b = variants(ctx, a, rng)
            cases += cases_for_graph(ctx, b, rng, name + ':' + v, True, rng.sample(_ks_for(rng, a, quick), 2),
                                     ('tri', 'cc', 'core', 'cliques'))
            ctx.count('variant:' + v)
    # small dense graphs: several levels of the clique recursion with non-trivial truncated degrees
    for _ in range(300 if quick else 3000):
        n = rng.choice([6, 7, 8])
        pr = rng.choice([0.5, 0.7, 0.85])
        a = _mk(n, _und((i, j) for i in range(n) for j in range(i + 1, n) if rng.random() < pr))
        cases += cases_for_graph(ctx, a, rng, 'dense%d' % n, True, [3, 4, 5], ('cliques', 'core'))
        ctx.count('random:dense')
    # stored zeros / duplicate entries on small graphs too (every function, every k)
    for _ in range(40 if quick else 400):
        n = rng.randint(2, 7)
        a = _mk(n, _und((i, j) for i in range(n) for j in range(i + 1, n) if rng.random() < rng.choice([0.3, 0.6])))
        for forced in ('explicit_zeros', 'duplicates'):
            class _R:     # a tiny adapter: force the variant, keep the other random choices
                def __init__(self, r, v):
                    self.r, self.v = r, v

                def choice(self, xs):
                    return self.v if self.v in xs else self.r.choice(xs)

                def __getattr__(self, k):
                    return getattr(self.r, k)
            v, b = variants(ctx, a, _R(rng, forced))
            cases += cases_for_graph(ctx, b, rng, 'small%d:%s' % (n, v), True, None, ('tri', 'cc', 'core', 'cliques'))
            ctx.count('variant:' + v)
    # near-complete graphs: every clique size, non-zero counts at every depth of the recursion
    for _ in range(4 if quick else 40):
        n = rng.randint(8, 11 if quick else 14)
        if rng.random() < 0.5:
            pairs = [(i, j) for i in range(n) for j in range(i + 1, n)]
            for e in rng.sample(pairs, rng.randint(0, 3)):
                pairs.remove(e)
            name = 'nearcomplete%d' % n
        else:
            lab, p = [], 0
            while len(lab) < n:
                lab += [p] * rng.choice([1, 1, 2])
                p += 1
            lab = lab[:n]
            pairs = [(i, j) for i in range(n) for j in range(i + 1, n) if lab[i] != lab[j]]
            name = 'multipartite12-%d' % n
        es = _und(pairs)
        if rng.random() < 0.5:
            es = _relabel(es, n, rng)
        cases += cases_for_graph(ctx, _mk(n, es), rng, name, True, list(range(2, n + 2)), ('cliques', 'tri', 'core'))
        ctx.count('nearcomplete')
    # outside "undirected simple": directed, self-loops, negative and cancelling weights, duplicates that cancel —
    # the model claims these too ("every square matrix"): run lines, and spec lines where the quantity is defined
    for _ in range(150 if quick else 1500):
        n = rng.randint(1, 5)
        dens = rng.choice([0.3, 0.6, 0.9])
        rows, cols, data = [], [], []
        for i in range(n):
            for j in range(n):
                if rng.random() < dens and (i != j or rng.random() < 0.3):
                    rows.append(i)
                    cols.append(j)
                    data.append(float(rng.choice([-1, 1, 1, 2])))
                    if rng.random() < 0.1:       # a duplicate entry, sometimes cancelling
                        rows.append(i)
                        cols.append(j)
                        data.append(float(rng.choice([-1, 1, -data[-1]])))
        if rng.random() < 0.4:                   # symmetric support with independent weights
            rows, cols, data = rows + cols, cols + rows, data + [float(rng.choice([-1, 1, 2])) for _ in data]
        order = np.lexsort((np.array(cols, dtype=int), np.array(rows, dtype=int))) if rows else []
        r_, c_, d_ = np.array(rows, dtype=int)[order], np.array(cols, dtype=int)[order], np.array(data)[order]
        indptr = np.zeros(n + 1, dtype=np.int32)
        np.add.at(indptr, r_ + 1, 1)
        a = sparse.csr_matrix((d_.astype(float), c_.astype(np.int32), np.cumsum(indptr).astype(np.int32)), shape=(n, n))
        cases += cases_for_graph(ctx, a, rng, 'degenerate%d' % n, _is_simple(a), None,
                                 ('tri', 'cc', 'core', 'cliques', 'dag'))
        ctx.count('degenerate (directed / loops / negative / cancelling)')
    # larger graphs (heap depth >= 4, several levels of the clique recursion)
    for name, a in random_graphs(ctx, rng, 5 if quick else 60, 24, 36 if quick else 40):
        cases += cases_for_graph(ctx, a, rng, name, True, [2, 3, 4, rng.choice([5, 6])],
                                 ('tri', 'cc', 'core', 'cliques'))
        ctx.count('large:' + name.rstrip('0123456789'))
    return cases


# ---------------------------------------------------------------------------------------------
# thread sweep (fresh processes)
# ---------------------------------------------------------------------------------------------
_WORKER = r'''
import sys, json, warnings
sys.path.insert(0, sys.argv[1])
import numpy as np
from scipy import sparse
import sknetwork
assert sknetwork.__file__.startswith(sys.argv[1]), sknetwork.__file__
from sknetwork.topology import count_triangles, get_clustering_coefficient
warnings.simplefilter('ignore')
out = []
for idx, gd in enumerate(json.load(sys.stdin)):
    sys.stderr.write('#%d\n' % idx); sys.stderr.flush()
    a = sparse.csr_matrix((np.array(gd['data'], dtype=float), np.array(gd['indices'], dtype=np.int32),
                           np.array(gd['indptr'], dtype=np.int32)), shape=tuple(gd['shape']))
    try:
        r = []
        for rep in range(gd.get('reps', 1)):
            r.append(int(count_triangles(a, parallelize=True)))
        c = float(get_clustering_coefficient(a, parallelize=True))
        out.append({'tri': r, 'cc': None if c != c else c})
    except Exception as e:
        out.append({'err': type(e).__name__})
json.dump(out, sys.stdout)
'''


def thread_sweep(ctx, named_graphs, reps=2):
    """count_triangles / clustering coefficient with parallelize=True under several OMP_NUM_THREADS, each in a
    fresh process; every answer must equal the sequential answer computed here."""
    from sknetwork.topology import count_triangles, get_clustering_coefficient
    import warnings
    descs, want = [], []
    for name, a in named_graphs:
        gd = _gdesc(a)
        gd['reps'] = reps
        descs.append(gd)
        with warnings.catch_warnings():
            warnings.simplefilter('ignore')
            c = float(get_clustering_coefficient(a, parallelize=False))
        want.append((int(count_triangles(a, parallelize=False)), None if c != c else c))
    payload = json.dumps(descs)
    for t in THREADS:
        env = dict(os.environ)
        env['OMP_NUM_THREADS'] = str(t)
        env.pop('OMP_DYNAMIC', None)
        env['OMP_WAIT_POLICY'] = 'passive'   # 16 spinning threads on a busy machine take 30 s instead of 1 s
        r = subprocess.run(['/venv/bin/python', '-c', _WORKER, ctx.overlay_root], input=payload, env=env,
                           stdout=subprocess.PIPE, stderr=subprocess.PIPE, text=True, timeout=600)
        if r.returncode < 0:
            marks = [ln for ln in r.stderr.split('\n') if ln.startswith('#')]
            i = int(marks[-1][1:]) if marks else 0
            ctx.spec_fail({'entry': 'crash', 'signal': -r.returncode, 'parallelize': True},
                          {'f': 'sweep', 'graph': descs[i], 'threads': t, 'name': named_graphs[i][0]},
                          {'what': 'worker killed by signal %d with OMP_NUM_THREADS=%d' % (-r.returncode, t)})
            continue
        if r.returncode != 0:
            raise ToolFailure('thread-sweep worker failed (OMP_NUM_THREADS=%d): %s' % (t, r.stderr[-1500:]))
        res = json.loads(r.stdout)
        for (name, a), gd, w, got in zip(named_graphs, descs, want, res):
            ok = 'err' not in got and all(x == w[0] for x in got['tri']) and (
                (got['cc'] is None and w[1] is None) or
                (got['cc'] is not None and w[1] is not None and abs(got['cc'] - w[1]) <= TOL * (1 + abs(w[1]))))
            ctx.case(('sweep', t, name, tuple(gd['indptr']), tuple(gd['indices'])), a.nnz > 0,
                     sample={'request': 'sweep OMP_NUM_THREADS=%d %s' % (t, name), 'model': 'sequential=%r' % (w,),
                             'impl': got})
            ctx.count('sweep:threads=%d' % t)
            if not ok:
                ctx.spec_fail({'entry': 'count_triangles', 'parallelize': True, 'threads': 'sweep'},
                              {'f': 'sweep', 'graph': gd, 'threads': t, 'name': name},
                              {'sequential': w, 'parallel': got, 'OMP_NUM_THREADS': t})


def sweep_graphs(ctx, rng):
    quick = ctx.quick
    gs = []
    for n in range(0, 5):
        for es in graphs.all_undirected(n):
            gs.append(('all%d' % n, _mk(n, es)))
    gs += random_graphs(ctx, rng, 40 if quick else 300, 5, 40)
    # a few bigger ones so that every thread gets several iterations
    for _ in range(3 if quick else 20):
        n = rng.randint(60, 150)
        gs.append(('gnp%d' % n, _mk(n, _und((i, j) for i in range(n) for j in range(i + 1, n) if rng.random() < 0.15))))
    return gs


# ---------------------------------------------------------------------------------------------
# translator: the prange loop of triangles.pyx (source fact a behavioural run cannot see)
# ---------------------------------------------------------------------------------------------
ANCHORED_PYX = ['triangles.pyx', 'cliques.pyx', 'core.pyx', 'minheap.pyx']


def prange_lines(ctx):
    """Descriptor lines for every prange loop of the anchored kernels, from Cython's own parser. A parse tree that
    the translator does not understand (another Cython version) is a tool failure, not a verdict."""
    from vlib.core import REPO
    try:
        import Cython
        sys.path.insert(0, os.path.join(VERIF, 'tools'))
        from harness import c11_prange
        ctx.extra['cython_version'] = Cython.__version__
        out = []
        for f in ANCHORED_PYX:
            for d in c11_prange.describe(os.path.join(REPO, 'sknetwork', 'topology', f)):
                d['file'] = f
                out.append(d)
        return out
    except ToolFailure:
        raise
    except Exception as e:
        raise ToolFailure('the prange translator could not read the kernels (Cython %s): %r' % (
            getattr(sys.modules.get('Cython'), '__version__', '?'), e))


def check_prange(ctx):
    """Generated obligations (re-decided on every run): (1) the anchored kernels contain exactly one prange loop, in
    triangles.pyx:count_triangles_from_dag; (2..) every prange loop found is a pure integer `+` reduction."""
    alld = prange_lines(ctx)
    ctx.extra['prange_loops'] = alld
    descs = [d for d in alld if d.get('line')]
    lines = ['c11.prange ' + d['line'] for d in descs]
    n_ob = len(lines) + 1
    ok = 0
    if (len(alld) == 1 and len(descs) == 1 and descs[0]['function'] == 'count_triangles_from_dag'
            and descs[0]['file'] == 'triangles.pyx'):
        ok += 1
    else:
        ctx.broken('prange-shape', 'expected exactly one prange loop in %s, in count_triangles_from_dag; found %r' %
                   (ANCHORED_PYX, [(d['file'], d['function']) for d in alld]),
                   {'entry': 'count_triangles', 'parallelize': True, 'obligation': 'prange-shape'})
    if lines:
        for d, ans in zip(descs, ctx.lean(lines)):
            if ans == 'racefree':
                ok += 1
            elif ans in ('bad-args',) or ans.startswith('unknown-cmd'):
                raise ToolFailure('driver rejected the prange descriptor %r -> %r' % (d['line'], ans))
            else:
                ctx.broken('prange-racefree', {'loop': d, 'answer': ans},
                           {'entry': 'count_triangles', 'parallelize': True, 'obligation': 'prange-racefree'})
    ctx.extra['generated_obligations'] = n_ob
    ctx.extra['generated_discharged'] = ok


# ---------------------------------------------------------------------------------------------
# entry points of the runner
# ---------------------------------------------------------------------------------------------
def _corpus_cases(ctx):
    p = os.path.join(VERIF, 'corpus', 'C11.jsonl')
    cases = []
    if os.path.exists(p):
        for ln in open(p):
            ln = ln.strip()
            if ln and not ln.startswith('#'):
                d = json.loads(ln)
                if d.get('f') == 'hub':
                    continue          # runs in the hub worker (hub_descs)
                cases += _cases_of_desc(ctx, d)
                ctx.count('corpus')
    return cases


def _nonsquare_cases(b):
    from sknetwork.topology import count_triangles, get_core_decomposition, count_cliques
    out = []
    impl = _call(lambda: 'ok %d' % count_triangles(b))
    out.append(Case(('tri', 'nonsquare', b.shape), {'entry': 'count_triangles', 'shape': 'non-square'},
                    'c11.tri %s 0' % enc_csr(b), impl, None, False, {'f': 'count_triangles', 'graph': _gdesc(b)}))
    impl = _call(lambda: 'ok ' + enc_list(get_core_decomposition(b)))
    out.append(Case(('core', 'nonsquare', b.shape), {'entry': 'get_core_decomposition', 'shape': 'non-square'},
                    'c11.core %s' % enc_csr(b),
                    impl, None, False, {'f': 'get_core_decomposition', 'graph': _gdesc(b)}))
    impl = _call(lambda: 'ok %d' % count_cliques(b, 3))
    out.append(Case(('cliques', 'nonsquare', b.shape), {'entry': 'count_cliques', 'shape': 'non-square'},
                    'c11.cliques %s 3' % enc_csr(b), impl, None, False,
                    {'f': 'count_cliques', 'graph': _gdesc(b), 'k': 3}))
    return out


def _cases_of_desc(ctx, case):
    if case.get('f') == 'hub':
        return hub_cases(ctx, case)
    a = _from_desc(case['graph'])
    f = case.get('f')
    if a.shape[0] != a.shape[1]:
        return _nonsquare_cases(a)
    simple = _is_simple(a)
    if f == 'count_cliques':
        return cases_for_graph(ctx, a, ctx.rng, case.get('name', 'replay'), simple, [case['k']], ('cliques', 'dag', 'core'))
    if f == 'all':
        return cases_for_graph(ctx, a, ctx.rng, case.get('name', 'replay'), simple, case.get('ks'),
                               tuple(case.get('funcs') or ('tri', 'cc', 'core', 'cliques', 'dag')))
    fm = {'count_triangles': ('tri', 'dag'), 'get_clustering_coefficient': ('cc', 'tri'),
          'get_core_decomposition': ('core',), 'get_dag': ('dag',)}
    return cases_for_graph(ctx, a, ctx.rng, case.get('name', 'replay'), simple, None,
                           fm.get(f, ('tri', 'cc', 'core', 'cliques', 'dag')))


def _build_all(ctx):
    cases = StreamList()
    cases += _corpus_cases(ctx)
    list.extend(cases, build_cases(ctx))     # already streamed chunk by chunk
    return cases


def run(ctx):
    check_prange(ctx)
    hubs = hub_start(ctx)
    cases, crash = in_child(ctx, lambda: _build_all(ctx))
    if crash:
        report_crash(ctx, crash)
    evaluate(ctx, cases)
    # a tool failure / time-out of the later stages must not throw away failing inputs already in hand
    for stage in (lambda: thread_sweep(ctx, sweep_graphs(ctx, ctx.rng), reps=2 if ctx.quick else 4),
                  lambda: evaluate(ctx, hub_finish(ctx, hubs))):
        try:
            stage()
        except (ToolFailure, subprocess.TimeoutExpired) as e:
            if not (ctx.spec_failures or ctx.run_disagreements or ctx.broken_obligations):
                raise
            ctx.note('a later stage failed as a tool (%r); the failing inputs found before it are reported' % (e,))
    ctx.exhaustive = False


def search(ctx, pending):
    """Hunt for a concrete failing input of the property on the implementation: the Lean specification is evaluated
    on the implementation's outputs over the exhaustive small space, fresh random graphs, and the thread sweep."""
    import random
    rng = random.Random(ctx.seed + 77)
    sub = Sub(ctx)
    sub.overlay_root = ctx.overlay_root
    sub.dist = {}

    def build():
        cases = []
        for n in range(0, 6):
            for es in graphs.all_undirected(n):
                cases += [c for c in cases_for_graph(sub, _mk(n, es), rng, 'all%d' % n, True, None,
                                                     ('tri', 'cc', 'core', 'cliques')) if c.spec]
        for name, a in random_graphs(sub, rng, 150, 6, 30):
            cases += [c for c in cases_for_graph(sub, a, rng, name, True, [2, 3, 4, 5, 6],
                                                 ('tri', 'cc', 'core', 'cliques')) if c.spec]
            if rng.random() < 0.6:       # the same graph in another storage (a defect may exist only there)
                v, b = variants(sub, a, rng)
                cases += [c for c in cases_for_graph(sub, b, rng, name + ':' + v, True, [2, 3, 4],
                                                     ('tri', 'cc', 'core', 'cliques')) if c.spec]
        cases += hub_cases(sub, {'f': 'hub', 'm': 46342, 'extra': [[1, 2]]})
        for n in (8, 9, 10, 11):
            pairs = [(i, j) for i in range(n) for j in range(i + 1, n)]
            for e in rng.sample(pairs, rng.randint(0, 3)):
                pairs.remove(e)
            cases += [c for c in cases_for_graph(sub, _mk(n, _relabel(_und(pairs), n, rng)), rng, 'nearcomplete%d' % n,
                                                 True, list(range(2, n + 2)), ('cliques',)) if c.spec]
        return cases
    cases, crash = in_child(sub, build)
    if crash:
        report_crash(sub, crash)
    for c in cases:
        c.run = None
    evaluate(sub, cases)
    if not sub.spec_failures:
        thread_sweep(sub, sweep_graphs(sub, rng), reps=5)
    return sub.found()


def replay(ctx, payload):
    case = payload.get('case') or (payload.get('what_no_longer_checks') or {}).get('case') or {}
    if payload.get('kind') == 'obligation':
        check_prange(ctx)
        return
    if not case and 'seed' in payload:
        import random
        ctx.rng = random.Random(int(payload['seed']) * 1000003 + 11)     # the stream of the run that found it
    if case.get('f') == 'sweep':
        thread_sweep(ctx, [(case.get('name', 'replay'), _from_desc(case['graph']))], reps=5)
        return
    if 'graph' in case or case.get('f') == 'hub':
        cases, crash = in_child(ctx, lambda: _cases_of_desc(ctx, case))
        if crash:
            report_crash(ctx, crash)
        evaluate(ctx, cases)
        return
    check_prange(ctx)
    cases, crash = in_child(ctx, lambda: build_cases(ctx))
    if crash:
        report_crash(ctx, crash)
    evaluate(ctx, cases)
