"""C08 — cuts, aggregation and tree metrics agree with the dendrogram they are given.

Correspondence: every case calls the real function (overlay build of /repo's working tree) and sends
  run  line -> the Lean model (SkNet/Model/Cut.lean, HMetrics.lean) computes the answer; compared exactly
               (labels up to the order numpy's argsort gives to clusters of equal size; floats within TOL)
  spec line -> the Lean specification (SkNet/Spec/Cut.lean, Spec/HMetrics.lean, Spec/Dendro.lean) evaluated on the
               implementation's own output; an exception on an admissible input is a failure of the property too.
"""
import itertools
import json
import math
import os
from fractions import Fraction

import numpy as np
from scipy import sparse

from vlib import graphs
from vlib.cases import Case, Sub, call as _call, evaluate as _evaluate
from vlib.core import enc_list, enc_bool, enc_rat, dec_list, VERIF
from harness import _dendro as dd

TOL = 1e-9          # float64 paths (DESIGN section 8): |x - y| <= TOL * (1 + |y|)

RULE = ('the empty dendrogram (one leaf); all merge orders of dendrograms over n <= 5 leaves (quick; thorough n <= 6, sampled n = 7) '
        'x height patterns {distinct, all tied, some ties, monotone towards the root but unsorted, the same with distinct heights, '
        'infinite tail, arbitrary} and signed patterns {minus the depth as get_dendrogram writes it, a positive pattern shifted so that 0 '
        'is one of the heights / lies between two heights / is the largest height / is above all heights, logarithms of heights on both '
        'sides of 1, arbitrary from {-2, -1, -1/2, 0, -0.0, 1/2, 1}, all zero} (quick: 2 + 1 patterns for n = 5, 120 orders for n = 6), '
        'sampled orders up to 10 leaves, Paris dendrograms also on a logarithmic scale. Thresholds: None, below / at / between / above '
        'the occurring heights, +inf, and the special value zero handed over as 0, 0.0 (and -0.0, np.float64(0) when a height is <= 0), '
        'alone and together with every n_clusters. Options per '
        'dendrogram: the full cross product cut_straight x n_clusters in {None, 0..n+1} x thresholds around the heights x '
        'sort_clusters x return_dendrogram, cut_balanced x max_cluster_size in 1..n+1 x options, aggregate_dendrogram x n_clusters in '
        '0..n+1 x return_counts for n <= 4; for n >= 5 a SAMPLE per dendrogram (2 + 7 cut_straight plus 2-4 with threshold zero, 4 cut_balanced, 2 + 3 aggregate '
        'combinations). Dendrograms with an inversion are sent too (known finding F24). Metrics x {uniform, degree} x normalized on: all '
        'graphs of 3 nodes with loops, sampled digraphs, structured weighted (di)graphs n <= 9, every non-empty pattern on 2 nodes, '
        'structured graphs with 10-16 nodes, empty graphs (errors compared), rank-one matrices outer(r, c) n = 2..4 (mutual information 0), weights that are not float32 '
        'numbers or exceed 2^24, dendrograms of Paris. A cut/aggregation case is non-trivial when the function returns and the result '
        'has more than one and fewer than n clusters; a metric case when the graph has at least two edges; distinct = distinct '
        '(function, dendrogram, options, graph)')
ASSUMPTIONS = ['np.argsort(-sizes) returns a permutation sorting the sizes in non-increasing order (order among equal sizes free)',
               'np.sort / np.lexsort sort; scipy csr construction, A + A.T, diags, dot are the substrate',
               'float64 rounding of the metrics is outside the theorems (which are over the rationals / reals): values are '
               'compared within 1e-9 (1 + |x|); tree_sampling_divergence: the bits of the model\'s Float value are decoded and '
               'compared within 1e-9 (1 + |x|) + 2e-14 / max(mutual information, 1e-10), not bit for bit',
               'the theorems about the count, the threshold and return_dendrogram=True of cut_straight assume heights that never '
               'decrease towards the root; the executable specification does not (known findings F24b, F24c on inputs with an inversion)',
               "a self-loop's smallest cluster is the first merge containing its node (clusters = merges of the dendrogram): the "
               'definition was written to agree with the code on loops; the property text read literally would charge size 1']


# ---------------------------------------------------------------------------------------------------
# encoding
# ---------------------------------------------------------------------------------------------------
def _opt(x):
    return '_' if x is None else str(int(x))


def _opt_ht(x):
    return '_' if x is None else dd.enc_ht(x)


# the forms of a threshold that is exactly zero: all of them are falsy in Python and are thresholds all the same
ZERO_FORMS = {'int': 0, 'float': 0.0, 'negzero': -0.0, 'np.float64': np.float64(0.0)}


def _thr_form(x):
    """how the threshold is handed over (the model sees its value only)"""
    if x is None:
        return None
    if isinstance(x, np.floating):
        return 'np.float64'
    if isinstance(x, int):
        return 'int'
    return 'negzero' if (x == 0 and math.copysign(1.0, x) < 0) else 'float'


def _thr_key(x):
    return None if x is None else (_thr_form(x), dd.enc_ht(x))


def _thr_from(tok, form):
    if tok is None:
        return None
    v = float('inf') if tok == 'inf' else float(Fraction(tok))
    if form == 'int' and v == int(v):
        return int(v)
    if form == 'negzero' and v == 0:
        return -0.0
    if form == 'np.float64':
        return np.float64(v)
    return v


def _enc_cut(out, ret):
    if ret:
        labels, dn = out
        dt = dd.enc_dendro(dn)
        if dt is None:
            return 'malformed-dendrogram'
        return 'ok %s %s' % (enc_list(labels), dt)
    return 'ok %s _' % enc_list(out)


def _ddesc(d):
    return [[int(r[0]), int(r[1]), dd.enc_ht(r[2]), int(r[3])] for r in d]


def _dfrom(desc):
    return np.array([[r[0], r[1], float('inf') if r[2] == 'inf' else float(Fraction(r[2])), r[3]] for r in desc],
                    dtype=float).reshape(len(desc), 4)


def _kclass(k, n):
    if k is None:
        return 'none'
    if k == 1:
        return 'one'
    if k == n:
        return 'n'
    if k < 1 or k > n:
        return 'out-of-range'
    return 'mid'


# ---------------------------------------------------------------------------------------------------
# the caller keeps the objects he passes: a function that writes into its arguments changes the tree (or the graph)
# every later call is given.  Each call gets working copies; when a call has changed them, the answer that is judged
# (against the ORIGINAL tree) is the one of a second call on the same objects — the history `f(d); f(d)` of a caller
# who keeps `d` — and the case says so.
# ---------------------------------------------------------------------------------------------------
HISTORY = {'mutated': False, 'count': 0}


def _unchanged(x, y):
    if sparse.issparse(x):
        return (x.shape == y.shape and np.array_equal(x.indptr, y.indptr) and np.array_equal(x.indices, y.indices)
                and np.array_equal(x.data, y.data, equal_nan=True))
    return x.shape == y.shape and x.dtype == y.dtype and np.array_equal(x, y, equal_nan=True)


def _kept(call, *args):
    """call(*working copies of args); a second time on the same objects when the first call modified one of them"""
    work = [x.copy() for x in args]
    HISTORY['mutated'] = False
    out = call(*work)
    if not all(_unchanged(w, x) for w, x in zip(work, args)):
        HISTORY['mutated'] = True
        HISTORY['count'] += 1
        out = call(*work)
    return out


def _note_history(c):
    if HISTORY['mutated']:
        c.sig = dict(c.sig, history='same object passed twice')
        c.desc = dict(c.desc, history='the first call modified its argument; judged: the answer of a second call on the same object')
    HISTORY['mutated'] = False
    return c


# ---------------------------------------------------------------------------------------------------
# cases
# ---------------------------------------------------------------------------------------------------
def case_straight(d, n, k, thr, srt, ret, mono=None):
    from sknetwork.hierarchy import cut_straight
    dt = dd.enc_dendro(d)
    impl = _call(lambda: _kept(lambda x: _enc_cut(cut_straight(x, n_clusters=k, threshold=thr, sort_clusters=srt,
                                                               return_dendrogram=ret), ret), d))
    hist = HISTORY['mutated']
    run = 'c08.cut_straight %s %s %s %s %s' % (dt, _opt(k), _opt_ht(thr), enc_bool(srt), enc_bool(ret))
    spec = None
    # the default n_clusters = 2 is not admissible on a single leaf
    admissible = (1 <= k <= n) if k is not None else (thr is not None or n >= 2)
    nontriv = False
    if impl.startswith('ok '):
        _, lab, red = impl.split(' ')
        spec = 'c08.spec_straight %s %s %s %s %s %s' % (dt, _opt(k), _opt_ht(thr), enc_bool(srt), lab, red)
        kk = len(set(dec_list(lab)))
        nontriv = 1 < kk < n
    sig = {'entry': 'cut_straight', 'n_clusters': _kclass(k, n), 'threshold': thr is not None,
           'return_dendrogram': ret}
    if thr is not None and thr == 0:
        sig['threshold_zero'] = True
    if mono is None:
        mono = dd.is_mono_paths(d, n)
    if not mono:
        sig['mono'] = False            # a child merge higher than its parent somewhere (valid, but see F24)
    desc = {'f': 'cut_straight', 'dendrogram': _ddesc(d), 'n_clusters': k, 'threshold': None if thr is None else dd.enc_ht(thr),
            'threshold_form': _thr_form(thr), 'sort_clusters': srt, 'return_dendrogram': ret}
    c = Case(('straight', dt, k, _thr_key(thr), srt, ret), sig, run, impl, spec, nontriv, desc, canon='labels')
    c.tol = admissible
    HISTORY['mutated'] = hist
    return _note_history(c)


def case_balanced(d, n, m, srt, ret, omitted=False):
    """`omitted`: call with the dendrogram only (the defaults max_cluster_size=20, sort_clusters=True,
    return_dendrogram=False are then what `m`, `srt`, `ret` must be)"""
    from sknetwork.hierarchy import cut_balanced
    dt = dd.enc_dendro(d)
    if omitted:
        impl = _call(lambda: _kept(lambda x: _enc_cut(cut_balanced(x), False), d))
    else:
        impl = _call(lambda: _kept(lambda x: _enc_cut(cut_balanced(x, max_cluster_size=m, sort_clusters=srt,
                                                                   return_dendrogram=ret), ret), d))
    hist = HISTORY['mutated']
    run = 'c08.cut_balanced %s %d %s %s' % (dt, m, enc_bool(srt), enc_bool(ret))
    spec = None
    nontriv = False
    if impl.startswith('ok '):
        _, lab, red = impl.split(' ')
        spec = 'c08.spec_balanced %s %d %s %s %s' % (dt, m, enc_bool(srt), lab, red)
        kk = len(set(dec_list(lab)))
        nontriv = 1 < kk < n
    sig = {'entry': 'cut_balanced', 'return_dendrogram': ret, 'max_cluster_size': 'n' if m == n else ('two' if m == 2 else 'other')}
    desc = {'f': 'cut_balanced', 'dendrogram': _ddesc(d), 'max_cluster_size': m, 'sort_clusters': srt, 'return_dendrogram': ret}
    if omitted:
        sig['defaults'] = True
        desc['omitted'] = True
    c = Case(('balanced', dt, m, srt, ret, omitted), sig, run, impl, spec, nontriv, desc, canon='labels')
    c.tol = (2 <= m <= n)
    HISTORY['mutated'] = hist
    return _note_history(c)


def case_aggregate(d, n, k, cnt, omitted=False):
    """`omitted`: call with the dendrogram only (defaults n_clusters=2, return_counts=False)"""
    from sknetwork.hierarchy import aggregate_dendrogram

    def f(x):
        out = aggregate_dendrogram(x) if omitted else aggregate_dendrogram(x, n_clusters=k, return_counts=cnt)
        if cnt:
            a, c = out
            ctok = enc_list(c)
        else:
            a, ctok = out, '_'
        at = dd.enc_dendro(a)
        if at is None:
            return 'malformed-dendrogram'
        return 'ok %s %s' % (at, ctok)
    dt = dd.enc_dendro(d)
    impl = _call(lambda: _kept(f, d))
    hist = HISTORY['mutated']
    run = 'c08.aggregate %s %d %s' % (dt, k, enc_bool(cnt))
    spec = None
    if impl.startswith('ok '):
        _, at, ctok = impl.split(' ')
        spec = 'c08.spec_agg %s %d %s %s' % (dt, k, at, ctok)
    sig = {'entry': 'aggregate_dendrogram', 'return_counts': cnt, 'n_clusters': _kclass(k, n)}
    desc = {'f': 'aggregate_dendrogram', 'dendrogram': _ddesc(d), 'n_clusters': k, 'return_counts': cnt}
    if omitted:
        sig['defaults'] = True
        desc['omitted'] = True
    c = Case(('aggregate', dt, k, cnt, omitted), sig, run, impl, spec, impl.startswith('ok') and 1 < k < n, desc)
    c.tol = (1 <= k <= n)
    HISTORY['mutated'] = hist
    return _note_history(c)


def _mat_tok(a):
    m = a.toarray()
    return ';'.join(','.join(enc_rat(Fraction(float(x))) for x in row) for row in m)


def cases_metrics(a, d, n, gname=''):
    from sknetwork.hierarchy import dasgupta_cost, dasgupta_score, tree_sampling_divergence
    out = []
    dt = dd.enc_dendro(d)
    mt = _mat_tok(a)
    gdesc = {'n': n, 'dense': a.toarray().tolist()}
    nontriv = a.nnz >= 2
    admissible = bool(a.nnz >= 1 and n >= 2 and (a.data > 0).any())      # an empty graph is refused (ValueError)
    for weights in ('uniform', 'degree'):
        deg = enc_bool(weights == 'degree')
        for norm in (False, True):
            def f():
                v = float(_kept(lambda x, y: dasgupta_cost(x, y, weights=weights, normalized=norm), a, d))
                return 'ok ' + repr(v)
            impl = _call(f)
            hist = HISTORY['mutated']
            run = 'c08.dasgupta %d %s %s %s %s' % (n, mt, dt, deg, enc_bool(norm))
            spec = None
            if impl.startswith('ok '):
                spec = 'c08.spec_dasgupta %d %s %s %s %s %s' % (n, mt, dt, deg, enc_bool(norm), enc_rat(Fraction(float(impl[3:]))))
            c = Case(('dasgupta_cost', mt, dt, weights, norm), {'entry': 'dasgupta_cost', 'weights': weights, 'normalized': norm},
                     run, impl, spec, nontriv,
                     {'f': 'dasgupta_cost', 'graph': gdesc, 'dendrogram': _ddesc(d), 'weights': weights, 'normalized': norm},
                     canon='rat')
            c.tol = admissible
            HISTORY['mutated'] = hist
            out.append(_note_history(c))

            def g():
                v = float(_kept(lambda x, y: tree_sampling_divergence(x, y, weights=weights, normalized=norm), a, d))
                return 'ok ' + repr(v)
            impl = _call(g)
            hist = HISTORY['mutated']
            canon = 'bits'
            if norm and impl.startswith('ok '):
                # the quotient score / mutual_information is ill-conditioned when the mutual information is small: both
                # sums carry an absolute rounding error of a few 1e-16 (p log(p/q) with p/q close to 1), so the quotient
                # is known to about 2e-14 / mutual_information only; the comparison allows that much on top of TOL
                try:
                    vu = float(tree_sampling_divergence(a.copy(), d.copy(), weights=weights, normalized=False))
                    vn = float(impl[3:])
                    mi = vu / vn if vn > 0 and vu > 0 else None
                except Exception:
                    mi = None
                if mi is not None and mi > 0:
                    canon = 'bits:%r' % mi
            run = 'c08.tsd %d %s %s %s %s' % (n, mt, dt, deg, enc_bool(norm))
            spec = None
            if impl.startswith('ok '):
                v = float(impl[3:])
                if norm:
                    spec = 'c08.spec_range %s' % (enc_rat(Fraction(v)) if math.isfinite(v) else '2')
                else:
                    # 0 <= TSD <= mutual information (the clip of the normalised value hides the second inequality)
                    spec = 'c08.spec_tsd %d %s %s %s %s' % (n, mt, dt, deg, enc_rat(Fraction(v)) if math.isfinite(v) else '-1')
            c = Case(('tsd', mt, dt, weights, norm), {'entry': 'tree_sampling_divergence', 'weights': weights, 'normalized': norm},
                     run, impl, spec, nontriv,
                     {'f': 'tree_sampling_divergence', 'graph': gdesc, 'dendrogram': _ddesc(d), 'weights': weights, 'normalized': norm},
                     canon=canon)
            c.tol = admissible
            HISTORY['mutated'] = hist
            out.append(_note_history(c))

        def h():
            v = float(_kept(lambda x, y: dasgupta_score(x, y, weights=weights), a, d))
            return 'ok ' + repr(v)
        impl = _call(h)
        hist = HISTORY['mutated']
        spec = None
        if impl.startswith('ok '):
            v = float(impl[3:])
            spec = 'c08.spec_range %s' % (enc_rat(Fraction(v)) if math.isfinite(v) else '2')
        c = Case(('dasgupta_score', mt, dt, weights), {'entry': 'dasgupta_score', 'weights': weights},
                 'c08.dasgupta_score %d %s %s %s' % (n, mt, dt, deg), impl, spec, nontriv,
                 {'f': 'dasgupta_score', 'graph': gdesc, 'dendrogram': _ddesc(d), 'weights': weights}, canon='rat')
        c.tol = admissible
        HISTORY['mutated'] = hist
        out.append(_note_history(c))
    return out


# ---------------------------------------------------------------------------------------------------
# comparison
# ---------------------------------------------------------------------------------------------------
def _relabel_equal(model, impl):
    """the two labellings are the same partition of the nodes (any renaming of the labels is accepted here: the order
    of the labels — non-increasing sizes when sort_clusters — is checked by the spec line `sizes-not-non-increasing`,
    and np.argsort is free on ties); the reduced dendrogram is compared after applying the same renaming to its leaf
    ids."""
    try:
        _, ml, mr = model.split(' ')
        _, il, ir = impl.split(' ')
    except ValueError:
        return False
    ml, il = dec_list(ml), dec_list(il)
    if len(ml) != len(il):
        return False
    fwd = {}
    for a, b in zip(ml, il):
        if fwd.setdefault(a, b) != b:
            return False
    if len(set(fwd.values())) != len(fwd):
        return False
    size = {}
    for a in ml:
        size[a] = size.get(a, 0) + 1
    isize = {}
    for b in il:
        isize[b] = isize.get(b, 0) + 1
    if any(size[a] != isize[b] for a, b in fwd.items()):
        return False
    if mr == '_' or ir == '_':
        return mr == ir
    if mr == '-' or ir == '-':
        return mr == ir
    k = len(fwd)
    rows_m = [r.split(',') for r in mr.split(';')]
    rows_i = [r.split(',') for r in ir.split(';')]
    if len(rows_m) != len(rows_i):
        return False
    for rm, ri in zip(rows_m, rows_i):
        a, b = int(rm[0]), int(rm[1])
        a = fwd.get(a, a) if a < k else a
        b = fwd.get(b, b) if b < k else b
        if [str(a), str(b), rm[2], rm[3]] != ri:
            return False
    return True


def _same(c, model, impl, spec_ok):
    if model.startswith('err') and impl.startswith('err'):
        return model == impl
    if c.canon == 'labels' and model.startswith('ok') and impl.startswith('ok'):
        return _relabel_equal(model, impl)
    if c.canon == 'rat' and model.startswith('ok') and impl.startswith('ok'):
        m = float(Fraction(model[3:]))
        v = float(impl[3:])
        return abs(m - v) <= TOL * (1 + abs(m))
    if str(c.canon).startswith('bits') and model.startswith('ok') and impl.startswith('ok'):
        m = dd.float_from_bits(model[3:])
        v = float(impl[3:])
        extra = 0.0
        if ':' in c.canon:
            extra = 2e-14 / max(float(c.canon.split(':', 1)[1]), 1e-10)      # at most 2e-4, at the threshold of the guard
        return abs(m - v) <= TOL * (1 + abs(m)) + extra
    return False


class _ClauseCtx:
    """The context seen by the evaluation: a failure of the specification carries the clause that failed in its
    signature (`clause`), so that a known finding names the failing clause and not merely the class of inputs."""

    def __init__(self, ctx):
        object.__setattr__(self, '_ctx', ctx)

    def __getattr__(self, name):
        return getattr(object.__getattribute__(self, '_ctx'), name)

    def __setattr__(self, name, value):
        setattr(object.__getattribute__(self, '_ctx'), name, value)

    def spec_fail(self, sig, case, detail):
        if 'raised-on-admissible-input' in detail:
            clause = 'raised ' + str(detail['raised-on-admissible-input'])
        else:
            clause = ' '.join(str(detail.get('spec_answer', '')).split(' ')[:2])
        object.__getattribute__(self, '_ctx').spec_fail(dict(sig, clause=clause), case, detail)


def evaluate(ctx, cases):
    ctx = _ClauseCtx(ctx)
    # an exception (or a malformed array) on an admissible input is a failure of the property itself
    for c in cases:
        if c.tol and not str(c.impl).startswith('ok'):
            ctx.spec_fail(c.sig, c.desc, {'raised-on-admissible-input': c.impl})
    _evaluate(ctx, cases, same=_same)


# ---------------------------------------------------------------------------------------------------
# generators
# ---------------------------------------------------------------------------------------------------
def thresholds_for(d, rng, full):
    hs = sorted(set(float(x) for x in d[:, 2] if math.isfinite(x)))
    cand = [None]
    if hs:
        cand += [hs[0] - 1.0, hs[0], hs[-1], hs[-1] + 1.0]
        cand += [(a + b) / 2 for a, b in zip(hs, hs[1:])]
        cand += hs[1:-1]
    cand += [float('inf')]
    # the special value zero in its forms (0 == 0.0 == -0.0: told apart by the form, not by the value)
    signed = bool(hs) and hs[0] <= 0
    zeros = [ZERO_FORMS[f] for f in (('int', 'float', 'negzero', 'np.float64') if signed else ('int', 'float'))]
    seen, out = set(), []
    for x in cand:
        if x is not None and x == 0:
            continue                     # zero comes in through `zeros`
        if _thr_key(x) not in seen:
            seen.add(_thr_key(x))
            out.append(x)
    if not full and len(out) > 4:
        out = [None] + rng.sample(out[1:], 3)
    if not full:
        zeros = rng.sample(zeros, 2 if signed else 1)
    return out + zeros


def cases_for_dendro(ctx, d, n, rng, full, mono):
    """Cases for one dendrogram. `mono`: heights never decrease towards the root."""
    out = []
    ks = [None] + list(range(0, n + 2))
    thrs = thresholds_for(d, rng, full)
    combos = [(k, thr, srt, ret) for k in ks for thr in thrs for srt in (True, False) for ret in (False, True)]
    if not full:
        must = [c for c in combos if c[0] in (1, n) and c[1] is None and c[2]]
        # threshold exactly zero: alone, and together with an n_clusters whose own cut lies below / above it
        zero = [c for c in combos if c[1] is not None and c[1] == 0]
        zero_alone = [c for c in zero if c[0] is None]
        zero_both = [c for c in zero if c[0] is not None and 1 <= c[0] <= n]
        negative = bool(len(d)) and float(np.min(d[:, 2])) < 0
        combos = (rng.sample(must, min(2, len(must))) + rng.sample(combos, min(7, len(combos)))
                  + rng.sample(zero_alone, min(2 if negative else 1, len(zero_alone)))
                  + rng.sample(zero_both, min(2 if negative else 1, len(zero_both))))
    for k, thr, srt, ret in combos:
        out.append(case_straight(d, n, k, thr, srt, ret, mono))
    combos = [(m, srt, ret) for m in range(1, n + 2) for srt in (True, False) for ret in (False, True)]
    if not full:
        combos = rng.sample(combos, min(4, len(combos)))
    for m, srt, ret in combos:
        out.append(case_balanced(d, n, m, srt, ret))
    combos = [(k, cnt) for k in range(0, n + 2) for cnt in (False, True)]
    if not full:
        must = [(1, True), (n, True)]
        combos = must + rng.sample(combos, min(3, len(combos)))
    for k, cnt in combos:
        out.append(case_aggregate(d, n, k, cnt))
    # the defaults, by omission of the arguments
    if full or rng.random() < 0.1:
        out.append(case_aggregate(d, n, 2, False, omitted=True))
        out.append(case_balanced(d, n, 20, True, False, omitted=True))
    return out


def dendros(ctx, rng, quick):
    """(dendrogram, n, mono, full_options) stream."""
    modes = dd.ALL_MODES
    # a single leaf: the empty dendrogram
    ctx.count('dendro:n=1')
    yield np.zeros((0, 4)), 1, True, True
    for n in (2, 3):
        for pairs in dd.all_merge_orders(n):
            for mode in modes:
                hs = dd.heights_for(rng, pairs, n, mode)
                d = dd.mk_dendro(pairs, hs, n, rng)
                ctx.count('dendro:n=%d' % n)
                ctx.count('heights:' + mode)
                yield d, n, dd.is_mono_paths(d, n), True
    sizes = [(4, None), (5, None)] + ([(6, 120)] if quick else [(6, None), (7, 2500)])
    for n, limit in sizes:
        orders = list(dd.all_merge_orders(n))
        if limit is not None and len(orders) > limit:
            orders = rng.sample(orders, limit)
        for pairs in orders:
            ms = modes if (n == 4 or not quick) else rng.sample(dd.HEIGHT_MODES, 2) + rng.sample(dd.SIGNED_MODES, 1)
            for mode in ms:
                hs = dd.heights_for(rng, pairs, n, mode)
                d = dd.mk_dendro(pairs, hs, n, rng)
                ctx.count('dendro:n=%d' % n)
                ctx.count('heights:' + mode)
                yield d, n, dd.is_mono_paths(d, n), (n == 4)
    for it in range(90 if quick else 1200):
        n = rng.randint(7, 10)
        pairs = rng.choice([dd.random_merge_order(rng, n), dd.random_merge_order(rng, n), dd.caterpillar(n)])
        mode = rng.choice(dd.HEIGHT_MODES if it % 3 else dd.SIGNED_MODES)
        d = dd.mk_dendro(pairs, dd.heights_for(rng, pairs, n, mode), n, rng)
        ctx.count('dendro:n=%d' % n)
        ctx.count('heights:' + mode)
        yield d, n, dd.is_mono_paths(d, n), False


def extra_dendros(ctx, rng, quick):
    """dendrograms with more than 20 leaves (the default max_cluster_size = 20 of cut_balanced is admissible there)
    and dendrograms returned by Paris on weighted graphs (heights that are not dyadic numbers)."""
    from sknetwork.hierarchy import Paris
    for _ in range(3 if quick else 40):
        n = rng.randint(21, 26)
        pairs = dd.random_merge_order(rng, n)
        d = dd.mk_dendro(pairs, dd.heights_for(rng, pairs, n, rng.choice(['distinct', 'ties', 'mono_unsorted', 'neg_depth',
                                                                          'zero_at', 'log'])), n, rng)
        ctx.count('dendro:n>20')
        yield d, n, dd.is_mono_paths(d, n)
    for name, n, es, w in graphs.suite(rng, 12 if quick else 150, 3, 9, weights=[1, 2, 3, 0.7], directed_ok=False):
        if not es:
            ctx.count('skipped:no-edge')
            continue
        a = graphs.csr_from_edges(n, es, w)
        if a.nnz == 0:
            ctx.count('skipped:no-edge')
            continue
        try:
            d = Paris(reorder=rng.random() < 0.7).fit_predict(a)
        except Exception as e:
            ctx.count('dendro:paris-raised:' + type(e).__name__)
            continue
        if dd.enc_dendro(d) is None or dd.valid_dendro(d, n) is not None:
            ctx.count('dendro:paris-dropped')
            continue
        ctx.count('dendro:paris')
        yield d, n, dd.is_mono_paths(d, n)
        # the same tree on a logarithmic scale (heights below 1 become negative; +inf stays)
        if np.all(d[:, 2] > 0):
            dl = d.copy()
            with np.errstate(over='ignore'):
                dl[:, 2] = np.log(d[:, 2])
            if dd.enc_dendro(dl) is not None:
                ctx.count('dendro:paris-log')
                yield dl, n, dd.is_mono_paths(dl, n)


def metric_inputs(ctx, rng, quick):
    """(adjacency csr, dendrogram, n, name) stream."""
    # all undirected graphs on 3 nodes (loops allowed) x all merge orders
    for es in graphs.all_undirected(3, loops=True):
        if not es:
            continue
        a = graphs.csr_from_edges(3, es, [1.0] * len(es))
        for pairs in dd.all_merge_orders(3):
            d = dd.mk_dendro(pairs, dd.heights_for(rng, pairs, 3, 'distinct'), 3, rng)
            yield a, d, 3, 'all3'
    # all digraphs on 3 nodes, sampled
    dg = [es for es in graphs.all_digraphs(3) if es]
    for es in (rng.sample(dg, 12) if quick else dg):
        a = graphs.csr_from_edges(3, es, [float(rng.choice([1, 2, 3])) for _ in es])
        pairs = rng.choice(list(dd.all_merge_orders(3)))
        yield a, dd.mk_dendro(pairs, dd.heights_for(rng, pairs, 3, 'ties'), 3, rng), 3, 'digraph3'
    for name, n, es, w in graphs.suite(rng, 42 if quick else 600, 3, 9, weights=[1, 1, 2, 3, 0.5]):
        if not es:
            ctx.count('skipped:no-edge')
            continue
        a = graphs.csr_from_edges(n, es, w)
        if a.nnz == 0:
            ctx.count('skipped:no-edge')
            continue
        pairs = dd.random_merge_order(rng, n)
        mode = rng.choice(dd.HEIGHT_MODES)
        d = dd.mk_dendro(pairs, dd.heights_for(rng, pairs, n, mode), n, rng)
        ctx.count('metric-graph:' + name.rstrip('0123456789'))
        yield a, d, n, name
    # larger graphs
    for name, n, es, w in graphs.suite(rng, 6 if quick else 80, 10, 16, weights=[1, 2, 3, 0.5]):
        if not es:
            ctx.count('skipped:no-edge')
            continue
        a = graphs.csr_from_edges(n, es, w)
        if a.nnz == 0:
            ctx.count('skipped:no-edge')
            continue
        pairs = dd.random_merge_order(rng, n)
        d = dd.mk_dendro(pairs, dd.heights_for(rng, pairs, n, rng.choice(dd.HEIGHT_MODES)), n, rng)
        ctx.count('metric-graph:n>=10')
        yield a, d, n, 'large-' + name
    # the smallest admissible size: every non-empty matrix pattern on 2 nodes, unit and mixed weights
    d2 = np.array([[0, 1, 1.0, 2]], dtype=float)
    # empty graphs: refused by the code and by the model (the errors are compared)
    ctx.count('metric-graph:empty')
    yield sparse.csr_matrix((2, 2), dtype=float), d2.copy(), 2, 'empty'
    yield sparse.csr_matrix((3, 3), dtype=float), np.array([[0, 1, 1.0, 2], [3, 2, 2.0, 3]], dtype=float), 3, 'empty'
    for bits in range(1, 16):
        slots = [(0, 0), (0, 1), (1, 0), (1, 1)]
        es = [slots[k] for k in range(4) if bits >> k & 1]
        for ws in ([1.0] * len(es), [float(rng.choice([1, 2, 3, 5, 0.7])) for _ in es]):
            ctx.count('metric-graph:n=2')
            yield graphs.csr_from_edges(2, es, ws), d2.copy(), 2, 'n2'
    # rank-one matrices outer(r, c): the exact mutual information of tree_sampling_divergence is 0 for degree weights
    for _ in range(40 if quick else 600):
        n = rng.randint(2, 4)
        r = [rng.randint(1, 7) for _ in range(n)]
        c = r if rng.random() < 0.4 else [rng.randint(1, 7) for _ in range(n)]
        m = np.outer(r, c).astype(float)
        a = sparse.csr_matrix(m)
        pairs = dd.random_merge_order(rng, n)
        d = dd.mk_dendro(pairs, dd.heights_for(rng, pairs, n, 'distinct'), n, rng)
        ctx.count('metric-graph:rank-one')
        yield a, d, n, 'rank-one'
    # weights that are not float32 numbers (0.1, 0.7, 1/3, 3.3) or not below 2^24
    for name, n, es, w in graphs.suite(rng, 30 if quick else 400, 2, 7, weights=[0.1, 0.7, 1.0 / 3, 3.3, float(2 ** 24 + 1), 1.0, 2.0]):
        if not es:
            ctx.count('skipped:no-edge')
            continue
        a = graphs.csr_from_edges(n, es, w)
        if a.nnz == 0:
            ctx.count('skipped:no-edge')
            continue
        pairs = dd.random_merge_order(rng, n)
        d = dd.mk_dendro(pairs, dd.heights_for(rng, pairs, n, rng.choice(dd.HEIGHT_MODES)), n, rng)
        ctx.count('metric-graph:non-dyadic ' + name.rstrip('0123456789'))
        yield a, d, n, 'nondyadic-' + name
    # Paris' own dendrograms (the intended use)
    from sknetwork.hierarchy import Paris
    for name, n, es, w in graphs.suite(rng, 10 if quick else 100, 3, 9, weights=[1, 2], directed_ok=False):
        if not es:
            ctx.count('skipped:no-edge')
            continue
        a = graphs.csr_from_edges(n, es, w)
        if a.nnz == 0:
            ctx.count('skipped:no-edge')
            continue
        try:
            d = Paris().fit_predict(a)
        except Exception as e:
            ctx.count('metric-graph:paris-raised:' + type(e).__name__)
            continue
        if dd.enc_dendro(d) is None or dd.valid_dendro(d, n) is not None:
            ctx.count('metric-graph:paris-dendrogram-dropped')
            continue
        ctx.count('metric-graph:paris')
        yield a, d, n, 'paris-' + name


def corpus_cases(ctx):
    p = os.path.join(VERIF, 'corpus', 'C08.jsonl')
    out = []
    if os.path.exists(p):
        for ln in open(p):
            ln = ln.strip()
            if ln and not ln.startswith('#'):
                out += cases_from_desc(json.loads(ln))
                ctx.count('corpus')
    return out


def cases_from_desc(desc):
    f = desc.get('f')
    if 'dendrogram' not in desc:
        return []
    d = _dfrom(desc['dendrogram'])
    n = len(d) + 1
    thr = _thr_from(desc.get('threshold'), desc.get('threshold_form'))
    if f == 'cut_straight':
        return [case_straight(d, n, desc.get('n_clusters'), thr, desc.get('sort_clusters', True), desc.get('return_dendrogram', False))]
    if f == 'cut_balanced':
        return [case_balanced(d, n, desc['max_cluster_size'], desc.get('sort_clusters', True), desc.get('return_dendrogram', False),
                              omitted=desc.get('omitted', False))]
    if f == 'aggregate_dendrogram':
        return [case_aggregate(d, n, desc['n_clusters'], desc.get('return_counts', False), omitted=desc.get('omitted', False))]
    if f in ('dasgupta_cost', 'dasgupta_score', 'tree_sampling_divergence'):
        a = sparse.csr_matrix(np.array(desc['graph']['dense'], dtype=float))
        return [c for c in cases_metrics(a, d, n) if c.desc['f'] == f and c.desc['weights'] == desc['weights']
                and c.desc.get('normalized') == desc.get('normalized')]
    return []


def build_cases(ctx):
    rng = ctx.rng
    quick = ctx.quick
    cases = corpus_cases(ctx)
    for d, n, mono, full in dendros(ctx, rng, quick):
        cases += cases_for_dendro(ctx, d, n, rng, full, mono)
    for d, n, mono in extra_dendros(ctx, rng, quick):
        cases += cases_for_dendro(ctx, d, n, rng, False, mono)
        cases.append(case_balanced(d, n, 20, True, False, omitted=True))
        cases.append(case_aggregate(d, n, 2, False, omitted=True))
    for a, d, n, name in metric_inputs(ctx, rng, quick):
        cases += cases_metrics(a, d, n, name)
    return cases


def run(ctx):
    HISTORY['count'] = 0
    cases = build_cases(ctx)
    # calls that changed the dendrogram / the graph they were given (each is judged on a second call on the same objects)
    ctx.count('calls-that-modified-an-argument', HISTORY['count'])
    evaluate(ctx, cases)


# ---------------------------------------------------------------------------------------------------
# failing-input search, replay
# ---------------------------------------------------------------------------------------------------
def search(ctx, pending):
    """The Lean specification evaluated on the implementation over the exhaustive small space
    (all merge orders n <= 4 x all height patterns x all options; metrics on all graphs of 3 nodes)."""
    rng = ctx.rng
    cases = []
    for n in (2, 3, 4):
        for pairs in dd.all_merge_orders(n):
            for mode in dd.ALL_MODES:
                d = dd.mk_dendro(pairs, dd.heights_for(rng, pairs, n, mode), n, rng)
                cases += cases_for_dendro(ctx, d, n, rng, True, dd.is_mono_paths(d, n))
    for es in graphs.all_undirected(3, loops=True):
        if es:
            a = graphs.csr_from_edges(3, es, [1.0] * len(es))
            for pairs in dd.all_merge_orders(3):
                cases += cases_metrics(a, dd.mk_dendro(pairs, [1.0, 2.0], 3), 3)
    # the first inputs of every metric stream of the run (digraphs, weights, n = 2, rank one, non-dyadic weights)
    sub0 = Sub(ctx)
    seen = {}
    for a, d, n, name in metric_inputs(sub0, rng, True):
        key = name.split('-')[0]
        if seen.get(key, 0) >= 12:
            continue
        seen[key] = seen.get(key, 0) + 1
        cases += cases_metrics(a, d, n, name)
    sub = Sub(ctx)
    evaluate(sub, cases)
    return sub.found()


def replay(ctx, payload):
    case = payload.get('case') or {}
    if not case and isinstance(payload.get('what_no_longer_checks'), dict):
        case = payload['what_no_longer_checks'].get('case') or {}
    cs = cases_from_desc(case)
    if not cs:
        ctx.note('replay: the payload does not describe a re-runnable case; running the whole tier instead')
        cs = build_cases(ctx)
    evaluate(ctx, cs)
