"""Dendrogram helpers shared by the C07 / C08 harnesses: protocol encoding, enumeration of all merge orders,
height patterns, a Python validity oracle (used only by the failing-input searches)."""
import itertools
import math
import struct
from fractions import Fraction

import numpy as np


def enc_ht(x):
    x = float(x)
    if math.isinf(x) and x > 0:
        return 'inf'
    if math.isnan(x) or math.isinf(x):
        return None
    f = Fraction(x)
    return str(f.numerator) if f.denominator == 1 else '%d/%d' % (f.numerator, f.denominator)


def enc_dendro(d):
    """numpy dendrogram (k x 4) -> protocol token; None when a child / size is not a non-negative integer."""
    d = np.asarray(d)
    if d.size == 0:
        return '-'
    if d.ndim != 2 or d.shape[1] != 4:
        return None
    rows = []
    for r in d:
        i, j, h, s = (float(r[0]), float(r[1]), float(r[2]), float(r[3]))
        for v in (i, j, s):
            if not (v >= 0 and v == int(v)):
                return None
        hh = enc_ht(h)
        if hh is None:
            return None
        rows.append('%d,%d,%s,%d' % (int(i), int(j), hh, int(s)))
    return ';'.join(rows)


def dec_dendro(tok):
    if tok == '-':
        return np.zeros((0, 4))
    rows = []
    for r in tok.split(';'):
        i, j, h, s = r.split(',')
        rows.append([int(i), int(j), float('inf') if h == 'inf' else float(Fraction(h)), int(s)])
    return np.array(rows, dtype=float)


def float_from_bits(b):
    return struct.unpack('<d', struct.pack('<Q', int(b)))[0]


def all_merge_orders(n):
    """All sequences of n-1 merges of unordered pairs of live clusters (nodes 0..n-1 leaves, row t -> n+t)."""
    def rec(live, t):
        if len(live) == 1:
            yield []
            return
        for a, b in itertools.combinations(live, 2):
            rest = [x for x in live if x != a and x != b] + [n + t]
            for tail in rec(rest, t + 1):
                yield [(a, b)] + tail
    return rec(list(range(n)), 0)


def random_merge_order(rng, n):
    live = list(range(n))
    out = []
    for t in range(n - 1):
        a, b = rng.sample(live, 2)
        live = [x for x in live if x != a and x != b] + [n + t]
        out.append((a, b))
    return out


def caterpillar(n):
    out = [(0, 1)]
    for t in range(1, n - 1):
        out.append((n + t - 1, t + 1))
    return out


HEIGHT_MODES = ['distinct', 'tied', 'ties', 'mono_unsorted', 'distinct_unsorted', 'inf_tail', 'random']
# heights that are negative / zero / of both signs (log-scale heights, heights = minus depth as get_dendrogram writes them)
SIGNED_MODES = ['neg_depth', 'zero_at', 'zero_between', 'nonpos', 'negative', 'log', 'signed_random', 'all_zero']
ALL_MODES = HEIGHT_MODES + SIGNED_MODES


def heights_for(rng, pairs, n, mode):
    """Heights for the rows. 'distinct'/'ties'/'tied'/'inf_tail' are non-decreasing in the row order,
    'mono_unsorted' never decreases towards the root but is not sorted by row ('distinct_unsorted': the same
    with pairwise distinct heights), 'random' is arbitrary."""
    m = len(pairs)
    if mode == 'distinct':
        hs, cur = [], 0.0
        for _ in range(m):
            cur += rng.choice([0.5, 1.0, 1.5, 2.0])
            hs.append(cur)
        return hs
    if mode == 'tied':
        return [1.0] * m
    if mode == 'ties':
        hs, cur = [], 1.0
        for _ in range(m):
            cur += rng.choice([0.0, 0.0, 1.0, 0.5])
            hs.append(cur)
        return hs
    if mode == 'inf_tail':
        k = rng.randint(1, max(1, m - 1))
        hs = heights_for(rng, pairs[:m - k], n, rng.choice(['distinct', 'ties'])) if m - k > 0 else []
        return hs + [float('inf')] * k
    if mode == 'mono_unsorted':
        hs = []
        for (a, b) in pairs:
            ha = hs[a - n] if a >= n else 0.0
            hb = hs[b - n] if b >= n else 0.0
            hs.append(max(ha, hb) + rng.choice([0.0, 1.0, 1.0, 2.5]))
        return hs
    if mode == 'distinct_unsorted':
        # never decreasing towards the root, pairwise distinct, rows not in the order of the heights (when possible)
        hs, used = [], set()
        for (a, b) in pairs:
            ha = hs[a - n] if a >= n else 0.0
            hb = hs[b - n] if b >= n else 0.0
            h = max(ha, hb) + rng.choice([0.25, 1.0, 3.0, 7.0])
            while h in used:
                h += 0.125
            used.add(h)
            hs.append(h)
        return hs
    if mode == 'random':
        return [float(rng.choice([0.5, 1.0, 2.0, 3.0, 4.0])) for _ in range(m)]
    if mode == 'neg_depth':
        # what get_dendrogram writes: float(-depth) of the merged node, the root at depth 0 (height -0.0 == 0.0);
        # a node created by row t is one level below the row that consumes it
        parent = {}
        for t, (a, b) in enumerate(pairs):
            parent[a] = n + t
            parent[b] = n + t
        hs = []
        for t in range(m):
            depth, x = 0, n + t
            while x in parent:
                x = parent[x]
                depth += 1
            hs.append(float(-depth))
        return hs
    if mode in ('zero_at', 'zero_between', 'nonpos', 'negative'):
        # a positive pattern (dyadic numbers: the shift is exact and keeps order and ties) moved so that 0 is one of the
        # heights / lies strictly between two heights / is the largest height / is above every height
        base = heights_for(rng, pairs, n, rng.choice(['distinct', 'ties', 'mono_unsorted', 'distinct_unsorted']))
        vals = sorted(set(base))
        if mode == 'zero_at':
            shift = rng.choice(vals)
        elif mode == 'zero_between':
            shift = rng.choice([(a + b) / 2 for a, b in zip(vals, vals[1:])]) if len(vals) > 1 else vals[0] + 0.5
        elif mode == 'nonpos':
            shift = vals[-1]
        else:
            shift = vals[-1] + rng.choice([0.5, 1.0, 3.0])
        return [h - shift for h in base]
    if mode == 'log':
        # logarithms of positive heights on both sides of 1 (not dyadic numbers; encoded exactly all the same)
        hs, cur = [], rng.choice([0.01, 0.1, 0.25])
        for _ in range(m):
            cur *= rng.choice([1.0, 1.5, 2.0, 3.0])
            hs.append(cur)
        if rng.random() < 0.5:
            hs[rng.randrange(m)] = 1.0          # a height exactly 0 after the logarithm
            hs.sort()
        return [math.log(h) for h in hs]
    if mode == 'signed_random':
        return [float(rng.choice([-2.0, -1.0, -0.5, 0.0, -0.0, 0.5, 1.0])) for _ in range(m)]
    if mode == 'all_zero':
        return [0.0] * m
    raise ValueError(mode)


def mk_dendro(pairs, hs, n, rng=None):
    """numpy dendrogram with correct sizes; children are swapped at random when an rng is given."""
    size = {i: 1 for i in range(n)}
    rows = []
    for t, ((a, b), h) in enumerate(zip(pairs, hs)):
        s = size[a] + size[b]
        size[n + t] = s
        if rng is not None and rng.random() < 0.5:
            a, b = b, a
        rows.append([a, b, h, s])
    return np.array(rows, dtype=float).reshape(len(rows), 4)


def is_mono_paths(d, n):
    for r in d:
        for c in (int(r[0]), int(r[1])):
            if c >= n and d[c - n][2] > r[2]:
                return False
    return True


def valid_dendro(d, n, weights=None):
    """Python validity oracle (search only): None if valid, else the name of the failing clause."""
    d = np.asarray(d)
    if d.ndim != 2 or d.shape != (n - 1, 4):
        return 'shape'
    avail = {i: (1 if weights is None else weights[i]) for i in range(n)}
    for t in range(n - 1):
        i, j = d[t, 0], d[t, 1]
        if i != int(i) or j != int(j):
            return 'non-integer child %d' % t
        i, j = int(i), int(j)
        if i == j or i not in avail or j not in avail:
            return 'merge %d' % t
        s = avail.pop(i) + avail.pop(j)
        if d[t, 3] != s:
            return 'size %d' % t
        avail[n + t] = s
    return None
