"""Supervised worker of the C17 harness: runs public algorithms of an overlay build of sknetwork on the
inputs it receives (one JSON task per line on stdin, one JSON answer per line on stdout).

The parent enforces the limit (CPU seconds of this process) and notices crashes (a dead worker).  An answer carries
  status : 'ok' | 'exc'
  exc    : exception class name, message (for 'exc')
  oob    : True when the exception is Cython's bounds check of the *checked* build
           ("Out of bounds on buffer access"), also when it was swallowed as an unraisable exception
  calls  : (optional) the arguments with which compiled kernels were entered (monitoring mode)
"""
import json
import os
import sys
import time
import warnings

root = sys.argv[1]
sys.path.insert(0, root)
os.environ.setdefault('OMP_NUM_THREADS', '2')
warnings.filterwarnings('ignore')

import numpy as np  # noqa: E402
from scipy import sparse  # noqa: E402

import sknetwork  # noqa: E402

assert os.path.abspath(sknetwork.__file__).startswith(os.path.abspath(root)), sknetwork.__file__

from sknetwork import classification, clustering, embedding, hierarchy, linkpred, path, ranking, regression, topology  # noqa: E402
from sknetwork.gnn import GNNClassifier  # noqa: E402

UNRAISABLE = []


def _hook(u):
    UNRAISABLE.append('%s: %s' % (type(u.exc_value).__name__, u.exc_value))


sys.unraisablehook = _hook


def gen_graph(g):
    """Large inputs of the scaling probe are described, not transmitted: a deterministic generator (numpy RandomState)
    * ring_chords   : undirected ring + n random chords (connected, about 2n edges, unit weights)
    * diring_chords : directed ring + n random arcs (strongly connected, about 2n arcs)
    * dag_chords    : arcs i -> j, i < j only: the path 0 -> 1 -> ... and n random forward arcs (acyclic)"""
    n, seed = int(g['n']), int(g.get('seed', 0))
    rs = np.random.RandomState(seed)
    i = np.arange(n)
    a, b = rs.randint(0, n, n), rs.randint(0, n, n)
    keep = a != b
    a, b = a[keep], b[keep]
    if g['gen'] == 'dag_chords':
        a, b = np.minimum(a, b), np.maximum(a, b)
        rows, cols = np.concatenate([i[:-1], a]), np.concatenate([i[1:], b])
    else:
        rows, cols = np.concatenate([i, a]), np.concatenate([(i + 1) % n, b])
    m = sparse.csr_matrix((np.ones(len(rows)), (rows, cols)), shape=(n, n))
    if g['gen'] == 'ring_chords':
        m = m + m.T
    m = sparse.csr_matrix(m)
    m.sum_duplicates()
    m.data[:] = 1.0
    m.indices = m.indices.astype(np.int32)
    m.indptr = m.indptr.astype(np.int32)
    return m


def mk(g):
    if g.get('gen'):
        return gen_graph(g)
    dt = {'float': float, 'bool': bool, 'int': int}[g.get('dtype', 'float')]
    a = sparse.csr_matrix((np.array(g['data'], dtype=dt), np.array(g['indices'], dtype=np.int32),
                           np.array(g['indptr'], dtype=np.int32)), shape=(g['n'], g['m']))
    return a


def labels_of(extra, n):
    lab = extra.get('labels')
    if lab is None:
        return {0: 0, n - 1: 1} if n > 1 else {0: 0}
    if isinstance(lab, dict):
        return {int(k): int(v) for k, v in lab.items()}
    return np.array(lab)


def values_of(extra, n):
    v = extra.get('values')
    if v is None:
        return {0: 1.0, n - 1: 0.0} if n > 1 else {0: 1.0}
    return {int(k): float(x) for k, x in v.items()}


def fit_labels(cls):
    def f(a, ex):
        alg = cls(**ex.get('params', {}))
        if 'labels_row' in ex or 'labels_col' in ex:
            kw = {}
            if ex.get('labels_row') is not None:
                kw['labels_row'] = {int(k): int(v) for k, v in ex['labels_row'].items()}
            if ex.get('labels_col') is not None:
                kw['labels_col'] = {int(k): int(v) for k, v in ex['labels_col'].items()}
            alg.fit(a, **kw)
        elif ex.get('labels_vec') is not None:
            alg.fit(a, np.array(ex['labels_vec']))
        else:
            alg.fit(a, labels_of(ex, a.shape[0]))
        return len(alg.labels_)
    return f


def fit_values(cls):
    def f(a, ex):
        alg = cls(**ex.get('params', {}))
        alg.fit(a, values_of(ex, a.shape[0]))
        return len(alg.values_)
    return f


def fit_plain(cls, out):
    def f(a, ex):
        alg = cls(**ex.get('params', {}))
        if ex.get('force_bipartite'):
            alg.fit(a, force_bipartite=True)
        else:
            alg.fit(a)
        return np.shape(getattr(alg, out))
    return f


class Val:
    """a result whose integer values go back to the harness (compared with a Lean model)"""

    def __init__(self, v):
        self.v = v


def fn(f, **kw):
    def g(a, ex):
        p = dict(kw)
        p.update(ex.get('params', {}))
        r = f(a, **p)
        if ex.get('want_value') and hasattr(r, 'shape') and np.asarray(r).dtype.kind in 'iub' and np.size(r) <= 256:
            return Val([int(x) for x in np.asarray(r).ravel()])
        return str(np.shape(r)) if hasattr(r, 'shape') else str(r)[:40]
    return g


def gnn(a, ex):
    n = a.shape[0]
    feats = sparse.identity(n, format='csr')
    lab = np.array([i % 2 for i in range(n)])
    if n > 2:
        lab[-1] = -1
    m = GNNClassifier(dims=[4, 2], **ex.get('params', {}))
    m.fit(a, feats, lab, n_epochs=5, random_state=0)
    return len(m.labels_)


def vote_kernel(a, ex):
    from sknetwork.classification.vote import vote_update
    labels = np.array(ex['labels_vec'], dtype=np.int32)
    index = np.array(ex['index'], dtype=np.int32)
    out = vote_update(a.indptr.astype(np.int32), a.indices.astype(np.int32), a.data.astype(np.float32), labels, index)
    return Val([int(x) for x in np.asarray(out)])


def iso(a, ex):
    return topology.are_isomorphic(a, a.copy())


def iso_pair(a, ex):
    """are_isomorphic on two different graphs (the second one travels in the task's extra)"""
    return topology.are_isomorphic(a, mk(ex['graph2']), **ex.get('params', {}))


ALGOS = {
    'Louvain': fit_plain(clustering.Louvain, 'labels_'),
    'Leiden': fit_plain(clustering.Leiden, 'labels_'),
    'PropagationClustering': fit_plain(clustering.PropagationClustering, 'labels_'),
    'KCenters': lambda a, ex: fit_plain(lambda **p: clustering.KCenters(**dict({'n_clusters': 2}, **p)), 'labels_')(a, ex),
    'Paris': fit_plain(hierarchy.Paris, 'dendrogram_'),
    'LouvainHierarchy': fit_plain(hierarchy.LouvainHierarchy, 'dendrogram_'),
    'LouvainIteration': fit_plain(hierarchy.LouvainIteration, 'dendrogram_'),
    'PageRank': fit_plain(ranking.PageRank, 'scores_'),
    'Katz': fit_plain(ranking.Katz, 'scores_'),
    'HITS': fit_plain(ranking.HITS, 'scores_'),
    'Closeness': fit_plain(ranking.Closeness, 'scores_'),
    'Betweenness': fit_plain(ranking.Betweenness, 'scores_'),
    'Propagation': fit_labels(classification.Propagation),
    'DiffusionClassifier': fit_labels(classification.DiffusionClassifier),
    'PageRankClassifier': fit_labels(classification.PageRankClassifier),
    'NNClassifier': fit_labels(classification.NNClassifier),
    'Diffusion': fit_values(regression.Diffusion),
    'Dirichlet': fit_values(regression.Dirichlet),
    'Spectral': fit_plain(embedding.Spectral, 'embedding_'),
    'SVD': fit_plain(embedding.SVD, 'embedding_'),
    'GSVD': fit_plain(embedding.GSVD, 'embedding_'),
    'PCA': fit_plain(embedding.PCA, 'embedding_'),
    'RandomProjection': fit_plain(embedding.RandomProjection, 'embedding_'),
    'LouvainEmbedding': fit_plain(embedding.LouvainEmbedding, 'embedding_'),
    'Spring': fit_plain(embedding.Spring, 'embedding_'),
    'ForceAtlas': fit_plain(embedding.ForceAtlas, 'embedding_'),
    'NNLinker': fit_plain(linkpred.NNLinker, 'links_'),
    'GNNClassifier': gnn,
    'vote_update_kernel': vote_kernel,
    'get_core_decomposition': fn(topology.get_core_decomposition),
    'count_triangles': fn(topology.count_triangles),
    'count_triangles_parallel': fn(topology.count_triangles, parallelize=True),
    'get_clustering_coefficient': fn(topology.get_clustering_coefficient),
    'count_cliques': fn(topology.count_cliques),
    'count_cliques4': fn(topology.count_cliques, clique_size=4),
    'count_cliques2': fn(topology.count_cliques, clique_size=2),
    'color_weisfeiler_lehman': fn(topology.color_weisfeiler_lehman),
    'are_isomorphic': iso,
    'are_isomorphic_pair': iso_pair,
    'get_connected_components': fn(topology.get_connected_components),
    'get_largest_connected_component': fn(topology.get_largest_connected_component),
    'is_bipartite': fn(topology.is_bipartite),
    'is_acyclic': fn(topology.is_acyclic),
    'get_cycles': fn(topology.get_cycles),
    'break_cycles': fn(topology.break_cycles, root=0),
    'get_distances': fn(path.get_distances, source=0),
    'get_shortest_path': fn(path.get_shortest_path, source=0),
    'breadth_first_search': fn(path.breadth_first_search, source=0),
    'get_dag': fn(path.get_dag, source=0),
    'get_dag_index': fn(path.get_dag),       # default order: the node indices (n distinct values)
}

# ---- monitoring of the arguments of the compiled kernels (contract of the kind declarations) ------------
CALLS = []
# kernels entered from Python: the module through whose namespace they are called
MONITOR = {
    'vote_update': 'sknetwork.classification.propagation',
    'optimize_core': 'sknetwork.clustering.louvain',
    'optimize_refine_core': 'sknetwork.clustering.leiden',
    'diffusion': 'sknetwork.linalg.ppr_solver',
    'push_pagerank': 'sknetwork.linalg.ppr_solver',
    'weisfeiler_lehman_coloring': 'sknetwork.topology.weisfeiler_lehman',
}


def _rec(v):
    if hasattr(v, 'shape') and len(v.shape) >= 1:
        arr = np.asarray(v)
        return {'len': int(arr.shape[0]),
                'ints': arr.tolist() if arr.dtype.kind in 'iub' and arr.size <= 4000 else None}
    if isinstance(v, (bool, np.bool_)):
        return {'int': int(v)}
    if isinstance(v, (int, np.integer)):
        return {'int': int(v)}
    return {'other': type(v).__name__}


def install_monitors():
    """Record the positional / keyword arguments of every kernel call (the harness names them with the
    parameter list the translator read from the source)."""
    import importlib
    for kname, modname in MONITOR.items():
        try:
            mod = importlib.import_module(modname)
        except Exception:
            continue
        orig = getattr(mod, kname, None)
        if orig is None:
            continue

        def wrap(orig=orig, kname=kname):
            def w(*args, **kw):
                if len(CALLS) < 40:
                    try:
                        CALLS.append({'kernel': kname, 'pos': [_rec(v) for v in args],
                                      'kw': {k: _rec(v) for k, v in kw.items()}})
                    except Exception as e:  # monitoring must never change the behaviour of the call
                        CALLS.append({'kernel': kname, 'monitor_error': repr(e)})
                return orig(*args, **kw)
            return w
        setattr(mod, kname, wrap())


OPS = [0]


def install_op_counter():
    """Scaling probe only: count the applications of scipy LinearOperators (matvec / rmatvec / matmat / rmatmat), i.e. the
    operator applications ARPACK asks for — the eigen-solver based entries are judged per application."""
    import scipy.sparse.linalg as sl
    for nm in ('matvec', 'rmatvec', 'matmat', 'rmatmat'):
        orig = getattr(sl.LinearOperator, nm)

        def w(self, x, _o=orig):
            OPS[0] += 1
            return _o(self, x)
        setattr(sl.LinearOperator, nm, w)


def main():
    monitor = 'monitor' in sys.argv[2:]
    if monitor:
        install_monitors()
    if 'ops' in sys.argv[2:]:
        install_op_counter()
    out = sys.stdout
    out.write(json.dumps({'ready': True}) + '\n')
    out.flush()
    for line in sys.stdin:
        line = line.strip()
        if not line:
            continue
        t = json.loads(line)
        del UNRAISABLE[:]
        del CALLS[:]
        OPS[0] = 0
        np.random.seed(0)
        ans = {'id': t['id']}
        t0 = time.time()
        c0 = time.process_time()
        try:
            a = mk(t['graph'])
            c0 = time.process_time()        # the time of the algorithm alone
            r = ALGOS[t['algo']](a, t.get('extra') or {})
            ans['status'] = 'ok'
            if isinstance(r, Val):
                ans['value'] = r.v
                ans['out'] = 'values'
            else:
                ans['out'] = str(r)[:60]
        except BaseException as e:  # noqa
            if isinstance(e, (KeyboardInterrupt, SystemExit)):
                raise
            ans['status'] = 'exc'
            ans['exc'] = type(e).__name__
            ans['msg'] = str(e)[:200]
        ans['wall'] = round(time.time() - t0, 3)
        ans['cpu'] = round(time.process_time() - c0, 3)
        ans['ops'] = OPS[0]
        text = ' '.join(UNRAISABLE) + ' ' + ans.get('msg', '')
        ans['oob'] = ('Out of bounds on buffer access' in text) or ('out of bounds' in ' '.join(UNRAISABLE).lower())
        if UNRAISABLE:
            ans['unraisable'] = UNRAISABLE[:3]
        if monitor:
            ans['calls'] = CALLS[:40]
        out.write(json.dumps(ans) + '\n')
        out.flush()


if __name__ == '__main__':
    main()
