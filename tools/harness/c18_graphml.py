"""C18 — GraphML part of the correspondence harness (from_graphml against SkNet/Model/GraphML.lean).

A document is generated from a small description (so that exactly the same structure is handed to the Lean
model as tokens and to the implementation as an XML file written to the scratch directory)."""
import itertools
import os
from xml.sax.saxutils import quoteattr, escape

from vlib.cases import Case

NS = 'http://graphml.graphdrawing.org/xmlns'


def _c18():
    from harness import c18
    return c18


def xml_of(doc):
    out = ["<?xml version='1.0' encoding='utf-8'?>"]
    out.append('<graphml xmlns="%s">' % NS if doc['ns'] else '<graphml>')
    for k in doc['keys']:
        attrs = ''
        for a, key in (('id', 'id'), ('for', 'for'), ('attr.name', 'name'), ('attr.type', 'type')):
            if k.get(key) is not None:
                attrs += ' %s=%s' % (a, quoteattr(k[key]))
        inner = ''.join('<default>%s</default>' % escape(d) for d in k.get('defaults', []))
        out.append('<key%s>%s</key>' % (attrs, inner))
    if doc['graph']:
        attrs = ''
        if doc.get('edgedefault') is not None:
            attrs += ' edgedefault=%s' % quoteattr(doc['edgedefault'])
        if doc.get('nodeids') is not None:
            attrs += ' parse.nodeids=%s' % quoteattr(doc['nodeids'])
        out.append('<graph%s>' % attrs)
        for c in doc['children']:
            a = ''
            for key in ('id', 'source', 'target', 'directed'):
                if c.get(key) is not None:
                    a += ' %s=%s' % (key, quoteattr(c[key]))
            inner = ''.join('<data key=%s>%s</data>' % (quoteattr(k), escape(t)) for k, t in c.get('data', []))
            out.append('<%s%s>%s</%s>' % (c['tag'], a, inner, c['tag']))
        out.append('</graph>')
    out.append('</graphml>')
    return '\n'.join(out)


def tokens_of(doc):
    c18 = _c18()
    enc = c18.enc_str
    pre = '{%s}' % NS if doc['ns'] else ''

    def opt(v):
        return '_' if v is None else enc(v)
    keys = ';'.join('%s,%s,%s,%s,%s' % (opt(k.get('id')), opt(k.get('name')), opt(k.get('type')), opt(k.get('for')),
                                        '|'.join(enc(d) for d in k.get('defaults', [])) or '-') for k in doc['keys']) or '-'
    children = ';'.join('%s,%s,%s,%s,%s,%s' % (
        enc(pre + c['tag']), opt(c.get('id')), opt(c.get('source')), opt(c.get('target')), opt(c.get('directed')),
        '|'.join('%s:%s' % (enc(k), enc(t)) for k, t in c.get('data', [])) or '-') for c in doc['children']) or '-'
    return '%s %s %s %s %s %s' % (enc(doc.get('weight_key', 'weight')), '1' if doc['graph'] else '0',
                                  opt(doc.get('edgedefault')), opt(doc.get('nodeids')), keys,
                                  children if doc['graph'] else '-')


def graphml_case(doc, tag, wellformed=None):
    c18 = _c18()
    from sknetwork.data import from_graphml
    path = os.path.join(c18.scratch(), 'g_%s.graphml' % tag)
    with open(path, 'w', encoding='utf-8') as fh:
        fh.write(xml_of(doc))

    def f():
        g = from_graphml(path, weight_key=doc.get('weight_key', 'weight'))
        m = g['adjacency']
        names = g.get('names')
        return 'ok %d %s %s' % (m.shape[0], c18.enc_dense(m), '_' if names is None else c18.enc_strs(names.tolist()))
    impl = c18.call(f)
    try:
        os.remove(path)
    except OSError:
        pass
    toks = tokens_of(doc)
    run = 'c18.graphml ' + toks
    spec = None
    early = None
    wf = doc.get('wellformed', False) if wellformed is None else wellformed
    if wf:
        if impl.startswith('ok'):
            spec = 'c18.spec_graphml %s %s' % (toks, impl[3:])
        else:
            early = 'from_graphml raised %s on a well-formed document' % impl
    sig = {'entry': 'from_graphml', 'namespace': doc['ns'], 'edgedefault': doc.get('edgedefault'),
           'nodeids': doc.get('nodeids'), 'weight_key_name': doc.get('weight_key', 'weight'),
           'dtd_defaults': any(k.get('for') is None or k.get('name') is None or k.get('type') is None or k.get('for') == 'all'
                               for k in doc['keys']),
           'weight_key': any(k.get('name') == doc.get('weight_key', 'weight') for k in doc['keys']),
           'weight_default': any(k.get('name') == doc.get('weight_key', 'weight') and k.get('defaults') for k in doc['keys']),
           'weight_type': next((k.get('type') for k in reversed(doc['keys'])
                                if k.get('name') == doc.get('weight_key', 'weight') and k.get('for') != 'node'), None),
           'node_weight_key': any(k.get('name') == doc.get('weight_key', 'weight') and k.get('for') == 'node' for k in doc['keys'])}
    n_edges = sum(1 for c in doc['children'] if c['tag'] == 'edge')
    return Case(('graphml', toks), sig, run, impl, spec, n_edges >= 2 and impl.startswith('ok'),
                {'f': 'from_graphml', 'doc': doc}), early


def make_doc(rng, n, edges, ns=True, edgedefault='directed', nodeids=None, wtype=None, wdefault=None,
             other_keys=False, shuffle=False, node_weight_key=False, wname='weight', decoy=False, dtd_defaults=False):
    """edges: list of (i, j, directed attr or None, weight text or None)."""
    canonical = nodeids == 'canonical'
    ids = ['n%d' % i for i in range(n)] if canonical or rng.random() < 0.3 else \
        [('v' + 'abcxyz'[i % 6] * (1 + i // 6)) for i in range(n)]
    keys = []
    if other_keys:
        keys.append({'id': 'c0', 'for': 'node', 'name': 'color', 'type': 'string', 'defaults': ['blue']})
        keys.append({'id': 'c1', 'for': 'edge', 'name': 'distance', 'type': 'double', 'defaults': []})
        keys.append({'id': 'c2', 'for': rng.choice(['all', 'graph']), 'name': 'note', 'type': 'string', 'defaults': []})
    if node_weight_key:
        # NetworkX writes a node attribute and an edge attribute of the same name as two keys
        keys.append({'id': 'dn', 'for': 'node', 'name': wname, 'type': 'double', 'defaults': []})
    if dtd_defaults:
        # valid GraphML relying on the defaults of the DTD: no `for` (= all), no attr.name (named by the id, what
        # yEd writes for its graphics keys), no attr.type (a string)
        keys.append({'id': 'g0', 'for': 'node'})
        keys.append({'id': 'g1', 'name': 'label', 'type': 'string'})
        keys.append({'id': 'g2', 'for': 'all', 'name': 'tag', 'type': 'int', 'defaults': ['4']})
    if decoy:
        # an edge key named `weight` that is not the weight key when another name is asked for (and conversely)
        keys.append({'id': 'dx', 'for': 'edge', 'name': 'weight' if wname != 'weight' else 'cost', 'type': 'int', 'defaults': []})
    if wtype is not None:
        k = {'id': 'd0', 'for': 'edge', 'name': wname, 'type': wtype,
             'defaults': [] if wdefault is None else [wdefault]}
        if dtd_defaults and rng.random() < 0.5:
            del k['for']
        keys.append(k)
    if node_weight_key and wtype is not None and rng.random() < 0.5:
        keys.reverse()
    children = []
    for i in range(n):
        c = {'tag': 'node', 'id': ids[i]}
        data = []
        if other_keys and rng.random() < 0.5:
            data.append(['c0', rng.choice(['red', 'green'])])
        if node_weight_key and rng.random() < 0.7:
            data.append(['dn', rng.choice(['1.5', '2'])])
        if dtd_defaults and rng.random() < 0.6:
            data.append(['g0', rng.choice(['shape', ''])])
            data.append(['g1', 'a label'])
            if rng.random() < 0.5:
                data.append(['g2', '7'])
        if data:
            c['data'] = data
        children.append(c)
    echildren = []
    for (i, j, d, w) in edges:
        c = {'tag': 'edge', 'source': ids[i], 'target': ids[j]}
        if d is not None:
            c['directed'] = d
        data = []
        if other_keys and rng.random() < 0.4:
            data.append(['c1', '7.5'])
        if decoy and rng.random() < 0.6:
            data.append(['dx', str(rng.randint(5, 9))])
        if dtd_defaults and rng.random() < 0.5:
            data.append(['g2', '3'])
            data.append(['g1', 'e'])
        if w is not None and wtype is not None:
            data.append(['d0', w])
        c['data'] = data
        echildren.append(c)
    children += echildren
    if other_keys:
        children.insert(rng.randrange(len(children) + 1), {'tag': 'desc'})
    if shuffle:
        rng.shuffle(children)
    return {'ns': ns, 'graph': True, 'edgedefault': edgedefault, 'nodeids': nodeids, 'keys': keys,
            'children': children, 'weight_key': wname, 'wellformed': True}


def wtext(rng, wtype):
    if wtype == 'int':
        return str(rng.choice([1, 2, 3, 0, -1, 7]))
    if wtype == 'long':
        return str(rng.choice([1, 2, 3, 2 ** 53 + 1, 2 ** 53 + 3, -5]))
    if wtype == 'boolean':
        return rng.choice(['true', 'false', 'false', 'True', '1', '0'])
    return rng.choice(['1', '2.5', '0.5', '3', '-1.25', '0', '4.0'])


def gen_cases(ctx, out, earlies, exhaustive=False):
    rng = ctx.rng
    quick = ctx.quick
    t = [0]

    def add(doc, wf=None):
        t[0] += 1
        c, e = graphml_case(doc, str(t[0]), wf)
        out.append(c)
        earlies.append((c, e))
    # exhaustive: 2 nodes, <= 2 edges, every direction attribute, both defaults, with / without weights
    pairs = [(0, 0), (0, 1), (1, 0), (1, 1)]
    dirs = [None, 'true', 'false']
    singles = [(i, j, d) for (i, j) in pairs for d in dirs]
    lists = [[e] for e in singles] + [[e, g] for e in singles for g in singles]
    if quick and not exhaustive:
        lists = [lists[i] for i in sorted(rng.sample(range(len(lists)), 60))]
    for es in lists:
        for ed in ('directed', 'undirected'):
            wtype = rng.choice([None, 'int', 'double'])
            wd = None if wtype is None or rng.random() < 0.5 else wtext(rng, wtype)
            edges = [(i, j, d, None if wtype is None or rng.random() < 0.3 else wtext(rng, wtype)) for (i, j, d) in es]
            add(make_doc(rng, 2, edges, ns=rng.random() < 0.8, edgedefault=ed, wtype=wtype, wdefault=wd))
    ctx.count('graphml:exhaustive-2-nodes', len(lists) * 2)
    # sampled documents
    for _ in range(0 if exhaustive else (300 if quick else 6000)):
        n = rng.randint(1, 6)
        k = rng.randint(0, 7)
        wtype = rng.choice([None, 'int', 'double', 'long', 'float', 'boolean'])
        wd = None if wtype is None or rng.random() < 0.5 else wtext(rng, wtype)
        edges = []
        for _e in range(k):
            if edges and rng.random() < 0.3:
                i, j = rng.choice(edges)[:2]
                if rng.random() < 0.5:
                    i, j = j, i
            else:
                i, j = rng.randrange(n), rng.randrange(n)
            edges.append((i, j, rng.choice([None, None, 'true', 'false']),
                          None if wtype is None or rng.random() < 0.3 else wtext(rng, wtype)))
        add(make_doc(rng, n, edges, ns=rng.random() < 0.8, edgedefault=rng.choice(['directed', 'undirected']),
                     nodeids=rng.choice([None, None, 'canonical', 'free']), wtype=wtype, wdefault=wd,
                     other_keys=rng.random() < 0.3, shuffle=rng.random() < 0.3, node_weight_key=rng.random() < 0.15,
                     wname=rng.choice(['weight', 'weight', 'cost', 'w']), decoy=rng.random() < 0.3,
                     dtd_defaults=rng.random() < 0.25))
        ctx.count('graphml:sampled')
    # malformed / degenerate documents (run line only)
    base = make_doc(rng, 2, [(0, 1, None, None)])
    bad = []
    d = dict(base); d['graph'] = False; bad.append(d)
    d = dict(base); d['edgedefault'] = None; bad.append(d)
    d = dict(base); d['children'] = base['children'] + [{'tag': 'edge', 'source': base['children'][0]['id'], 'target': 'zz', 'data': []}]; bad.append(d)
    d = dict(base); d['children'] = base['children'] + [{'tag': 'edge', 'source': base['children'][0]['id'], 'data': []}]; bad.append(d)
    d = dict(base); d['children'] = [{'tag': 'node'}] + base['children']; bad.append(d)
    d = dict(base); d['keys'] = [{'id': 'd0', 'for': 'edge', 'name': 'weight', 'type': 'int', 'defaults': ['x']}]; bad.append(d)
    d = dict(base); d['keys'] = [{'id': 'd0', 'for': 'edge', 'type': 'int', 'defaults': []}]; bad.append(d)
    d = make_doc(rng, 2, [(0, 1, None, '2.5')], wtype='int'); bad.append(d)
    d = make_doc(rng, 2, [(0, 1, None, '3')], wtype=None)
    d['children'][-1]['data'] = [['d9', '3']]; bad.append(d)
    d = make_doc(rng, 2, [(0, 1, None, None)], nodeids='canonical')
    d['children'][-1]['target'] = 'n5'; bad.append(d)
    d = make_doc(rng, 3, [(0, 1, None, None)])
    d['children'][1]['id'] = d['children'][0]['id']; bad.append(d)       # a repeated node id
    d = make_doc(rng, 0, []); bad.append(d)
    # model = code on the refusals the review listed: unknown weight type, data with a key of the other element kind,
    # unconvertible non-weight data, node data with a key for="all"
    d = make_doc(rng, 2, [(0, 1, None, None)], wtype='short'); bad.append(d)
    d = make_doc(rng, 2, [(0, 1, None, '3')], wtype='short'); bad.append(d)
    d = make_doc(rng, 2, [(0, 1, None, None)], wtype='short', wdefault='2'); bad.append(d)
    d = make_doc(rng, 2, [(0, 1, None, None)])
    d['keys'] = [{'id': 'c0', 'for': 'node', 'name': 'color', 'type': 'string', 'defaults': []}]
    d['children'][-1]['data'] = [['c0', 'x']]; bad.append(d)
    d = make_doc(rng, 2, [(0, 1, None, None)])
    d['keys'] = [{'id': 'c1', 'for': 'edge', 'name': 'count', 'type': 'int', 'defaults': []}]
    d['children'][-1]['data'] = [['c1', 'x']]; bad.append(d)
    d = make_doc(rng, 2, [(0, 1, None, None)])
    d['keys'] = [{'id': 'c2', 'for': 'all', 'name': 'note', 'type': 'string', 'defaults': []}]
    d['children'][0]['data'] = [['c2', 'x']]; bad.append(d)
    d = make_doc(rng, 2, [(0, 1, None, None)])
    d['keys'] = [{'id': 'c1', 'for': 'edge', 'name': 'count', 'type': 'int', 'defaults': []}]
    d['children'][0]['data'] = [['c1', '4']]; bad.append(d)
    d = make_doc(rng, 2, [(0, 1, None, None)])
    d['keys'] = [{'name': 'count', 'type': 'int', 'for': 'edge', 'defaults': []}]; bad.append(d)        # a key without id
    d = make_doc(rng, 2, [(0, 1, None, None)], wtype='string'); bad.append(d)
    d = make_doc(rng, 2, [], wtype='string'); bad.append(d)
    d = make_doc(rng, 2, [(0, 1, None, 'x')], wtype='string'); bad.append(d)
    for wt_ in ('double', 'int', 'long', 'boolean'):
        d = make_doc(rng, 2, [(0, 1, None, '')], wtype=wt_); bad.append(d)                              # <data key="d0"/>
    d = make_doc(rng, 2, [(0, 1, None, '99999999999999999999')], wtype='int'); bad.append(d)
    d = make_doc(rng, 2, [(0, 1, None, '-9223372036854775809')], wtype='long'); bad.append(d)
    for d in bad:
        d = dict(d)
        d['wellformed'] = False
        add(d, False)
        ctx.count('graphml:malformed')
