"""C04 — centrality scores equal their mathematical definitions, whatever the solver.

Correspondence (DESIGN 5, C04):
  spec lines  the Lean specification (SkNet/Spec/Rank.lean: the probability vector proportional to the solution of
              x = a P^T x + (1-a) y, computed by exact elimination over Rat and *checked* against the defining
              equation before use; walk-count definitions of Katz / closeness / betweenness) evaluated on the
              implementation's own outputs, for every solver with a sufficient iteration / tolerance budget,
              restart weights None / array / dict, graphs with and without sinks, 1 and 16 OpenMP threads;
  run lines   the Lean model (SkNet/Model/Rank.lean) computes the same quantity from the same input:
              power iteration / Horner / D-iteration in exact arithmetic (compared within the tolerance of
              DESIGN 8), the compiled D-iteration kernel in Float32 (bit patterns), Katz, closeness, Brandes.
The implementation is always called in fresh worker processes (this file run as a script) so that the number
of OpenMP threads can be chosen per batch; the worker imports sknetwork from the overlay build only.
"""
import json
import math
import os
import subprocess
import sys
from fractions import Fraction

import numpy as np
from scipy import sparse

F64_TOL = 1e-9        # DESIGN 8: float64 paths
F32_TOL = 2e-5        # DESIGN 8: float32 kernels
BUDGET_EPS = 1e-13    # iteration budgets are chosen so that the theoretical truncation error is below this
PY = '/venv/bin/python'

RULE = ('PageRank: exhaustive digraphs n<=3 (+ sampled n=4) and structured random weighted (di)graphs n<=10 with and '
        'without sinks, directed cycles with sparse restarts, x damping {0,.25,.5,.85,.99} x restart {None, array, dict; weight on sinks / zero weights} x six '
        'solvers with budgets derived from the proved error bounds x OpenMP threads {1,16} for the compiled solvers; '
        'Katz / closeness / betweenness / HITS on exhaustive small graphs and structured graphs; '
        'a case is non-trivial when the graph has an edge and the expected scores are not all equal; '
        'distinct = distinct (entry point, graph, options)')
ASSUMPTIONS = ['the direct solver (scipy spsolve) that get_pagerank falls back to when BiCGSTAB\'s iterate fails the true-residual test is exact up to rounding (its output is compared with the exact vector at 1e-9/(1-a)); nothing is assumed of bicgstab itself: info, iterate and true residual are recorded, the accept / fall-back decision is a run line',
               'ARPACK eigs returns an eigenpair of the operator it was given (monitored: residual contract)',
               'scipy csr products / transposition / diags are the substrate of the float64 solvers',
               'float rounding is outside the theorems: float64 paths compared within 1e-9, float32 kernels within 2e-5 (DESIGN 8)',
               'np.argsort(-residuals) returns a permutation sorting the residuals in descending order (ties in any order): the push work-list order is a parameter of the model, checked by a contract line']


# ------------------------------------------------------------------------------------------------
# encoding
# ------------------------------------------------------------------------------------------------
def enc_rat(x):
    f = Fraction(x)
    return str(f.numerator) if f.denominator == 1 else '%d/%d' % (f.numerator, f.denominator)


def enc_ratlist(xs):
    xs = list(xs)
    return ','.join(enc_rat(x) for x in xs) if xs else '-'


def enc_natlist(xs):
    xs = list(xs)
    return ','.join(str(int(x)) for x in xs) if xs else '-'


def enc_graph(g):
    """g = {'n','indptr','indices','data'} -> 'n indptr indices data' (data exact)."""
    return '%d %s %s %s' % (g['n'], enc_natlist(g['indptr']), enc_natlist(g['indices']), enc_ratlist(g['data']))


def enc_weights(w):
    if w is None:
        return 'N - -'
    if w['kind'] == 'arr':
        return 'A - %s' % enc_ratlist(w['vals'])
    return 'D %s %s' % (enc_natlist(w['keys']), enc_ratlist(w['vals']))


def dec_ratlist(s):
    return [] if s == '-' else [Fraction(x) for x in s.split(',')]


def gdesc(a):
    a = sparse.csr_matrix(a)
    return {'n': int(a.shape[0]), 'indptr': [int(x) for x in a.indptr], 'indices': [int(x) for x in a.indices],
            'data': [float(x) for x in a.data]}


def csr_of(g, dtype=float):
    return sparse.csr_matrix((np.array(g['data'], dtype=dtype), np.array(g['indices'], dtype=np.int32),
                              np.array(g['indptr'], dtype=np.int32)), shape=(g['n'], g['n']))


def py_weights(w):
    if w is None:
        return None
    if w['kind'] == 'arr':
        if w.get('as') == 'list':                       # a Python list of ints
            return [int(v) for v in w['vals']]
        if w.get('as') in ('int64', 'int32', 'bool'):   # integer / boolean arrays
            return np.array(w['vals']).astype(w['as'])
        return np.array(w['vals'], dtype=float)
    if w.get('as') == 'int':                            # numpy keys, integer values
        return {np.int64(k): int(v) for k, v in zip(w['keys'], w['vals'])}
    return {int(k): float(v) for k, v in zip(w['keys'], w['vals'])}


# ------------------------------------------------------------------------------------------------
# worker: runs the implementation (this file as a script, fresh process, chosen OMP_NUM_THREADS)
# ------------------------------------------------------------------------------------------------
def _bits32(x):
    return [int(v) for v in np.asarray(x, dtype=np.float32).view(np.uint32)]


def _warm_graph(job, w):
    """graphs an estimator is fitted on BEFORE the fit that is judged (the history of a re-used estimator object)"""
    g = job['graph']
    if w == 'self':
        return csr_of(g)
    n = g['n'] + (1 if w == 'bigger' else 0)
    rows = np.arange(n)
    ring = sparse.csr_matrix((np.ones(n), (rows, (rows + 1) % n)), shape=(n, n))
    return sparse.csr_matrix(ring + ring.T)


def _refit(est, job):
    """fit the estimator on the graphs of job['warm'] first: every fit must answer for its own input only"""
    for w in job.get('warm') or []:
        try:
            est.fit(_warm_graph(job, w))
        except Exception:
            pass
    return est


def _do_job(job, mods):
    kind = job['kind']
    try:
        if kind == 'pagerank':
            a = csr_of(job['graph'])
            mods['rec'].clear()
            pr = mods['PageRank'](damping_factor=job['damping'], solver=job['solver'], n_iter=job['n_iter'], tol=job['tol'])
            _refit(pr, job)
            mods['rec'].clear()
            s = pr.fit_predict(a, py_weights(job['weights']))
            con = dict(mods['rec'])
            op = con.pop('op', None)
            if op is not None:
                x = np.asarray(s, dtype=float)
                con['res1_scores'] = float(np.abs(op.dot(x) - x).sum())     # l1 move of the output under the operator
            return {'scores': [float(x) for x in s], 'dtype': str(s.dtype), 'contract': con}
        if kind == 'values':
            a = csr_of(job['graph'])
            _, v, _ = mods['get_adjacency_values'](a, values=py_weights(job['weights']), default_value=0, which='probs')
            return {'values': [float(x) for x in v]}
        if kind == 'diffusion':
            # the arrays exactly as get_pagerank (solver='diteration') prepares them
            adj = mods['normalize'](csr_of(job['graph']), p=1)
            n = adj.shape[0]
            indptr = adj.indptr.astype(np.int32)
            indices = adj.indices.astype(np.int32)
            data = adj.data.astype(np.float32)
            damping = np.float32(job['damping'])
            seeds = np.array(job['seeds'], dtype=float)
            scores = np.zeros(n, dtype=np.float32)
            fluid = (1 - damping) * seeds.astype(np.float32)
            fluid0 = fluid.copy()
            mods['diffusion'](indptr, indices, data, scores, fluid, damping, np.int32(job['n_iter']), np.float32(job['tol']))
            return {'indptr': [int(x) for x in indptr], 'indices': [int(x) for x in indices], 'data': _bits32(data),
                    'fluid0': _bits32(fluid0), 'damping': _bits32([damping])[0], 'tol': _bits32([np.float32(job['tol'])])[0],
                    'scores': _bits32(scores), 'fluid': _bits32(fluid)}
        if kind == 'push':
            a = csr_of(job['graph'])
            n = a.shape[0]
            _, seeds, _ = mods['get_adjacency_values'](a, values=py_weights(job['weights']), default_value=0, which='probs')
            deg = a.dot(np.ones(n)).astype(np.int32)
            s = mods['PageRank'](damping_factor=job['damping'], solver='push', tol=job['tol']).fit_predict(a, py_weights(job['weights']))
            # what np.argsort(-residuals) answers inside the kernel (equal residuals: numpy's order is not specified)
            a32 = np.float32(job['damping'])
            s32 = seeds.astype(np.float32)
            rev = a.T.tocsr()
            res = np.zeros(n, dtype=np.float32)
            for v in range(n):
                for jj in range(rev.indptr[v], rev.indptr[v + 1]):
                    res[v] += 1 / deg[rev.indices[jj]]
                res[v] *= (1 - a32) * a32 * (1 + s32[v])
            return {'scores': [float(x) for x in s], 'deg': [int(x) for x in deg], 'seeds': [float(x) for x in s32],
                    'order': [int(x) for x in np.argsort(-res)]}
        if kind == 'katz':
            a = csr_of(job['graph'])
            s = _refit(mods['Katz'](damping_factor=job['damping'], path_length=job['path_length']), job).fit_predict(a)
            return {'scores': [float(x) for x in s]}
        if kind == 'closeness':
            s = _refit(mods['Closeness'](), job).fit_predict(csr_of(job['graph']))
            return {'scores': [float(x) for x in s]}
        if kind == 'betweenness':
            s = _refit(mods['Betweenness'](), job).fit_predict(csr_of(job['graph']))
            return {'scores': [float(x) for x in s]}
        if kind == 'hits':
            a = sparse.csr_matrix((np.array(job['graph']['data'], dtype=float), np.array(job['graph']['indices']),
                                   np.array(job['graph']['indptr'])), shape=tuple(job['shape']))
            h = mods['HITS']().fit(a)
            sv = h.solver
            if min(job['shape']) == 1:
                # single row / column: HITS takes the dense SVD (the sparse solvers need k < min(shape)); the same call here
                left, sg, right = np.linalg.svd(a.toarray(), full_matrices=False)
                return {'row': [float(x) for x in h.scores_row_], 'col': [float(x) for x in h.scores_col_],
                        'u': [float(x) for x in left[:, 0]], 'v': [float(x) for x in right[0]], 'sigma': float(sg[0])}
            return {'row': [float(x) for x in h.scores_row_], 'col': [float(x) for x in h.scores_col_],
                    'u': [float(x) for x in sv.singular_vectors_left_.reshape(-1)],
                    'v': [float(x) for x in sv.singular_vectors_right_.reshape(-1)],
                    'sigma': float(sv.singular_values_[0])}
        return {'err': 'UnknownJob'}
    except Exception as e:      # any exception is an answer of the implementation (ArpackNoConvergence, FloatingPointError, ...)
        return {'err': type(e).__name__, 'msg': str(e)[:200]}


def _worker_main():
    root = sys.argv[2]
    sys.path.insert(0, root)
    import warnings
    warnings.filterwarnings('ignore')
    import sknetwork
    if not os.path.abspath(sknetwork.__file__).startswith(os.path.abspath(root)):
        print(json.dumps({'fatal': 'sknetwork imported from %s' % sknetwork.__file__}))
        return
    import scipy.sparse.linalg as sla
    import sknetwork.linalg.ppr_solver as ppr
    from sknetwork.ranking import PageRank, Katz, HITS, Closeness, Betweenness
    from sknetwork.linalg.normalizer import normalize
    from sknetwork.linalg.diteration import diffusion
    from sknetwork.utils.format import get_adjacency_values
    rec = {}
    real_bicgstab = ppr.bicgstab
    real_eigs = sla.eigs

    def bicgstab_rec(A, b, *args, **kw):
        x, info = real_bicgstab(A, b, *args, **kw)
        r = A.dot(x) - b
        rec.update({'solver': 'bicgstab', 'info': int(info), 'res2': float(np.linalg.norm(r)), 'b2': float(np.linalg.norm(b)),
                    'atol': float(kw.get('atol', 0.0)), 'x': [float(v) for v in x]})
        return x, info

    real_spsolve = ppr.spsolve

    def spsolve_rec(A, b, *args, **kw):
        x = real_spsolve(A, b, *args, **kw)
        rec['direct'] = [float(v) for v in np.asarray(x).ravel()]
        return x
    ppr.spsolve = spsolve_rec

    def eigs_rec(A, *args, **kw):
        w, v = real_eigs(A, *args, **kw)
        vv = v[:, 0]
        r = A.dot(vv) - w[0] * vv
        rec.update({'solver': 'eigs', 'lambda_re': float(np.real(w[0])), 'lambda_im': float(np.imag(w[0])),
                    'res2': float(np.linalg.norm(r)), 'v2': float(np.linalg.norm(vv)), 'op': A})
        return w, v
    ppr.bicgstab = bicgstab_rec
    sla.eigs = eigs_rec
    sparse.linalg.eigs = eigs_rec
    mods = {'PageRank': PageRank, 'Katz': Katz, 'HITS': HITS, 'Closeness': Closeness, 'Betweenness': Betweenness,
            'normalize': normalize, 'diffusion': diffusion, 'get_adjacency_values': get_adjacency_values, 'rec': rec}
    jobs = json.load(sys.stdin)
    out = [_do_job(j, mods) for j in jobs]
    sys.stdout.write(json.dumps(out))
    sys.stdout.flush()


def run_jobs(ctx, jobs, threads, timeout=600, allow_crash=False):
    """Run implementation jobs in a fresh process with OMP_NUM_THREADS=threads. Returns a list of results."""
    if not jobs:
        return []
    from vlib.core import ToolFailure
    env = dict(os.environ)
    env['OMP_NUM_THREADS'] = str(threads)
    env['PYTHONWARNINGS'] = 'ignore'
    env['OMP_WAIT_POLICY'] = 'passive'      # many tiny parallel regions on a shared machine: do not spin
    env['GOMP_SPINCOUNT'] = '0'
    root = ctx.overlay_root if hasattr(ctx, 'overlay_root') else ctx.ctx.overlay_root
    r = subprocess.run([PY, os.path.abspath(__file__), '--worker', root], input=json.dumps(jobs), env=env,
                       stdout=subprocess.PIPE, stderr=subprocess.PIPE, text=True, timeout=timeout)
    if r.returncode != 0:
        if allow_crash:
            return None
        raise ToolFailure('worker (threads=%s) failed rc=%s: %s' % (threads, r.returncode, r.stderr[-1500:]))
    out = json.loads(r.stdout)
    if isinstance(out, dict) and 'fatal' in out:
        raise ToolFailure(out['fatal'])
    if len(out) != len(jobs):
        raise ToolFailure('worker answered %d/%d jobs' % (len(out), len(jobs)))
    return out


# ------------------------------------------------------------------------------------------------
# budgets (each is backed by a theorem of SkNet/Properties/C04.lean)
# ------------------------------------------------------------------------------------------------
def iters_for(a, target=BUDGET_EPS):
    """least K with 2 a^K / (1-a) <= target  (piter_error / rh_error / diter_error)."""
    if a <= 0:
        return 2
    return int(math.ceil(math.log(target * (1 - a) / 2) / math.log(a))) + 1


def spec_eps(solver, a, n, tol, contract=None):
    """admissible l1 distance to the exact PageRank vector for a run with a sufficient iteration budget."""
    if solver in ('piteration',):
        return F64_TOL + 2 * tol / (1 - a)           # piter_stop_error: stop test met  =>  within tol/(1-a)
    if solver == 'RH':
        return F64_TOL
    if solver == 'lanczos':
        return 1e-7 + 10 * tol
    if solver == 'bicgstab':
        # ||r||_2 <= max(atol, 1e-5 ||b||_2), b = (1-a) y: ||x - x*||_1 <= sqrt(n) ||r||_2 / (1-a), then the normalisation
        res = max(tol, 1e-5 * (1 - a))
        return F64_TOL + 4 * math.sqrt(n) * res / (1 - a) ** 2
    if solver in ('diteration', 'push'):
        # diteration_error: residu < tol (1-a) at the stop; float32 rounding of the kernel is amplified by the
        # condition number 1/(1-a) of the system
        return F32_TOL * max(1.0, n / 4.0) * max(1.0, 0.2 / (1 - a)) + 2 * tol / (1 - a)
    raise ValueError(solver)


# ------------------------------------------------------------------------------------------------
# generators
# ------------------------------------------------------------------------------------------------
def all_digraphs(n, loops=False):
    slots = [(i, j) for i in range(n) for j in range(n) if loops or i != j]
    for bits in range(1 << len(slots)):
        yield [slots[k] for k in range(len(slots)) if bits >> k & 1]


def mk(n, es, w=None):
    if not es:
        return sparse.csr_matrix((n, n), dtype=float)
    w = [1.0] * len(es) if w is None else w
    a = sparse.csr_matrix((np.asarray(w, dtype=float), ([e[0] for e in es], [e[1] for e in es])), shape=(n, n))
    a.sum_duplicates()
    a.sort_indices()
    return a


WEIGHT_CHOICES = [1, 1, 2, 3, 0.5, 4, 0.25, 7]


def weights_variants(rng, a, k=3):
    """restart weights: None, arrays and dicts; deliberately put weight on sinks and leave nodes at zero."""
    n = a.shape[0]
    out_w = np.asarray(abs(a).sum(axis=1)).ravel()
    sinks = [i for i in range(n) if out_w[i] == 0]
    outs = [None]
    arr = [rng.choice([0, 0, 1, 2, 3, 0.5]) for _ in range(n)]
    if sinks:
        arr[rng.choice(sinks)] = rng.choice([1, 2, 5])
    if sum(arr) == 0:
        arr[rng.randrange(n)] = 1
    outs.append({'kind': 'arr', 'vals': [float(x) for x in arr]})
    keys = rng.sample(range(n), rng.randint(1, max(1, min(n, 3))))
    if sinks and rng.random() < 0.7:
        s = rng.choice(sinks)
        if s not in keys:
            keys[0] = s
    outs.append({'kind': 'dict', 'keys': keys, 'vals': [float(rng.choice([1, 1, 2, 0.5, 3])) for _ in keys]})
    if k >= 4:
        outs.append({'kind': 'arr', 'vals': [float(rng.randint(1, 9)) / 8 for _ in range(n)]})
        # the same weights as a list, an integer or boolean array, a dict with numpy keys and int values
        form = rng.choice(['list', 'int64', 'int32', 'bool', 'dictint'])
        if form == 'bool':
            vals = [float(rng.choice([0, 1])) for _ in range(n)]
            vals[rng.randrange(n)] = 1.0
            outs.append({'kind': 'arr', 'vals': vals, 'as': 'bool'})
        elif form == 'dictint':
            ks = rng.sample(range(n), rng.randint(1, min(n, 3)))
            outs.append({'kind': 'dict', 'keys': ks, 'vals': [float(rng.randint(1, 4)) for _ in ks], 'as': 'int'})
        else:
            vals = [float(rng.randint(0, 3)) for _ in range(n)]
            vals[rng.randrange(n)] = float(rng.randint(1, 3))
            outs.append({'kind': 'arr', 'vals': vals, 'as': form})
    return outs[:k] if k < 4 else outs


def pagerank_graphs(ctx):
    """(name, csr) stream for the PageRank cases."""
    from vlib import graphs
    rng = ctx.rng
    quick = ctx.quick
    out = []
    for n in (1, 2, 3):
        for es in all_digraphs(n, loops=(n <= 2)):
            if es:
                out.append(('exh%d' % n, mk(n, es, [rng.choice([1, 1, 2]) for _ in es])))
    g4 = [es for es in all_digraphs(4) if es]
    for es in rng.sample(g4, 40 if quick else 600):
        out.append(('exh4', mk(4, es, [rng.choice(WEIGHT_CHOICES) for _ in es])))
    for name, n, es, w in graphs.suite(rng, 42 if quick else 420, 3, 10, weights=WEIGHT_CHOICES):
        if not es:
            continue
        a = mk(n, es, w)
        if rng.random() < 0.3:
            a = graphs.unsorted_copy(a, rng)
        out.append((name.rstrip('0123456789'), a))
    # degenerate stream: one edge, self loops only, one non-sink, explicit zero entry, duplicate entries
    out.append(('one_edge', mk(2, [(0, 1)])))
    out.append(('one_edge5', mk(5, [(3, 1)], [2.0])))
    out.append(('self_loops', mk(3, [(0, 0), (1, 1), (2, 2)], [1, 2, 3])))
    out.append(('loop_and_edge', mk(3, [(0, 0), (0, 1), (1, 2)], [1, 1, 5])))
    z = sparse.csr_matrix((np.array([1.0, 0.0, 2.0]), np.array([1, 2, 0]), np.array([0, 2, 3, 3])), shape=(3, 3))
    out.append(('explicit_zero', z))
    # duplicate stored entries (scipy sums them): 0 -> 1 stored twice with weights 1 and 2, plus 0 -> 2 and 1 -> 0
    out.append(('duplicate_entries', csr_of(raw_graph(3, [[(1, 1), (1, 2), (2, 1)], [(0, 1)], []]))))
    # a sink whose row holds stored zeros only (the sink test of RandomSurferOperator is on the weights, not on the container)
    out.append(('sink_stored_zero', csr_of(raw_graph(3, [[(1, 0)], [(0, 1), (2, 1)], [(1, 1)]]))))
    out.append(('sink_stored_zeros4', csr_of(raw_graph(4, [[(1, 2), (3, 1)], [(0, 0), (2, 0)], [(1, 1)], [(3, 0)]]))))
    # scale invariance: the transition matrix D^-1 A does not depend on the unit of the weights -- the same weighted graphs
    # times 1e-9 / 1e-12 / 1e+12 (a node of total out-weight 1e-9 is not a sink), and nodes attached by weights 1e-9 .. 1e-7
    # next to weights of order 1 (absolute thresholds on weights or degrees, e.g. np.isclose(w, 0), show here)
    small = [(nm, a) for nm, a in out if 2 <= a.shape[0] <= 7 and a.nnz > 0]
    for nm, a in rng.sample(small, 6 if quick else 40):
        for sc in ((1e-9, 1e-12, 1e12) if not quick else (1e-9, rng.choice([1e-12, 1e12]))):
            out.append(('scaled', (a * sc).tocsr()))
    for _ in range(6 if quick else 40):
        n = rng.randint(3, 7)
        es = {(v, rng.randrange(v)) for v in range(1, n - 1)} | {(rng.randrange(n - 1), rng.randrange(n - 1)) for _k in range(n)}
        es = sorted(e for e in es if e[0] != e[1])
        es = sorted(set(es) | {(j, i) for i, j in es}) if rng.random() < 0.5 else es
        ws = [float(rng.choice([1, 1, 2, 3])) for _ in es]
        weak = n - 1                                   # the last node hangs on tiny weights
        tiny = rng.choice([1e-9, 2e-9, 1e-8, 1e-7])
        for j in rng.sample(range(n - 1), 2):
            es.append((weak, j)); ws.append(tiny)
            if rng.random() < 0.7:
                es.append((j, weak)); ws.append(tiny * rng.choice([1, 2]))
        out.append(('weak_node', mk(n, es, ws)))
    # beyond ncv = 20: ARPACK no longer spans the whole space (an Arnoldi iteration, not a direct solve)
    nbig = 26
    esb = [(i, (i + 1) % nbig) for i in range(nbig)] + [(i, rng.randrange(nbig)) for i in range(nbig) if rng.random() < 0.6]
    esb = sorted(set(e for e in esb if e[0] != e[1] and e[0] != 7))        # node 7: a sink
    out.append(('arnoldi26', mk(nbig, esb, [rng.choice([1, 2, 3]) for _ in esb])))
    return out


# ------------------------------------------------------------------------------------------------
# PageRank cases
# ------------------------------------------------------------------------------------------------
SOLVERS = ['piteration', 'diteration', 'lanczos', 'bicgstab', 'RH', 'push']
COMPILED = ('diteration', 'push')


def pagerank_plan(ctx):
    """List of job descriptions (implementation calls) with what is to be checked about each."""
    rng = ctx.rng
    quick = ctx.quick
    plan = []
    dampings = [0.0, 0.25, 0.5, 0.85, 0.99]
    for name, a in pagerank_graphs(ctx):
        g = gdesc(a)
        n = g['n']
        ctx.count('pagerank-graph:' + name)
        has_sink = bool((np.asarray(abs(a).sum(axis=1)).ravel() == 0).any())
        ctx.count('pagerank-graph-with-sink' if has_sink else 'pagerank-graph-without-sink')
        ds = rng.sample(dampings, 2 if quick else 3)
        for d in ds:
            ws = weights_variants(rng, a, 3 if quick else 4)
            if quick:
                ws = [ws[0], rng.choice(ws[1:])] if rng.random() < 0.5 else ws[1:]
            for w in ws:
                for solver in SOLVERS:
                    if solver == 'push' and (rng.random() < 0.8 or name == 'scaled'):
                        continue            # wrong on every input (F-push): a sample is enough; its int32 degrees overflow at 1e12
                    if d == 0.99 and solver in ('piteration', 'diteration') and rng.random() < (0.85 if quick else 0.5):
                        continue            # thousands of sweeps: sampled
                    k = iters_for(d)
                    tol = 0.0
                    if solver in ('piteration', 'diteration') and rng.random() < 0.35:
                        tol = rng.choice([1e-6, 1e-8, 1e-4])
                    if solver in ('lanczos', 'bicgstab'):
                        tol = rng.choice([0.0, 1e-10, 1e-8])
                    if solver == 'push':
                        tol = rng.choice([1e-6, 1e-4])
                    job = {'kind': 'pagerank', 'graph': g, 'damping': d, 'weights': w, 'solver': solver, 'n_iter': k, 'tol': tol}
                    plan.append({'job': job, 'check': 'spec', 'sink': has_sink, 'name': name})
    # directed cycles with sparse restart vectors: BiCGSTAB (x0 = b) breaks down or stagnates there, and scipy may answer
    # info = 0 with a true residual far above its stopping rule (get_pagerank has to notice)
    for n in range(3, 10):
        for _ in range(4 if quick else 24):
            es = [(i, (i + 1) % n) for i in range(n)]
            a = mk(n, es, None if rng.random() < 0.6 else [rng.choice(WEIGHT_CHOICES) for _ in es])
            vals = [rng.choice([0, 0, 0, 0.5, 1, 2]) for _ in range(n)]
            if sum(vals) == 0:
                vals[rng.randrange(n)] = 1
            if rng.random() < 0.3:
                ks = [i for i in range(n) if vals[i] > 0]
                w = {'kind': 'dict', 'keys': ks, 'vals': [float(vals[i]) for i in ks]}
            else:
                w = {'kind': 'arr', 'vals': [float(x) for x in vals]}
            d = rng.choice([0.5, 0.5, 0.25, 0.85])
            ctx.count('pagerank-graph:cycle-sparse-restart')
            for solver in ('bicgstab', 'lanczos'):
                job = {'kind': 'pagerank', 'graph': gdesc(a), 'damping': d, 'weights': w, 'solver': solver, 'n_iter': iters_for(d),
                       'tol': rng.choice([1e-6, 1e-6, 0.0, 1e-8])}
                plan.append({'job': job, 'check': 'spec', 'sink': False, 'name': 'cycle'})
    add_histories(ctx, rng, [p['job'] for p in plan])
    return plan


def model_plan(ctx):
    """Implementation calls whose result the Lean *model* recomputes (run lines): small budgets, early stops."""
    rng = ctx.rng
    quick = ctx.quick
    plan = []
    gs = pagerank_graphs(ctx)
    gs = rng.sample(gs, min(len(gs), 70 if quick else 500))
    for name, a in gs:
        g = gdesc(a)
        for w in weights_variants(rng, a, 3):
            d = rng.choice([0.0, 0.25, 0.5, 0.75, 0.85, 0.875])
            k = rng.choice([0, 1, 2, 3, 5, 8])
            tol = rng.choice([0.0, 0.0, 1e-6, 0.01, 0.25, 0.5, 10.0])
            which = rng.choice(['piteration', 'RH', 'diteration', 'diffusion'])
            if which == 'diffusion':
                job = {'kind': 'diffusion', 'graph': g, 'damping': d, 'weights': w, 'n_iter': k, 'tol': tol}
            else:
                job = {'kind': 'pagerank', 'graph': g, 'damping': d, 'weights': w, 'solver': which, 'n_iter': k, 'tol': tol}
            plan.append({'job': job, 'check': 'run', 'name': name})
    return plan


def restart_probs(g, w):
    """the distribution get_adjacency_values(..., which='probs') computes, in exact arithmetic (for the kernel job)."""
    n = g['n']
    if w is None:
        v = [Fraction(1)] * n
    elif w['kind'] == 'arr':
        v = [Fraction(x) for x in w['vals']]
    else:
        v = [Fraction(0)] * n
        for k, x in zip(w['keys'], w['vals']):
            v[k] = Fraction(x)
    s = sum(v)
    return [float(x / s) for x in v] if s > 0 else [float(x) for x in v]


def truncated_degree(g):
    """some node has stored entries whose weights sum to less than 1: push_pagerank's int32 degree is 0 there"""
    ip, dt = g['indptr'], g['data']
    return any(ip[i] < ip[i + 1] and 0 <= sum(dt[ip[i]:ip[i + 1]]) < 1 for i in range(g['n']))


def close(model, impl, tol):
    return len(model) == len(impl) and all(abs(float(m) - i) <= tol * (1 + abs(float(m))) for m, i in zip(model, impl))


def eval_pagerank(ctx, plan, threads_compiled):
    """Run the implementation jobs, build Lean lines, compare. `ctx` may be a Sub (failing-input search)."""
    # 1. implementation
    batches = {}
    for idx, p in enumerate(plan):
        job = p['job']
        compiled = job['kind'] == 'diffusion' or job.get('solver') in COMPILED
        ts = threads_compiled if (compiled and p['check'] == 'spec') else [1]
        if job.get('solver') == 'push':
            ts = [1]          # the work-list is a std::queue pushed from a parallel region: other thread counts may crash
        for t in ts:
            batches.setdefault(t, []).append(idx)
    results = {}
    for t, idxs in sorted(batches.items()):
        jobs = []
        for i in idxs:
            j = dict(plan[i]['job'])
            if j['kind'] == 'diffusion':
                j['seeds'] = restart_probs(j['graph'], j['weights'])
            jobs.append(j)
        res = run_jobs(ctx, jobs, t)
        for i, r in zip(idxs, res):
            results[(i, t)] = r
    # 2. Lean lines
    lines = []
    meta = []
    rate = {'bicgstab': [0, 0], 'lanczos': [0, 0]}     # external-solver contracts met / unmet
    for (i, t), r in sorted(results.items()):
        p = plan[i]
        job = p['job']
        g = job['graph']
        gtok = enc_graph(g)
        wtok = enc_weights(job['weights'])
        a = job['damping']
        desc = dict(job)
        desc['threads'] = t
        desc['check'] = p['check']          # what failed (spec line / run line): `replay` repeats exactly that
        if job['kind'] == 'diffusion':
            sig = {'entry': 'diffusion', 'threads': t}
            if 'err' in r:
                ctx.disagree(sig, desc, 'ok', 'err ' + r['err'])
                continue
            line = 'c04.diffusion32 %d %s %s %s %s %s %d %d %d' % (
                g['n'], enc_natlist(r['indptr']), enc_natlist(r['indices']), enc_natlist(r['data']),
                enc_natlist([0] * g['n']) if g['n'] else '-', enc_natlist(r['fluid0']), r['damping'], job['n_iter'], r['tol'])
            lines.append(line)
            meta.append(('diffusion', p, t, r, sig, desc))
            continue
        solver = job['solver']
        sig = {'entry': 'PageRank', 'solver': solver}
        if t != 1 and solver in COMPILED:
            sig['threads'] = t
        if 'err' in r:
            # every planned input is valid: an exception is a failure of the property on this input
            sig['failure'] = r['err']            # findings are recorded per kind of failure, a new kind is reported
            if solver == 'push':
                # F-push-zerodiv is the division by an out-weight that int32 truncates to 0, nothing else
                sig['truncated_degree'] = truncated_degree(g)
            ctx.spec_fail(sig, desc, {'impl': 'err ' + r['err'], 'msg': r.get('msg')})
            ctx.case(('pr', gtok, wtok, a, solver, t), True)
            continue
        if p['check'] == 'spec':
            con = r.get('contract') or {}
            eps_override = None
            if solver == 'lanczos' and not con and g['n'] < 3:
                # ARPACK cannot be called below 3 nodes: get_pagerank takes the eigenvector from a dense decomposition (direct)
                ctx.count('lanczos:dense-below-3-nodes')
                eps_override = 10 * F64_TOL / (1 - a)
            elif solver in ('bicgstab', 'lanczos') and not con:
                from vlib.core import ToolFailure
                raise ToolFailure('the %s recorder was not hit: the call of the external solver is not observed any more' % solver)
            if solver == 'bicgstab' and con:
                if con.get('info') != 0:
                    # BiCGSTAB broke down / did not converge.  get_pagerank must not hand the partial iterate to the caller:
                    # whatever it returns is compared with the exact vector like any other output (no contract to lean on)
                    ctx.count('bicgstab:info!=0')
                    sig['info'] = int(con.get('info'))
                    eps_override = F64_TOL / (1 - a)
                else:
                    ok = con['res2'] <= max(con['atol'], 1e-5 * con['b2']) * 1.0001 + 1e-300
                    ctx.count('contract:bicgstab:' + ('met' if ok else 'unmet'))
                    if not ok:
                        # scipy answers info = 0 from its recursively updated residual while the true residual is above the
                        # stopping rule: get_pagerank must notice (true-residual test) and solve directly; whatever it returns
                        # is compared with the exact vector like any other output -- never skipped
                        ctx.count('bicgstab:info=0:residual-above-rule')
                        sig['info'] = 0
                        sig['residual'] = 'above-rule'
                        eps_override = F64_TOL / (1 - a)
                    else:
                        # bicgstab_checked: ||r||_1 <= sqrt(n) ||r||_2 =: e < (1-a)^2  =>  within 2e/((1-a)^2 - e); the residual
                        # is the one measured on what scipy returned (the code may also have fallen back: closer still)
                        e = math.sqrt(g['n']) * con['res2']
                        if e >= 0.5 * (1 - a) ** 2:
                            ctx.count('pagerank-spec:bicgstab:tolerance-insufficient')   # caller's tol too loose for a bound
                            continue
                        eps_override = F64_TOL + 2 * e / ((1 - a) ** 2 - e)
            if solver == 'lanczos' and con:
                # lanczos_residual_contract: an output of sum 1 moved by r (l1) by the operator is within r/(1-a) of PageRank;
                # ARPACK is expected to return an eigenpair (residual 1e-6 on the normalised output), else: external, skipped
                r1 = con.get('res1_scores', float('inf'))
                ok = r1 <= 1e-6 and abs(con['lambda_im']) <= 1e-9
                ctx.count('contract:eigs:' + ('met' if ok else 'unmet'))
                rate['lanczos'][0 if ok else 1] += 1
                if not ok:
                    ctx.note('eigs contract unmet (l1 residual of the output %.3g): case checked through the other solvers only' % r1)
                    continue
                eps_override = F64_TOL + 2 * r1 / (1 - a)
            eps = eps_override if eps_override is not None else spec_eps(solver, a, g['n'], job['tol'], con)
            x = r['scores']
            if any(math.isnan(v) or math.isinf(v) for v in x):
                ctx.spec_fail(sig, desc, {'impl': x, 'detail': 'non-finite score'})
                ctx.case(('pr', gtok, wtok, a, solver, t), True)
                continue
            lines.append('c04.spec_pr %s %s %s %s %s' % (gtok, enc_rat(a), wtok, enc_ratlist(x), enc_rat(eps)))
            meta.append(('spec', p, t, r, sig, desc))
            if solver == 'bicgstab' and 'x' in con:
                # run line of the branch: the acceptance test of get_pagerank on what BiCGSTAB returned, the direct solution else
                rule = max(con['atol'], 1e-5 * con['b2'])
                lines.append('c04.bicgstab %s %s %s %d %s %s %s' % (gtok, enc_rat(a), wtok, con['info'], enc_rat(rule),
                                                                    enc_ratlist(con['x']), enc_ratlist(con.get('direct') or [])))
                meta.append(('bicg', p, t, r, dict(sig, line='run'), desc))
        else:
            k = job['n_iter']
            if solver == 'piteration':
                lines.append('c04.piter %s %s %s %d %s' % (gtok, enc_rat(a), wtok, k, enc_rat(job['tol'])))
            elif solver == 'RH':
                lines.append('c04.rh %s %s %s %d' % (gtok, enc_rat(a), wtok, k))
            elif solver == 'diteration':
                # the kernel receives float32(damping), float32(tol)
                lines.append('c04.diter %s %s %s %d %s' % (gtok, enc_rat(float(np.float32(a))), wtok, k,
                                                           enc_rat(float(np.float32(job['tol'])))))
            meta.append(('run', p, t, r, sig, desc))
    # a contract of an external solver that is unmet more than occasionally is not an assumption any more: reported
    for sv, (met, unmet) in sorted(rate.items()):
        if unmet > max(2, 0.02 * (met + unmet)):
            ctx.spec_fail({'entry': 'PageRank', 'solver': sv, 'contract': 'unmet-rate'}, {'met': met, 'unmet': unmet},
                          {'detail': 'contract of the external solver unmet on %d of %d calls: these outputs were not compared' % (unmet, met + unmet)})
    answers = ctx.lean(lines)
    # 3. compare
    from vlib.core import ToolFailure
    for ans, (kind, p, t, r, sig, desc), line in zip(answers, meta, lines):
        job = p['job']
        if ans.startswith('unknown-cmd') or ans == 'bad-args' or ans.startswith('spec-internal'):
            raise ToolFailure('driver rejected %r -> %r' % (line[:300], ans))
        g = job['graph']
        nontrivial = len(g['data']) > 0
        if kind == 'spec':
            key = ('pr', enc_graph(g), enc_weights(job['weights']), job['damping'], job['solver'], job['tol'], t)
            ctx.case(key, nontrivial and len(set(r['scores'])) > 1,
                     sample={'request': line[:400], 'answer': ans[:200], 'impl': r['scores']})
            ctx.count('pagerank-spec:%s:threads=%d' % (job['solver'], t))
            if ans.startswith('not-applicable'):
                ctx.count('pagerank-spec:not-applicable')
                continue
            if ans != 'holds':
                if job['solver'] == 'push':
                    sig = dict(sig, failure='wrong-scores')
                ctx.spec_fail(sig, desc, {'spec_line': line, 'spec_answer': ans, 'impl': r['scores']})
        elif kind == 'run':
            key = ('prrun', enc_graph(g), enc_weights(job['weights']), job['damping'], job['solver'], job['n_iter'], job['tol'])
            ctx.case(key, nontrivial, sample={'request': line[:400], 'model': ans[:300], 'impl': r['scores']})
            ctx.count('pagerank-run:' + job['solver'])
            impl_nan = any(math.isnan(v) for v in r['scores'])
            if ans == 'nan' or impl_nan:
                # 0/0 in the final `scores / scores.sum()`: numpy answers NaN, the model reports a zero sum
                if ans == 'nan' and impl_nan:
                    ctx.count('pagerank-run:nan-both')
                else:
                    ctx.disagree(sig, desc, ans, r['scores'], line)
                continue
            if not ans.startswith('ok '):
                ctx.disagree(sig, desc, ans, r['scores'], line)
                continue
            toks = ans.split(' ')
            model = dec_ratlist(toks[1])
            margin = float(Fraction(toks[2])) if len(toks) > 2 else 1.0
            tol = F32_TOL if job['solver'] == 'diteration' else F64_TOL
            if not close(model, r['scores'], tol):
                if margin <= 100 * tol:
                    ctx.count('tie-skipped:stop-test')
                    continue
                ctx.disagree(sig, desc, [float(m) for m in model], r['scores'], line)
        elif kind == 'bicg':
            con = r['contract']
            ctx.case(('bicg', line), nontrivial, sample={'request': line[:400], 'model': ans[:300], 'impl': r['scores']})
            ctx.count('pagerank-run:bicgstab')
            if not ans.startswith('ok '):
                ctx.disagree(sig, desc, ans, r['scores'], line)
                continue
            toks = ans.split(' ')
            model, margin, accepted = dec_ratlist(toks[1]), float(Fraction(toks[2])), toks[3] == '1'
            rule = max(con['atol'], 1e-5 * con['b2'])
            tie = margin <= 1e-6 * rule * rule          # the true residual within rounding of the rule
            ctx.count('bicgstab:' + ('iterate-accepted' if accepted else 'direct-solve'))
            if accepted == ('direct' in con) or not close(model, r['scores'], F64_TOL):
                if tie:
                    ctx.count('tie-skipped:bicgstab-rule')
                    continue
                ctx.disagree(sig, desc, {'accepted': accepted, 'scores': [float(m) for m in model]},
                             {'direct_solve_called': 'direct' in con, 'scores': r['scores']}, line)
        else:  # diffusion kernel, bit patterns
            key = ('diff', line)
            ctx.case(key, nontrivial, sample={'request': line[:400], 'model': ans[:300], 'impl': r['scores']})
            ctx.count('diffusion-run')
            impl = 'ok %s %s' % (enc_natlist(r['scores']), enc_natlist(r['fluid']))
            if ans == impl:
                ctx.count('diffusion-run:bit-exact')
                continue
            mt = ans.split(' ')
            if len(mt) == 3:
                ms = np.array([int(x) for x in mt[1].split(',')], dtype=np.uint32).view(np.float32) if mt[1] != '-' else np.zeros(0)
                is_ = np.array(r['scores'], dtype=np.uint32).view(np.float32)
                if len(ms) == len(is_) and np.all(np.abs(ms.astype(float) - is_.astype(float)) <= F32_TOL * (1 + np.abs(ms))):
                    ctx.count('diffusion-run:within-tolerance')
                    continue
            ctx.disagree(sig, desc, ans, impl, line)


# ------------------------------------------------------------------------------------------------
# Katz, closeness, betweenness, HITS
# ------------------------------------------------------------------------------------------------
def all_undirected(n):
    slots = [(i, j) for i in range(n) for j in range(i + 1, n)]
    for bits in range(1 << len(slots)):
        es = []
        for k in range(len(slots)):
            if bits >> k & 1:
                i, j = slots[k]
                es += [(i, j), (j, i)]
        yield es


def weakly_connected(n, es):
    adj = {i: set() for i in range(n)}
    for i, j in es:
        adj[i].add(j)
        adj[j].add(i)
    seen = {0}
    todo = [0]
    while todo:
        u = todo.pop()
        for v in adj[u]:
            if v not in seen:
                seen.add(v)
                todo.append(v)
    return len(seen) == n


def is_symmetric_edges(es):
    s = set(es)
    return all((j, i) in s for i, j in s)


def connect(rng, n, es, directed):
    """add edges until the graph is weakly connected"""
    es = list(es)
    while not weakly_connected(n, es):
        i, j = rng.sample(range(n), 2)
        es.append((i, j))
        if not directed:
            es.append((j, i))
    return sorted(set(es))


def raw_graph(n, rows):
    """graph description with the rows exactly as given: (column, value) pairs in storage order — stored zeros,
    duplicate entries, unsorted columns are kept"""
    indptr, indices, data = [0], [], []
    for r in rows:
        for j, v in r:
            indices.append(int(j))
            data.append(float(v))
        indptr.append(len(indices))
    return {'n': n, 'indptr': indptr, 'indices': indices, 'data': data}


def diamond_chain(k):
    """undirected chain of k diamonds a_i - {b_i, c_i} - a_{i+1}: 2^k shortest paths between its ends (n = 3k + 1)"""
    n = 3 * k + 1
    es = []
    for i in range(k):
        a, b, c, a2 = 3 * i, 3 * i + 1, 3 * i + 2, 3 * i + 3
        for u, v in ((a, b), (a, c), (b, a2), (c, a2)):
            es += [(u, v), (v, u)]
    return n, es


def degenerate_graphs(rng):
    """(name, graph, pattern_symmetric) : connected graphs in non-canonical or unusual storage"""
    out = []
    # path 0-1-2 with stored zeros at (0,2) and (2,0): a stored zero is not an edge
    out.append(('stored_zero', raw_graph(3, [[(1, 1), (2, 0)], [(0, 1), (2, 1)], [(0, 0), (1, 1)]]), True))
    # diamond 0-{1,2}-3 with the edge 0-1 stored twice: duplicate entries sum to one entry
    out.append(('duplicate', raw_graph(4, [[(1, 1), (1, 1), (2, 1)], [(0, 1), (0, 1), (3, 1)], [(0, 1), (3, 1)], [(1, 1), (2, 1)]]), True))
    # unsorted columns
    out.append(('unsorted', raw_graph(4, [[(2, 1), (1, 1)], [(3, 1), (0, 1)], [(3, 1), (0, 1)], [(2, 1), (1, 1)]]), True))
    # self-loops on a path and on a star
    out.append(('self_loops', raw_graph(3, [[(0, 1), (1, 1)], [(0, 1), (1, 2), (2, 1)], [(1, 1), (2, 3)]]), True))
    out.append(('self_loop_star', raw_graph(4, [[(0, 5), (1, 1), (2, 1), (3, 1)], [(0, 1)], [(0, 1)], [(0, 1)]]), True))
    # symmetric pattern, asymmetric weights: still an undirected graph for hop-count centralities
    out.append(('asym_weights', raw_graph(3, [[(1, 2)], [(0, 1), (2, 3)], [(1, 0.5)]]), True))
    out.append(('asym_weights4', raw_graph(4, [[(1, rng.choice([2, 3])), (2, 1)], [(0, 1), (3, 4)], [(0, 7), (3, 1)], [(1, 1), (2, 2)]]), True))
    # directed with a stored zero closing a cycle
    out.append(('directed_stored_zero', raw_graph(3, [[(1, 1)], [(2, 1)], [(0, 0), (1, 1)]]), False))
    # connected by stored zeros only: the guards (check_connected) are about the graph of the non-zero entries -> ValueError
    out.append(('stored_zero_bridge', raw_graph(3, [[(1, 1)], [(0, 1), (2, 0)], [(1, 0)]]), True))
    out.append(('only_stored_zeros', raw_graph(2, [[(1, 0)], [(0, 0)]]), True))
    out.append(('directed_stored_zero_bridge', raw_graph(3, [[(1, 2)], [(2, 0)], []]), False))
    # a single node carrying a stored zero: not empty for check_format, connected, no path to count
    out.append(('one_node_stored_zero', raw_graph(1, [[(0, 0)]]), True))
    return out


def other_plan(ctx):
    from vlib import graphs
    rng = ctx.rng
    quick = ctx.quick
    plan = []
    # ---- Katz: any non-empty square matrix
    kg = []
    for n in (1, 2):
        kg += [(n, es) for es in all_digraphs(n, loops=True) if es]
    g3 = [es for es in all_digraphs(3) if es]
    kg += [(3, es) for es in (rng.sample(g3, 30) if quick else g3)]
    g3l = [es for es in all_digraphs(3, loops=True) if es]
    kg += [(3, es) for es in rng.sample(g3l, 12 if quick else 150)]
    g4 = [es for es in all_digraphs(4) if es]
    kg += [(4, es) for es in rng.sample(g4, 25 if quick else 400)]
    for name, n, es, w in graphs.suite(rng, 28 if quick else 280, 3, 9, weights=WEIGHT_CHOICES):
        if es:
            kg.append((n, es))
    for n, es in kg:
        a = mk(n, es, [rng.choice(WEIGHT_CHOICES + [-1]) for _ in es])   # values are irrelevant: astype(bool)
        for _ in range(1 if quick else 2):
            plan.append({'kind': 'katz', 'graph': gdesc(a), 'damping': rng.choice([0.5, 0.25, 1.0, 2.0, 0.3, 0.75]),
                         'path_length': rng.choice([0, 1, 2, 3, 4, 6])})
    # ---- closeness: weakly connected digraphs / undirected graphs, n >= 2 (+ a few disconnected: ValueError)
    cg = []
    for n in (2, 3):
        cg += [(n, es) for es in all_digraphs(n) if es]
    g4c = [es for es in all_digraphs(4) if es and weakly_connected(4, es)]
    cg += [(4, es) for es in rng.sample(g4c, 40 if quick else 600)]
    for name, n, es, w in graphs.suite(rng, 28 if quick else 280, 3, 10):
        directed = not is_symmetric_edges(es)
        if rng.random() < 0.85:
            es = connect(rng, n, es, directed)
        if es:
            cg.append((n, es))
    for n, es in cg:
        plan.append({'kind': 'closeness', 'graph': gdesc(mk(n, es, [rng.choice(WEIGHT_CHOICES) for _ in es]))})
    # degenerate stream: non-canonical storage, self-loops, asymmetric weights, the single node (documented: nan)
    for name, g, sym in degenerate_graphs(rng):
        plan.append({'kind': 'closeness', 'graph': g, 'name': name})
        plan.append({'kind': 'betweenness', 'graph': g, 'directed': not sym, 'name': name})
        ctx.count('degenerate:' + name)
    plan.append({'kind': 'closeness', 'graph': raw_graph(1, [[(0, 1)]]), 'name': 'single_node'})
    plan.append({'kind': 'betweenness', 'graph': raw_graph(1, [[(0, 1)]]), 'directed': False, 'name': 'single_node'})
    # path counts beyond 2^31: chains of 31 and 32 diamonds (run line only: the model is proved equal to the specification)
    for k in (31, 32):
        n, es = diamond_chain(k)
        plan.append({'kind': 'betweenness', 'graph': gdesc(mk(n, es)), 'directed': False, 'name': 'diamonds%d' % k, 'big': True})
    # ---- betweenness: connected undirected graphs exhaustively to n = 4, sampled n = 5, structured; directed sample
    bg = []
    for n in (2, 3, 4):
        bg += [(n, es) for es in all_undirected(n) if es]
    g5 = [es for es in all_undirected(5) if es and weakly_connected(5, es)]
    bg += [(5, es) for es in rng.sample(g5, 40 if quick else 500)]
    for name, n, es, w in graphs.suite(rng, 20 if quick else 200, 3, 10, directed_ok=False):
        if rng.random() < 0.9:
            es = connect(rng, n, es, False)
        if es:
            bg.append((n, es))
    for n, es in bg:
        wts = graphs.sym_weights(rng, es, WEIGHT_CHOICES) if rng.random() < 0.3 else None
        a = mk(n, es, wts)
        if rng.random() < 0.2:
            a = graphs.unsorted_copy(a, rng)
        plan.append({'kind': 'betweenness', 'graph': gdesc(a), 'directed': False})
    dg = [es for es in all_digraphs(3) if es and weakly_connected(3, es) and not is_symmetric_edges(es)]
    for es in rng.sample(dg, 12 if quick else len(dg)):
        plan.append({'kind': 'betweenness', 'graph': gdesc(mk(3, es)), 'directed': True})
    g4d = [es for es in g4c if not is_symmetric_edges(es)]
    for es in rng.sample(g4d, 12 if quick else 300):
        plan.append({'kind': 'betweenness', 'graph': gdesc(mk(4, es)), 'directed': True})
    # larger directed graphs (5..8 nodes): a random arborescence-like skeleton plus random arcs, random weights
    for _ in range(10 if quick else 120):
        n = rng.randint(5, 8)
        es = set()
        for v in range(1, n):
            u = rng.randrange(v)
            es.add((u, v) if rng.random() < 0.6 else (v, u))
        for _k in range(rng.randint(0, 2 * n)):
            u, v = rng.randrange(n), rng.randrange(n)
            if u != v:
                es.add((u, v))
        es = sorted(es)
        a = mk(n, es, [rng.choice(WEIGHT_CHOICES) for _ in es])
        plan.append({'kind': 'betweenness', 'graph': gdesc(a), 'directed': not is_symmetric_edges(es)})
        plan.append({'kind': 'closeness', 'graph': gdesc(a)})
    # ---- restart weights -> distribution (get_adjacency_values, which='probs'), including the refusals
    for n, es in rng.sample(kg, min(len(kg), 40 if quick else 300)):
        a = mk(n, es)
        ws = weights_variants(rng, a, 4)
        ws.append({'kind': 'arr', 'vals': [1.0] * (n + 1)})                       # wrong length: ValueError
        ws.append({'kind': 'dict', 'keys': [0, n + rng.randint(0, 2)], 'vals': [1.0, 2.0]})   # key out of range: IndexError
        ws.append({'kind': 'arr', 'vals': [0.0] * n})                             # null weights: left as they are
        ws.append({'kind': 'dict', 'keys': [rng.randrange(n)], 'vals': [0.0]})
        ws.append({'kind': 'dict', 'keys': [], 'vals': []})                       # empty dict: ValueError (np.min of nothing)
        for w in rng.sample(ws, 3):
            plan.append({'kind': 'values', 'graph': gdesc(a), 'weights': w})
    # negative weights: documented as "ignored" (docstring of get_adjacency_values, warning of get_values); the code divides by
    # the signed sum (known finding F-neg-weights); the model follows the code, the documented behaviour is checked apart
    a3 = mk(3, [(0, 1), (1, 2)])
    plan.append({'kind': 'values', 'graph': gdesc(a3), 'weights': {'kind': 'arr', 'vals': [2.0, -1.0, 0.0]}})
    plan.append({'kind': 'values', 'graph': gdesc(a3), 'weights': {'kind': 'dict', 'keys': [0, 2], 'vals': [3.0, -1.0]}})
    # ---- push kernel as written (integer weights >= 1: the int32-cast degrees stay positive), model vs code
    for n, es in rng.sample([x for x in kg if x[0] <= 8], 30 if quick else 250):
        a = mk(n, es, [float(rng.choice([1, 1, 2, 3])) for _ in es])
        for w in weights_variants(rng, a, 2):
            plan.append({'kind': 'push', 'graph': gdesc(a), 'damping': rng.choice([0.5, 0.75, 0.25, 0.875]), 'weights': w,
                         'tol': rng.choice([0.125, 0.015625, 0.0009765625])})
    # ---- HITS: small rectangular and square non-negative matrices
    for it in range(40 if quick else 400):
        nr, nc = rng.randint(2, 6), rng.randint(2, 6)
        if it % 10 == 0:
            nr, nc = rng.choice([(1, rng.randint(1, 5)), (rng.randint(1, 5), 1), (1, 1)])    # a single row / column
        if rng.random() < 0.35:
            # very sparse, distinct weights, null rows / columns: the leading singular vectors have exact zeros, where
            # the SVD solver leaves round-off noise of either sign
            dense = np.zeros((nr, nc))
            ws = rng.sample([1, 2, 3, 4, 5, 6, 7], min(7, max(nr, nc)))
            for k, wv in enumerate(ws[:rng.randint(1, max(nr, nc))]):
                dense[rng.randrange(nr), k % nc] = wv
        else:
            dense = np.array([[rng.choice([0, 0, 1, 1, 2, 3]) for _ in range(nc)] for _ in range(nr)], dtype=float)
        if dense.sum() == 0:
            dense[rng.randrange(nr), rng.randrange(nc)] = 1
        b = sparse.csr_matrix(dense)
        plan.append({'kind': 'hits', 'shape': [nr, nc], 'graph': {'n': nr, 'indptr': [int(x) for x in b.indptr],
                     'indices': [int(x) for x in b.indices], 'data': [float(x) for x in b.data]}})
    add_histories(ctx, rng, plan)
    return plan


WARMS = [['self'], ['ring'], ['ring', 'self'], ['bigger', 'ring'], ['self', 'self']]


def add_histories(ctx, rng, jobs):
    """A third of the estimator jobs are run on a RE-USED estimator object: it is fitted on other graphs first (the same
    graph, a ring of the same size, a ring with one node more) and the fit that is judged comes last."""
    for job in jobs:
        if job['kind'] in ('katz', 'closeness', 'betweenness', 'pagerank') and not job.get('big') and rng.random() < 0.34:
            job['warm'] = rng.choice(WARMS)
            ctx.count('history:%s:%s' % (job['kind'], '+'.join(job['warm'])))


def rel_close(model, impl, tol):
    return len(model) == len(impl) and all(abs(float(m) - i) <= tol * (1 + abs(float(m))) for m, i in zip(model, impl))


def eval_other(ctx, plan):
    from vlib.core import ToolFailure
    res = run_jobs(ctx, plan, 1)
    lines, meta = [], []
    for job, r in zip(plan, res):
        kind = job['kind']
        g = job['graph']
        sig = {'entry': {'katz': 'Katz', 'closeness': 'Closeness', 'betweenness': 'Betweenness', 'hits': 'HITS',
                         'values': 'get_adjacency_values', 'push': 'push_pagerank'}[kind]}
        if job.get('warm'):
            sig['history'] = 're-used estimator'
        if kind == 'betweenness':
            sig['directed'] = bool(job['directed'])
        impl_err = 'err ' + r['err'] if 'err' in r else None
        vals = [x for k in ('scores', 'values', 'row', 'col', 'u', 'v') for x in (r.get(k) or [])]
        if kind == 'closeness' and g['n'] == 1:
            # one node: (n-1)/n / mean([0]) = 0/0; the model reports `nan` (outside the property: there is no other node)
            lines.append('c04.closeness %s' % enc_graph(g))
            meta.append((job, r, sig, 'run', 'nan' if (vals and all(math.isnan(x) for x in vals)) else (impl_err or vals), 0.0))
            continue
        if any(math.isnan(x) or math.isinf(x) for x in vals) and kind != 'values':
            # a NaN / infinite score is not a value of the definition: the input is a failing input as it stands
            ctx.case((kind, 'nonfinite', json.dumps(job, sort_keys=True)), True)
            ctx.spec_fail(sig, job, {'impl': {k: r.get(k) for k in ('scores', 'row', 'col') if k in r}, 'detail': 'non-finite score'})
            continue
        if kind == 'katz':
            gt = enc_graph(g)
            run = 'c04.katz %s %s %d' % (gt, enc_rat(job['damping']), job['path_length'])
            spec = None if impl_err else 'c04.spec_katz %s %s %d %s %s' % (gt, enc_rat(job['damping']), job['path_length'],
                                                                             enc_ratlist(r['scores']), enc_rat(F64_TOL))
            tol = F64_TOL
        elif kind == 'values':
            run = 'c04.values %d %s' % (g['n'], enc_weights(job['weights']))
            spec = None
            tol = 1e-12
            if not impl_err:
                r = dict(r)
                r['scores'] = r['values']
                wv = job['weights']['vals'] if job['weights'] else []
                if any(x < 0 for x in wv):
                    # "Negative values ignored": the documented distribution is that of the weights clipped at 0
                    full = [0.0] * g['n']
                    if job['weights']['kind'] == 'arr':
                        full = list(wv)
                    else:
                        for k_, v_ in zip(job['weights']['keys'], wv):
                            full[k_] = v_
                    pos = [max(x, 0.0) for x in full]
                    doc = [x / sum(pos) for x in pos] if sum(pos) > 0 else pos
                    ctx.count('values:negative-weights')
                    if not close(doc, r['values'], 1e-12):
                        ctx.spec_fail({'entry': 'get_adjacency_values', 'weights': 'negative'}, job,
                                      {'documented': doc, 'impl': r['values']})
        elif kind == 'push':
            if impl_err:
                # integer weights >= 1: no degree is truncated to 0, the kernel has no reason to refuse
                ctx.count('run:push:error')
                ctx.spec_fail({'entry': 'PageRank', 'solver': 'push', 'failure': r['err']}, job,
                              {'impl': impl_err, 'msg': r.get('msg')})
                continue
            sig['line'] = 'run'
            run = 'c04.push %s %s %s %s %s %s' % (enc_graph(g), enc_ratlist(r['deg']), enc_rat(float(np.float32(job['damping']))),
                                                  enc_ratlist(r['seeds']), enc_rat(float(np.float32(job['tol']))),
                                                  enc_natlist(r['order']))
            spec = None
            tol = F32_TOL
        elif kind == 'closeness':
            gt = enc_graph(g)
            run = 'c04.closeness %s' % gt
            spec = None if impl_err else 'c04.spec_closeness %s %s %s' % (gt, enc_ratlist(r['scores']), enc_rat(F64_TOL))
            tol = F64_TOL
        elif kind == 'betweenness':
            gt = enc_graph(g)
            run = 'c04.betweenness %s' % gt
            spec = None if (impl_err or job.get('big')) else 'c04.spec_betweenness %s %d %s %s' % (
                gt, 1 if job['directed'] else 0, enc_ratlist(r['scores']), enc_rat(F32_TOL))
            tol = F32_TOL
        else:  # hits
            if impl_err:
                ctx.spec_fail(sig, job, {'impl': impl_err, 'msg': r.get('msg')})
                continue
            gt = '%d %d %s %s %s' % (job['shape'][0], job['shape'][1], enc_natlist(g['indptr']), enc_natlist(g['indices']),
                                     enc_ratlist(g['data']))
            dense = sparse.csr_matrix((np.array(g['data']), np.array(g['indices']), np.array(g['indptr'])),
                                      shape=tuple(job['shape'])).toarray()
            sv = np.linalg.svd(dense, compute_uv=False)
            gap = (sv[0] - (sv[1] if len(sv) > 1 else 0.0)) / sv[0]
            # the sign choice and clipping, exactly, on the vectors the SVD solver returned
            lines.append('c04.hits_post %s' % enc_ratlist(r['u']))
            meta.append((job, r, sig, 'run', 'ok ' + enc_ratlist(r['row']), 0.0))
            lines.append('c04.hits_post %s' % enc_ratlist(r['v']))
            meta.append((job, r, sig, 'run', 'ok ' + enc_ratlist(r['col']), 0.0))
            if gap < 1e-6:
                ctx.count('tie-skipped:hits-degenerate-top-singular-value')
            else:
                lines.append('c04.spec_hits %s %s %s %s %s' % (gt, enc_ratlist(r['row']), enc_ratlist(r['col']),
                                                               enc_rat(r['sigma']), enc_rat(1e-7)))
                meta.append((job, r, sig, 'spec', None, 0.0))
            continue
        lines.append(run)
        meta.append((job, r, sig, 'run', impl_err or r['scores'], tol))
        if spec:
            lines.append(spec)
            meta.append((job, r, sig, 'spec', None, tol))
    answers = ctx.lean(lines)
    for ans, line, (job, r, sig, what, impl, tol) in zip(answers, lines, meta):
        if ans.startswith('unknown-cmd') or ans == 'bad-args':
            raise ToolFailure('driver rejected %r -> %r' % (line[:300], ans))
        g = job['graph']
        scores = r.get('scores') or r.get('row') or []
        nontrivial = len(g['data']) > 0 and len(set(scores)) > 1
        if what == 'spec':
            ctx.case((job['kind'], 'spec', line), nontrivial, sample={'request': line[:400], 'answer': ans[:200]})
            ctx.count('spec:' + job['kind'])
            if ans != 'holds':
                ctx.spec_fail(sig, job, {'spec_line': line, 'spec_answer': ans, 'impl': scores})
            continue
        ctx.case((job['kind'], 'run', line), nontrivial, sample={'request': line[:400], 'model': ans[:300], 'impl': impl})
        ctx.count('run:' + job['kind'])
        if isinstance(impl, str):
            if impl.startswith('err'):
                ctx.count('run:%s:error' % job['kind'])
                if ans.startswith('ok') and job['kind'] in ('katz', 'closeness', 'betweenness'):
                    # the model (proved equal to the definition) answers: the input is valid and the code refuses it
                    ctx.spec_fail(sig, job, {'impl': impl, 'msg': r.get('msg'), 'model': ans[:200]})
                    continue
            if ans != impl:
                if ans.startswith('ok ') and impl.startswith('ok ') and job['kind'] == 'hits':
                    if [float(x) for x in dec_ratlist(ans[3:])] == [float(x) for x in dec_ratlist(impl[3:])]:
                        continue          # -0.0 versus 0
                ctx.disagree(sig, job, ans, impl, line)
            continue
        if ans.startswith('contract-unmet'):
            ctx.count('contract:argsort:unmet')
            ctx.note('argsort contract unmet for the push work-list (float32 order differs from the exact order): case skipped')
            continue
        if not ans.startswith('ok '):
            ctx.disagree(sig, job, ans, impl, line)
            continue
        toks = ans.split(' ')
        model = dec_ratlist(toks[1])
        if any(math.isnan(v) for v in impl) or not rel_close(model, impl, tol):
            if job['kind'] == 'push' and len(toks) > 2 and float(Fraction(toks[2])) <= 100 * F32_TOL:
                # a residual within float32 rounding of the tolerance (or of another residual): the work-list order
                # is a decision taken on numbers (DESIGN 8)
                ctx.count('tie-skipped:push-worklist')
                continue
            ctx.disagree(sig, job, [float(m) for m in model], impl, line)


# ------------------------------------------------------------------------------------------------
# entry points
# ------------------------------------------------------------------------------------------------
def corpus_plan():
    """(PageRank plan, other jobs) recorded in corpus/C04.jsonl: witnesses of repaired defects, replayed first."""
    p = os.path.join(os.path.dirname(os.path.dirname(os.path.dirname(os.path.abspath(__file__)))), 'corpus', 'C04.jsonl')
    plan, other = [], []
    if os.path.exists(p):
        for ln in open(p):
            ln = ln.strip()
            if ln and not ln.startswith('#'):
                c = json.loads(ln)
                if c['job']['kind'] in ('pagerank', 'diffusion'):
                    plan.append({'job': c['job'], 'check': c.get('check', 'spec'), 'name': 'corpus'})
                else:
                    other.append(c['job'])
    return plan, other


def _timed(ctx, name, f, *a):
    import time
    t = time.time()
    f(*a)
    ctx.extra.setdefault('phase_seconds', {})[name] = round(time.time() - t, 1)


def run(ctx):
    threads = [1, 16] if ctx.quick else [1, 2, 4, 16]
    ctx.extra['tolerances'] = {'float64': F64_TOL, 'float32': F32_TOL, 'budget_eps': BUDGET_EPS}
    ctx.extra['threads_swept'] = threads
    cplan, cother = corpus_plan()
    _timed(ctx, 'corpus', lambda: (eval_pagerank(ctx, cplan, threads), eval_other(ctx, cother)))
    _timed(ctx, 'pagerank-spec', lambda: eval_pagerank(ctx, pagerank_plan(ctx), threads))
    _timed(ctx, 'pagerank-model', lambda: eval_pagerank(ctx, model_plan(ctx), threads))
    _timed(ctx, 'other', lambda: eval_other(ctx, other_plan(ctx)))


def search(ctx, pending):
    """Failing-input search: the Lean specification on the implementation over the exhaustive small space."""
    from vlib.cases import Sub
    from vlib.core import load_findings, match_finding
    sub = Sub(ctx)
    sub.overlay_root = ctx.overlay_root
    rng = ctx.rng
    entries = {(p[1] or {}).get('entry') for p in pending}
    others = {'Katz', 'Closeness', 'Betweenness', 'HITS'}
    if not entries or entries - others:
        plan = []
        small = [(n, es, None) for n in (2, 3) for es in all_digraphs(n) if es]
        loops3 = [es for es in all_digraphs(3, loops=True) if es and any(i == j for i, j in es)]
        small += [(2, es, None) for es in all_digraphs(2, loops=True) if es and any(i == j for i, j in es)]
        small += [(3, es, None) for es in rng.sample(loops3, 80)]
        small += [(3, es, [rng.choice(WEIGHT_CHOICES) for _ in es]) for es in rng.sample(loops3, 40)]
        for n, es, wts in small:
            if True:
                a = mk(n, es, wts)
                g = gdesc(a)
                for d in ((0.5, 0.85, 0.99) if wts is None and n == 2 else (0.5, 0.85)):
                    for w in weights_variants(rng, a, 3):
                        for solver in SOLVERS:
                            if solver == 'push':
                                continue
                            plan.append({'job': {'kind': 'pagerank', 'graph': g, 'damping': d, 'weights': w, 'solver': solver,
                                                 'n_iter': iters_for(d), 'tol': 0.0}, 'check': 'spec', 'name': 'search'})
        eval_pagerank(sub, plan, [1, 16])
    if entries & others:
        plan = []
        for n in (2, 3):
            for es in all_digraphs(n, loops=(n == 2)):
                if not es:
                    continue
                g = gdesc(mk(n, es))
                for d, k in ((0.5, 1), (0.5, 3), (2.0, 2)):
                    plan.append({'kind': 'katz', 'graph': g, 'damping': d, 'path_length': k})
                if weakly_connected(n, es):
                    plan.append({'kind': 'closeness', 'graph': g})
                    plan.append({'kind': 'betweenness', 'graph': g, 'directed': not is_symmetric_edges(es)})
        for es in all_undirected(4):
            if es and weakly_connected(4, es):
                plan.append({'kind': 'betweenness', 'graph': gdesc(mk(4, es)), 'directed': False})
                plan.append({'kind': 'closeness', 'graph': gdesc(mk(4, es))})
        for name, g, sym in degenerate_graphs(rng):
            plan.append({'kind': 'closeness', 'graph': g, 'name': name})
            plan.append({'kind': 'betweenness', 'graph': g, 'directed': not sym, 'name': name})
        nbig, esbig = diamond_chain(32)          # more than 2^31 shortest paths
        plan.append({'kind': 'betweenness', 'graph': gdesc(mk(nbig, esbig)), 'directed': False, 'name': 'diamonds32', 'big': True})
        for _ in range(30):
            nr, nc = rng.randint(2, 4), rng.randint(2, 4)
            dense = np.array([[rng.choice([0, 1, 1, 2]) for _ in range(nc)] for _ in range(nr)], dtype=float)
            if dense.sum() == 0:
                dense[0, 0] = 1
            b = sparse.csr_matrix(dense)
            plan.append({'kind': 'hits', 'shape': [nr, nc], 'graph': {'n': nr, 'indptr': [int(x) for x in b.indptr],
                         'indices': [int(x) for x in b.indices], 'data': [float(x) for x in b.data]}})
        eval_other(sub, plan)
    # a failing input that is a recorded finding says nothing about what broke the tie: only new ones count
    known = load_findings()
    fresh = [f for f in sub.spec_failures if match_finding(known, ctx.prop, f['sig']) is None]
    return [{'sig': f['sig'], 'case': f['case'], 'detail': f['detail']} for f in fresh[:5]]


def replay(ctx, payload):
    case = payload.get('case') or {}
    if case.get('kind') in ('pagerank', 'diffusion'):
        job = {k: v for k, v in case.items() if k not in ('threads', 'check')}
        t = case.get('threads', 1)
        check = case.get('check') or (
            'spec' if (job['kind'] == 'pagerank' and job['n_iter'] >= iters_for(job['damping'])) else 'run')
        eval_pagerank(ctx, [{'job': job, 'check': check, 'name': 'replay'}], [t])
    elif case.get('kind') in ('katz', 'closeness', 'betweenness', 'hits', 'values', 'push'):
        eval_other(ctx, [case])
    else:
        run(ctx)


if __name__ == '__main__' and len(sys.argv) >= 3 and sys.argv[1] == '--worker':
    _worker_main()
