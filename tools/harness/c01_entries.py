"""C01 — table of the public entry points exercised by tools/harness/c01.py, the graphs, the auxiliary
arguments (labels / weights / values / positions / features ... in their dict, array and list forms, with the
`*_row / *_col` routes for bipartite graphs) and the representations (container format x dtype).

An entry is `Entry(name, kinds, policy, tol, f)` with `f(m, aux, conv) -> output`:
  m     the graph in one representation (the reference call gets a fresh float64 CSR copy),
  aux   the caller's other arguments (deep-copied before every call, compared with the original afterwards),
  conv  converts a *second* matrix argument (features, adjacency_vectors, probs ...) to the container format of
        this representation (and to its dtype when the values are representable); objects made by `conv` are
        snapshotted around the call as well.
kinds : graph kinds the entry is run on in turn ('und', 'und_conn', 'dir', 'dir_small', 'bip'); policy 'all' = every
container format, 'csr' = CSR variants only (functions whose documented input is `sparse.csr_matrix` alone),
'csr+dense' = CSR variants and ndarray (documented `Union[csr_matrix, np.ndarray]` helpers of linalg),
'none' = functions without a matrix argument (only the "inputs are not modified" clause applies).
"""
import random
import warnings

import numpy as np
from scipy import sparse

from vlib import graphs

FLOAT_DTYPES = ('float64', 'float32')
INT_DTYPES = ('int64', 'int32', 'int8', 'uint8')
DTYPES = FLOAT_DTYPES + INT_DTYPES + ('bool',)
# csr_unsorted: the column indices of every row shuffled; csr_reversed: in decreasing order (the worst case for a kernel
# that merges sorted rows — a shuffle of a short row is often the identity)
FORMATS_ALL = ('csr', 'csr_unsorted', 'csr_reversed', 'csc', 'coo', 'coo_dup', 'lil', 'dense')
FORMATS_CSR = ('csr', 'csr_unsorted', 'csr_reversed')
FORMATS_CSR_DENSE = ('csr', 'csr_unsorted', 'csr_reversed', 'dense')


# ------------------------------------------------------------------------------------------------
# representations
# ------------------------------------------------------------------------------------------------
def representable(values, dtype):
    """can every value be stored exactly in `dtype`?"""
    v = np.asarray(values, dtype=float)
    if dtype == 'float64':
        return True
    if dtype == 'float32':
        return bool(np.all(v.astype(np.float32).astype(float) == v))
    if not np.all(v == np.round(v)):
        return False
    if dtype == 'bool':
        return bool(np.all(v == 1))
    info = np.iinfo(dtype)
    return bool(v.size == 0 or (v.min() >= info.min and v.max() <= info.max))


def apply_rep(a, fmt, dtype, seed):
    """the canonical float64 CSR matrix `a` in container format `fmt` with entries of type `dtype` (same values)"""
    rng = random.Random(seed)
    b = sparse.csr_matrix(a, copy=True).astype(float)
    b.sum_duplicates()
    b.sort_indices()
    b = b.astype(dtype)
    if fmt == 'csr':
        return b
    if fmt == 'csr_unsorted':
        return graphs.unsorted_copy(b, rng)
    if fmt == 'csr_reversed':
        out = b.copy()
        for i in range(out.shape[0]):
            lo, hi = out.indptr[i], out.indptr[i + 1]
            out.indices[lo:hi] = out.indices[lo:hi][::-1].copy()
            out.data[lo:hi] = out.data[lo:hi][::-1].copy()
        out.has_sorted_indices = False
        return out
    if fmt == 'csc':
        return b.tocsc()
    if fmt in ('coo', 'coo_dup'):
        coo = b.tocoo()
        row, col, data = coo.row.copy(), coo.col.copy(), coo.data.copy()
        if fmt == 'coo_dup' and len(data):
            # split entries into duplicates with the same sum *in the arithmetic of the dtype* (bool: or)
            for k in rng.sample(range(len(data)), min(len(data), 2)):
                v = data[k]
                if dtype == 'bool':
                    extra = True
                elif dtype in FLOAT_DTYPES:
                    extra = v / 2
                    data[k] = v - extra
                elif v >= 2:
                    extra = 1
                    data[k] = v - 1
                else:
                    continue
                row, col, data = np.append(row, row[k]), np.append(col, col[k]), np.append(data, np.asarray(extra, dtype=data.dtype))
            o = list(range(len(data)))
            rng.shuffle(o)
            row, col, data = row[o], col[o], data[o]
        return sparse.coo_matrix((data, (row, col)), shape=b.shape, dtype=b.dtype)
    if fmt == 'lil':
        return b.tolil()
    if fmt == 'dense':
        return b.toarray()
    raise ValueError(fmt)


def choose_reps(a, rng, policy):
    """list of (name, fmt, dtype, seed): every format once with a random representable dtype, then every
    representable dtype not drawn yet with a random format (the float64 CSR itself is the reference)."""
    if policy == 'none':
        return []
    fmts = {'all': FORMATS_ALL, 'csr': FORMATS_CSR, 'csr+dense': FORMATS_CSR_DENSE}[policy]
    ok = [d for d in DTYPES if representable(a.data, d)]
    out, used = [], set()
    for f in fmts:
        d = rng.choice([x for x in ok if not (f == 'csr' and x == 'float64')] or ['float32'])
        if f == 'csr' and d == 'float64':
            continue
        out.append((f, d))
        used.add(d)
        if f in ('csr_unsorted', 'csr_reversed') and 'bool' in ok and d != 'bool':
            # scipy's astype() sorts the indices of its result except when the dtype does not change: a kernel reached
            # through `adjacency.astype(bool)` sees the stored order only for a bool matrix — always draw that one too
            out.append((f, 'bool'))
            used.add('bool')
    for d in ok:
        if d not in used:
            out.append((rng.choice(fmts), d))
    seen, res = set(), []
    for f, d in out:
        if (f, d) in seen or (f, d) == ('csr', 'float64'):
            continue
        seen.add((f, d))
        res.append(('%s:%s' % (f, d), f, d, rng.randrange(10 ** 9)))
    return res


# ------------------------------------------------------------------------------------------------
# graphs
# ------------------------------------------------------------------------------------------------
WEIGHT_POOLS = ([1], [1], [1, 2, 3], [1, 2, 3], [0.5, 1.5, 2.25], [1, 100, 200])


def _size(rng, lo, hi):
    """mostly lo..hi nodes; sometimes 2-3 nodes, sometimes 12-25"""
    u = rng.random()
    if u < 0.06:
        return rng.randint(2, 3)
    if u < 0.12:
        return rng.randint(12, 25)
    return rng.randint(lo, hi)


def make_graph(rng, kind):
    """a float64 canonical CSR graph of the kind; weights: unit, small integers, dyadic fractions, or large
    integers (beyond int8)"""
    a = None
    for _ in range(60):
        pool = rng.choice(WEIGHT_POOLS)
        if kind == 'und_distinct':
            from scipy.sparse.csgraph import connected_components
            n = rng.randint(4, 11)
            es = graphs.structured(rng, rng.choice(['random_undirected', 'blocks', 'random_undirected']), n)
            und = sorted({(min(i, j), max(i, j)) for i, j in es})
            ws = rng.sample(range(1, 8 * max(len(und), 1) + 8), len(und))          # distinct k/8
            w = {e: k / 8 for e, k in zip(und, ws)}
            a = graphs.csr_from_edges(n, es, [w[(min(i, j), max(i, j))] for i, j in es])
            if a.nnz == 0 or connected_components(a, directed=False)[0] != 1:
                continue
        elif kind == 'bip_distinct':
            nr, nc = rng.randint(3, 7), rng.randint(3, 7)
            if nr == nc:
                nc += 1
            es = graphs.random_edges(rng, nr, 0.6, m=nc)
            ws = rng.sample(range(1, 8 * max(len(es), 1) + 8), len(es))
            a = graphs.csr_from_edges(nr, es, [k / 8 for k in ws], m=nc)
            if a.nnz and (np.diff(a.indptr).min() == 0 or np.diff(a.tocsc().indptr).min() == 0):
                continue
        elif kind == 'und_tri':
            # symmetric, many triangles, rows long enough for the stored order to matter
            n = rng.randint(7, 16)
            if rng.random() < 0.5:
                pool = [1]          # unit weights: representable as bool
            how = rng.choice(['dense', 'dense', 'clique', 'blocks'])
            if how == 'dense':
                es = graphs.random_edges(rng, n, rng.choice([0.5, 0.7, 0.85]), directed=False)
            else:
                es = graphs.structured(rng, how, n)
            a = graphs.csr_from_edges(n, es, graphs.sym_weights(rng, es, pool))
            if a.nnz < 3 * n:
                continue
        elif kind in ('und', 'und_conn'):
            n = _size(rng, 4, 11)
            k = rng.choice(['path', 'cycle', 'star', 'grid', 'blocks', 'random_undirected', 'clique'] if kind == 'und_conn'
                           else graphs.UNDIRECTED_KINDS)          # 'selfloops' included
            es = graphs.structured(rng, k, n)
            a = graphs.csr_from_edges(n, es, graphs.sym_weights(rng, es, pool))
            if kind == 'und_conn':
                from scipy.sparse.csgraph import connected_components
                if connected_components(a, directed=False)[0] != 1:
                    continue
        elif kind in ('dir', 'dir_small'):
            n = _size(rng, 4, 10) if kind == 'dir' else rng.randint(3, 6)
            es = graphs.structured(rng, rng.choice(graphs.DIRECTED_KINDS), n)
            if kind == 'dir' and rng.random() < 0.15:            # some self-loops
                es = sorted(set(es) | {(i, i) for i in rng.sample(range(n), min(n, 2))})
            a = graphs.csr_from_edges(n, es, [rng.choice(pool) for _ in es])
        elif kind == 'bip':
            nr, nc = rng.randint(3, 7), rng.randint(3, 7)
            if nr == nc:
                nc += 1
            es = graphs.random_edges(rng, nr, 0.5, m=nc)
            a = graphs.csr_from_edges(nr, es, [rng.choice(pool) for _ in es], m=nc)
            if a.nnz and (np.diff(a.indptr).min() == 0 or np.diff(a.tocsc().indptr).min() == 0) and rng.random() < 0.8:
                continue          # mostly without empty rows / columns; one time in five they are kept
        else:
            raise ValueError(kind)
        if a.nnz >= 3 or (a.nnz >= 1 and a.shape[0] <= 3):
            return a
    return a


def _forms(rng, n, gen, default, dtype):
    """one partial assignment node -> value in its three forms: dict, array (default elsewhere), list"""
    d = gen(n)
    arr = np.full(n, default, dtype=dtype)
    for i, v in d.items():
        arr[i] = v
    return {'dict': d, 'array': arr, 'list': arr.tolist()}


def make_aux(rng, a, kind):
    nr, nc = a.shape
    bip = kind in ('bip', 'bip_distinct')
    npr = np.random.default_rng(rng.randrange(10 ** 6))
    aux = {'bip': bip, 'variant': rng.randrange(10 ** 6), 'n_epochs': 3}

    def labels(n):
        pick = rng.sample(range(n), min(n, 3))
        return {int(i): t % 2 for t, i in enumerate(pick)}

    def values(n):
        return {int(i): float(rng.choice([0, 1, 3])) for i in rng.sample(range(n), min(n, 2))}

    def weights(n):
        d = {int(i): float(rng.choice([1, 2])) for i in rng.sample(range(n), min(n, 3))}
        return d

    for base, gen, default, dt in (('labels', labels, -1, int), ('values', values, -1, float), ('weights', weights, 0, float)):
        for side, n in (('', nr), ('_row', nr), ('_col', nc)):
            for form, v in _forms(rng, n, gen, default, dt).items():
                aux['%s%s_%s' % (base, side, form)] = v
    aux['sources'] = sorted(rng.sample(range(nr), rng.randint(1, min(3, nr))))
    aux['sources_col'] = sorted(rng.sample(range(nc), rng.randint(1, min(2, nc))))
    aux['partition'] = np.array([rng.randrange(3) for _ in range(nr)])
    aux['partition_col'] = np.array([rng.randrange(3) for _ in range(nc)])
    aux['order'] = np.array([rng.randint(-1, nr) for _ in range(nr)])
    aux['position'] = npr.random((nr, 2))
    aux['position_col'] = npr.random((nc, 2))
    aux['features'] = np.round(npr.random((nr, 3)) * 4) / 4          # dyadic: exact in float32
    aux['names'] = np.array(['n%d' % i for i in range(nr)])
    aux['names_col'] = np.array(['c%d' % i for i in range(nc)])
    aux['scores'] = np.round(npr.random(nr) * 8) / 8
    aux['scores_col'] = np.round(npr.random(nc) * 8) / 8
    p = npr.random((nr, 2))
    aux['probs'] = p / p.sum(axis=1, keepdims=True)
    aux['node_weights'] = np.array([float(rng.choice([1, 2, 3])) for _ in range(nr)])
    aux['node_weights_col'] = np.array([float(rng.choice([1, 2, 3])) for _ in range(nc)])
    aux['node_order'] = np.array(rng.sample(range(nr), nr))
    aux['edge_labels'] = [(int(i), int(j), int(rng.randrange(2))) for i, j in zip(*a.nonzero())][:3]
    aux['label_colors'] = ['red', 'blue', 'green']
    aux['vector'] = np.array([float(rng.choice([0, 0, 1, 2])) for _ in range(nc)])
    aux['vector'][rng.randrange(nc)] = 1.0
    aux['dense_block'] = np.round(npr.random((nc, 2)) * 4) / 4
    aux['coeffs'] = np.array([1.0, 0.5, 0.25])
    aux['index'] = np.array(sorted(rng.sample(range(nr), min(nr, 3))))
    full = [i for i in range(nr) if a.indptr[i + 1] > a.indptr[i]][:2] or [0]
    aux['vectors'] = sparse.csr_matrix(a)[full].astype(float)          # rows of the graph itself, with at least one entry
    dend = None
    if nr == nc and nr >= 2:
        from sknetwork.hierarchy import Paris
        try:
            sym = sparse.csr_matrix(a + a.T)
            if sym.nnz:
                with warnings.catch_warnings():
                    warnings.simplefilter('ignore')
                    dend = Paris().fit_predict(sym)
        except Exception as e:  # noqa: counted; an entry that never gets its dendrogram is a tool failure (check_liveness)
            dend = None
            aux['dendrogram_error'] = type(e).__name__
    aux['dendrogram'] = dend
    aux['dims_list'], aux['layer_types_list'], aux['activations_list'] = [4, 2], ['Conv', 'Conv'], ['ReLu', 'Softmax']
    aux['use_bias_list'], aux['normalizations_list'], aux['self_embeddings_list'], aux['sample_sizes_list'] = [True, False], ['both', 'left'], [True, True], [5, 5]
    coo = sparse.coo_matrix(a)
    aux['edge_list'] = [(int(i), int(j), float(v)) for i, j, v in zip(coo.row, coo.col, coo.data)]
    aux['edge_array'] = np.array([[int(i), int(j)] for i, j in zip(coo.row, coo.col)])
    aux['adjacency_list'] = [[int(j) for j in a.indices[a.indptr[i]:a.indptr[i + 1]]] for i in range(nr)]
    aux['labels_true'] = np.array([rng.randrange(3) for _ in range(nr)])
    aux['labels_pred'] = np.array([rng.randrange(3) for _ in range(nr)])
    return aux


# ------------------------------------------------------------------------------------------------
# entries
# ------------------------------------------------------------------------------------------------
class Entry:
    def __init__(self, name, kinds, policy, tol, f, sign_free=False, norm_mask=False, needs=None, top_simple=False, tie_ok=None, spectrum=None):
        kinds = tuple(kinds)
        if 'und' in kinds and 'und_tri' not in kinds and policy != 'none':
            kinds = kinds[:kinds.index('und') + 1] + ('und_tri',) + kinds[kinds.index('und') + 1:]
        self.name, self.kinds, self.policy, self.tol, self.f = name, kinds, policy, tol, f
        self.sign_free, self.norm_mask, self.needs, self.top_simple, self.tie_ok = sign_free, norm_mask, needs, top_simple, tie_ok
        self.spectrum = spectrum        # a -> the values (returned ones + the next) whose multiplicity makes the vectors undefined


# ------------------------------------------------------------------------------------------------
# the spectrum each eigen / singular vector entry decomposes (computed densely, in float64, from the reference graph)
# ------------------------------------------------------------------------------------------------
def spectrum_spectral(normalized_laplacian, n_components=2):
    """Spectral: the `n_components + 1` smallest eigenvalues of the (regularised, possibly normalised) Laplacian that
    `fit` hands to the solver — the first is dropped, the others are returned — plus the next one"""
    def f(a):
        from sknetwork.utils.format import get_adjacency
        adj, _ = get_adjacency(sparse.csr_matrix(a, copy=True), allow_directed=False)
        A = np.asarray(adj.todense(), dtype=float)
        n = A.shape[0]
        from scipy.sparse.csgraph import connected_components
        reg = 0.0 if connected_components(sparse.csr_matrix(A), connection='strong', return_labels=False) == 1 else 1.0
        w = A.sum(axis=1)
        L = np.diag(w) - A + reg * (np.eye(n) - np.ones((n, n)) / n)
        if normalized_laplacian:
            with np.errstate(divide='ignore'):
                d = np.where(w + reg > 0, 1 / np.sqrt(w + reg), 0.0)
            L = d[:, None] * L * d[None, :]
        ev = np.sort(np.linalg.eigvalsh((L + L.T) / 2))
        k = min(n_components, n - 2) + 1
        return ev[:k + 1]
    return f


def spectrum_gsvd(factor_row, factor_col, n_components=2):
    """GSVD / SVD: the `n_components` largest singular values of D_row^-f A D_col^-f, plus the next one"""
    def f(a):
        A = np.asarray(a.todense(), dtype=float)
        wr, wc = A.sum(axis=1), A.sum(axis=0)
        with np.errstate(divide='ignore', invalid='ignore'):
            dr = np.where(wr > 0, np.power(np.where(wr > 0, wr, 1.0), -factor_row), 0.0) if factor_row else np.ones_like(wr)
            dc = np.where(wc > 0, np.power(np.where(wc > 0, wc, 1.0), -factor_col), 0.0) if factor_col else np.ones_like(wc)
        sv = np.linalg.svd(dr[:, None] * A * dc[None, :], compute_uv=False)
        k = min(n_components, min(A.shape) - 1)
        return sv[:k + 1]
    return f


def spectrum_pca(n_components=2):
    def f(a):
        A = np.asarray(a.todense(), dtype=float)
        sv = np.linalg.svd(A - A.mean(axis=0, keepdims=True), compute_uv=False)
        return sv[:n_components + 1]
    return f


def spectrum_multiple(values, rel=1e-8):
    """two of the values (the returned ones and the first one not returned) coincide"""
    v = np.sort(np.asarray(values, dtype=float))
    return bool(len(v) > 1 and np.min(np.diff(v)) <= rel * max(1.0, float(np.max(np.abs(v)))))


def fitted(est):
    """public fitted attributes of an estimator"""
    return {k: v for k, v in vars(est).items() if k.endswith('_') and not k.startswith('_')}


def seeds_kw(aux, base, forms=('dict', 'array', 'list')):
    """the keyword arguments passing labels / values / weights: the plain argument for a square matrix, the
    `_row` / `_col` / both routes for a bipartite one; the form (dict, array, list) changes with the graph"""
    v = aux['variant']
    form = forms[v % len(forms)]
    if aux['bip']:
        mode = (v // 7) % 3
        kw = {}
        if mode in (0, 2):
            kw[base + '_row'] = aux['%s_row_%s' % (base, form)]
        if mode in (1, 2):
            kw[base + '_col'] = aux['%s_col_%s' % (base, forms[(v // 3) % len(forms)])]
        return kw
    return {base: aux['%s_%s' % (base, form)]}


def dense(x):
    return np.asarray(x.todense()) if sparse.issparse(x) else np.asarray(x)


def nnlinker_ties(a, aux, kw, ref, out, tol):
    """the k nearest neighbours are not unique when similarities tie at the k-th place (DESIGN §8, discrete decisions
    on numbers): row by row, the kept similarity values must agree, and a column kept on one side only must carry
    the boundary value of its row"""
    r, o = dense(ref['links_']), dense(out['links_'])
    if r.shape != o.shape:
        return False
    for i in range(r.shape[0]):
        kr, ko = np.flatnonzero(r[i]), np.flatnonzero(o[i])
        vr, vo = np.sort(r[i][kr]), np.sort(o[i][ko])
        if len(vr) != len(vo) or not np.allclose(vr, vo, atol=tol, rtol=tol):
            return False
        if len(vr) == 0:
            continue
        boundary = vr[0]
        for j in set(kr) ^ set(ko):
            if abs(max(r[i][j], o[i][j]) - boundary) > 10 * tol:
                return False
        for j in set(kr) & set(ko):
            if abs(r[i][j] - o[i][j]) > 10 * tol:
                return False
    return all(same_plain(ref[k], out[k], tol) for k in ref if k != 'links_')


def same_plain(x, y, tol):
    if x is None or y is None:
        return x is None and y is None
    if isinstance(x, (bool, np.bool_)):
        return bool(x) == bool(y)
    return bool(np.allclose(dense(x).astype(float), dense(y).astype(float), atol=tol, rtol=tol))


def nnclassifier_ties(normalize, k):
    """NNClassifier: True when some unlabelled node has its k-th and (k+1)-th nearest labelled nodes at the same
    distance (the choice between them is decided by round-off / storage order)"""
    def f(a, aux, kw, ref, out, tol):
        nr, nc = a.shape
        if aux['bip']:
            adj = sparse.bmat([[None, a], [a.T, None]], format='csr').toarray()
            lab = np.hstack([np.asarray(_as_array(kw.get('labels_row'), nr)), np.asarray(_as_array(kw.get('labels_col'), nc))])
        else:
            adj = a.toarray()
            lab = np.asarray(_as_array(kw.get('labels'), nr))
        x = adj.astype(float)
        if normalize:
            nrm = np.sqrt((x ** 2).sum(axis=1))
            x = x / np.where(nrm > 0, nrm, 1)[:, None]
        train = np.flatnonzero(lab >= 0)
        kk = min(k, len(train) - 1)
        if kk < 1 or kk >= len(train):
            return False
        for i in np.flatnonzero(lab < 0):
            d = np.sort(((x[train] - x[i]) ** 2).sum(axis=1))
            if abs(d[kk - 1] - d[kk]) < 1e-9 * (1 + d[kk]):
                return True
        return False
    return f


def _as_array(v, n):
    if v is None:
        return -np.ones(n)
    if isinstance(v, dict):
        out = -np.ones(n)
        for i, x in v.items():
            out[i] = x
        return out
    return np.asarray(v, dtype=float)


def canon_labels(l):
    first = {}
    return [first.setdefault(int(x), len(first)) for x in l]


def entries():
    from sknetwork import ranking, clustering, hierarchy, embedding, classification, regression, linkpred, gnn, path, \
        topology, visualization, utils, linalg
    E = {}
    U, D, B, UC = 'und', 'dir', 'bip', 'und_conn'

    def add(name, kinds, policy, tol, f, **k):
        assert name not in E, name
        E[name] = Entry(name, kinds, policy, tol, f, **k)

    def est(name, mk, kinds=(U,), tol=1e-8, kw=None, policy='all', post=None, **k):
        """fit(matrix, **kw(aux, conv)); output = fitted attributes (+ post(estimator, aux, conv))"""
        def f(m, aux, conv, mk=mk, kw=kw, post=post):
            e = mk()
            e.fit(m, **(kw(aux, conv) if kw else {}))
            out = fitted(e)
            if post:
                out.update(post(e, aux, conv))
            return out
        add(name, kinds, policy, tol, f, **k)

    def fun(name, f0, kinds=(U,), tol=1e-8, policy='csr', **k):
        add(name, kinds, policy, tol, lambda m, aux, conv, f0=f0: f0(m, aux, conv), **k)

    def arr(name, f0, kinds=(U,), tol=1e-12, **k):
        """a function without a matrix argument: run once per graph on the auxiliary objects"""
        add(name, kinds, 'none', tol, lambda m, aux, conv, f0=f0: f0(aux), **k)

    # ---------------------------------------------------------------- ranking
    for s, tol in (('piteration', 1e-8), ('RH', 1e-8), ('diteration', 5e-5), ('push', 5e-5), ('lanczos', 5e-6), ('bicgstab', 5e-6)):
        est('PageRank(%s)' % s, lambda s=s: ranking.PageRank(solver=s, n_iter=40), (D, U, B), tol,
            lambda aux, conv: (seeds_kw(aux, 'weights', ('dict', 'array')) if aux['variant'] % 2 else {}))
    est('PageRank(force_bipartite)', lambda: ranking.PageRank(), (U, D), 1e-8,
        lambda aux, conv: {'force_bipartite': True, 'weights_row': aux['weights_row_dict'], 'weights_col': aux['weights_array']})
    est('Katz', lambda: ranking.Katz(), (D, U, B))
    est('HITS', lambda: ranking.HITS(), (B, D, U), 1e-6, top_simple=True)
    est('Closeness', lambda: ranking.Closeness(), (UC,))
    est('Closeness(approximate)', lambda: ranking.Closeness(method='approximate'), (UC,))
    est('Betweenness', lambda: ranking.Betweenness(), (UC,), 5e-5)
    est('Betweenness(normalized)', lambda: ranking.Betweenness(normalized=True), (UC,), 5e-5)
    arr('top_k', lambda aux: ranking.top_k(aux['scores'], 2))
    # ---------------------------------------------------------------- clustering
    for mod in ('dugue', 'newman', 'potts'):
        est('Louvain(%s)' % mod, lambda mod=mod: clustering.Louvain(modularity=mod, shuffle_nodes=False, random_state=0), (U, D, B), 5e-5)
        est('Leiden(%s)' % mod, lambda mod=mod: clustering.Leiden(modularity=mod, shuffle_nodes=False, random_state=0), (U, D, B), 5e-5)
    for cname, ctor in (('Louvain', clustering.Louvain), ('Leiden', clustering.Leiden)):
        est('%s(aggregate only)' % cname, lambda ctor=ctor: ctor(shuffle_nodes=False, random_state=0, return_probs=False, return_aggregate=True), (U, D, B), 5e-5)
        est('%s(unsorted,res=0.5)' % cname, lambda ctor=ctor: ctor(shuffle_nodes=False, random_state=0, sort_clusters=False, resolution=0.5, return_aggregate=True), (D, U, B), 5e-5)
        est('%s(force_bipartite)' % cname, lambda ctor=ctor: ctor(shuffle_nodes=False, random_state=0), (U, D), 5e-5,
            lambda aux, conv: {'force_bipartite': True})
    est('PropagationClustering', lambda: clustering.PropagationClustering(), (U, D, B), 5e-5)
    est('PropagationClustering(aggregate only)', lambda: clustering.PropagationClustering(return_probs=False, return_aggregate=True), (U, B), 5e-5)
    est('KCenters', lambda: clustering.KCenters(n_clusters=2, center_position='row'), (U, B), 5e-5)
    est('KCenters(directed)', lambda: clustering.KCenters(n_clusters=2, directed=True), (D,), 5e-5)
    est('KCenters(both)', lambda: clustering.KCenters(n_clusters=2, center_position='both'), (B,), 5e-5)
    fun('get_modularity', lambda m, aux, conv: clustering.get_modularity(
        m, aux['partition'], **({'labels_col': aux['partition_col']} if aux['bip'] else {})), (D, U, B), 1e-10, 'all')
    fun('get_modularity(return_all,uniform)', lambda m, aux, conv: clustering.get_modularity(
        m, aux['partition'], weights='uniform', return_all=True), (U, D), 1e-10, 'all')
    fun('aggregate_graph', lambda m, aux, conv: clustering.aggregate_graph(
        m, **({'labels_row': aux['partition'], 'labels_col': aux['partition_col']} if aux['bip'] else {'labels': aux['partition']})), (U, D, B), 1e-10)
    arr('reindex_labels', lambda aux: clustering.reindex_labels(aux['partition']))
    # ---------------------------------------------------------------- hierarchy
    est('Paris', lambda: hierarchy.Paris(), (U, D, B), 1e-8)
    est('Paris(uniform)', lambda: hierarchy.Paris(weights='uniform', reorder=False), (U,), 1e-8)
    est('LouvainHierarchy', lambda: hierarchy.LouvainHierarchy(shuffle_nodes=False, random_state=0), (U, D, B), 5e-5)
    est('LouvainIteration', lambda: hierarchy.LouvainIteration(shuffle_nodes=False, random_state=0), (U, D, B), 5e-5)
    D0 = {'needs': 'dendrogram'}
    fun('dasgupta_cost', lambda m, aux, conv: hierarchy.dasgupta_cost(m, aux['dendrogram']), (U,), 1e-9, **D0)
    fun('dasgupta_score', lambda m, aux, conv: hierarchy.dasgupta_score(m, aux['dendrogram'], weights='degree'), (U,), 1e-9, **D0)
    fun('tree_sampling_divergence', lambda m, aux, conv: hierarchy.tree_sampling_divergence(m, aux['dendrogram']), (U,), 1e-9, **D0)
    arr('cut_straight', lambda aux: hierarchy.cut_straight(aux['dendrogram'], n_clusters=2, return_dendrogram=True), **D0)
    arr('cut_straight(threshold)', lambda aux: hierarchy.cut_straight(aux['dendrogram'], threshold=float(np.median(aux['dendrogram'][:, 2]))), **D0)
    arr('cut_balanced', lambda aux: hierarchy.cut_balanced(aux['dendrogram'], max_cluster_size=3, return_dendrogram=True), **D0)
    arr('aggregate_dendrogram', lambda aux: hierarchy.aggregate_dendrogram(aux['dendrogram'], n_clusters=2, return_counts=True), **D0)
    arr('reorder_dendrogram', lambda aux: hierarchy.reorder_dendrogram(aux['dendrogram']), **D0)
    # ---------------------------------------------------------------- embedding
    def twin(ctor, **kw):
        """fit with the default normalisation and without it: rows of the normalised embedding whose
        un-normalised norm is below the conditioning threshold are not compared (see RULE)"""
        def mk_f(m, aux, conv):
            raw, nor = ctor(normalized=False, **kw), ctor(normalized=True, **kw)
            raw.fit(m)
            np.random.seed(12345)
            nor.fit(m)
            return {'raw': fitted(raw), 'normalized': fitted(nor)}
        return mk_f
    UD, BD = 'und_distinct', 'bip_distinct'       # distinct dyadic weights: simple spectra, so that the vectors are compared
    SPEC = {'SVD': spectrum_gsvd(0, 0), 'GSVD': spectrum_gsvd(0.5, 0.5), 'PCA': spectrum_pca()}
    add('Spectral', (UC, UD, U, B, D, BD), 'all', 1e-6, twin(embedding.Spectral, n_components=2), sign_free=True, norm_mask=True,
        spectrum=spectrum_spectral(True))
    add('Spectral(laplacian)', (UD, UC, U), 'all', 1e-6, twin(embedding.Spectral, n_components=2, decomposition='laplacian'), sign_free=True,
        norm_mask=True, spectrum=spectrum_spectral(False))
    add('SVD', (BD, B, UD, U, D), 'all', 1e-6, twin(embedding.SVD, n_components=2), sign_free=True, norm_mask=True, spectrum=SPEC['SVD'])
    add('GSVD', (BD, B, UD, U, D), 'all', 1e-6, twin(embedding.GSVD, n_components=2), sign_free=True, norm_mask=True, spectrum=SPEC['GSVD'])
    add('PCA', (BD, B, UD, U, D), 'all', 1e-6, twin(embedding.PCA, n_components=2), sign_free=True, norm_mask=True, spectrum=SPEC['PCA'])

    def predict_vectors(e, aux, conv):
        out = {'embedding_predict_matrix': e.predict(conv(aux['vectors']))}
        out['embedding_predict_vector'] = e.predict(aux['vector'])
        return out
    for nm, ctor in (('SVD', embedding.SVD), ('GSVD', embedding.GSVD), ('PCA', embedding.PCA)):
        est(nm + '.predict', lambda ctor=ctor: ctor(2, normalized=False), (BD, B, UD, U), 1e-6, post=predict_vectors, sign_free=True,
            spectrum=SPEC[nm])
    add('RandomProjection', (U, D, B), 'all', 1e-8, twin(embedding.RandomProjection, n_components=2, random_state=3), norm_mask=True)
    est('LouvainEmbedding', lambda: embedding.LouvainEmbedding(shuffle_nodes=False, random_state=0), (B, U), 5e-5, policy='csr')
    est('Spring', lambda: embedding.Spring(2, n_iter=5), (U, D), 1e-6, lambda aux, conv: {'position_init': aux['position']},
        post=predict_vectors)
    est('ForceAtlas', lambda: embedding.ForceAtlas(2, n_iter=5), (U, D), 1e-6, lambda aux, conv: {'pos_init': aux['position']})
    # ---------------------------------------------------------------- classification / regression / linkpred
    est('Propagation', lambda: classification.Propagation(n_iter=8), (U, D, B), 5e-5, lambda aux, conv: seeds_kw(aux, 'labels'))
    est('Propagation(weighted=False)', lambda: classification.Propagation(n_iter=8, weighted=False), (U, B), 5e-5, lambda aux, conv: seeds_kw(aux, 'labels'))
    est('DiffusionClassifier', lambda: classification.DiffusionClassifier(), (U, D, B), 1e-8, lambda aux, conv: seeds_kw(aux, 'labels'))
    est('DiffusionClassifier(force_bipartite)', lambda: classification.DiffusionClassifier(centering=False), (U, D), 1e-8,
        lambda aux, conv: {'labels_row': aux['labels_row_dict'], 'labels_col': aux['labels_array'], 'force_bipartite': True})
    est('NNClassifier', lambda: classification.NNClassifier(n_neighbors=2), (U, B), 1e-6, lambda aux, conv: seeds_kw(aux, 'labels'),
        tie_ok=lambda a, aux, ref, out, tol: nnclassifier_ties(True, 2)(a, aux, seeds_kw(aux, 'labels'), ref, out, tol))
    est('NNClassifier(normalize=False)', lambda: classification.NNClassifier(n_neighbors=2, normalize=False), (U,), 1e-6, lambda aux, conv: seeds_kw(aux, 'labels'),
        tie_ok=lambda a, aux, ref, out, tol: nnclassifier_ties(False, 2)(a, aux, seeds_kw(aux, 'labels'), ref, out, tol))
    est('PageRankClassifier', lambda: classification.PageRankClassifier(), (U, D, B), 5e-6, lambda aux, conv: seeds_kw(aux, 'labels', ('dict', 'array')))
    for nm, ctor in (('Diffusion', regression.Diffusion), ('Dirichlet', regression.Dirichlet)):
        est(nm, lambda ctor=ctor: ctor(), (D, U, B), 1e-8, lambda aux, conv: seeds_kw(aux, 'values'))
        est(nm + '(init)', lambda ctor=ctor: ctor(), (U, D), 1e-8, lambda aux, conv: dict(seeds_kw(aux, 'values'), init=0.5))
        est(nm + '(force_bipartite)', lambda ctor=ctor: ctor(), (U, D), 1e-8,
            lambda aux, conv: {'values_row': aux['values_row_dict'], 'values_col': aux['values_array'], 'force_bipartite': True})
    est('NNLinker', lambda: linkpred.NNLinker(n_neighbors=2), (U, D), 1e-6,
        tie_ok=lambda a, aux, ref, out, tol: nnlinker_ties(a, aux, None, ref, out, tol))
    est('NNLinker(index)', lambda: linkpred.NNLinker(n_neighbors=2), (U,), 1e-6, lambda aux, conv: {'index': aux['index']},
        tie_ok=lambda a, aux, ref, out, tol: nnlinker_ties(a, aux, None, ref, out, tol))
    arr('classification metrics', lambda aux: (classification.get_accuracy_score(aux['labels_true'], aux['labels_pred']),
                                               classification.get_confusion_matrix(aux['labels_true'], aux['labels_pred']),
                                               classification.get_f1_scores(aux['labels_true'], aux['labels_pred'], True),
                                               classification.get_average_f1_score(aux['labels_true'], aux['labels_pred'])))
    # ---------------------------------------------------------------- gnn
    def gnn_kw(aux, conv):
        feats = conv(aux['features']) if aux['variant'] % 2 else aux['features']
        return {'features': feats, 'labels': aux['labels_array'] if aux['variant'] % 3 else aux['labels_dict'],
                'n_epochs': aux['n_epochs'], 'random_state': 1}
    est('GNNClassifier', lambda: gnn.GNNClassifier(dims=[4, 2], verbose=False), (U, D), 1e-6, gnn_kw)
    est('GNNClassifier(sage)', lambda: gnn.GNNClassifier(dims=[4, 2], layer_types='Sage', sample_sizes=30, verbose=False), (U,), 1e-6, gnn_kw)
    arr('GNNClassifier(lists)', lambda aux: fitted(gnn.GNNClassifier(
        dims=aux['dims_list'], layer_types=aux['layer_types_list'], activations=aux['activations_list'], use_bias=aux['use_bias_list'],
        normalizations=aux['normalizations_list'], self_embeddings=aux['self_embeddings_list'], sample_sizes=aux['sample_sizes_list'])))
    from sknetwork import data as skdata
    arr('from_edge_list', lambda aux: (skdata.from_edge_list(aux['edge_list'], directed=True, matrix_only=True),
                                       skdata.from_edge_list(aux['edge_array'], matrix_only=True)), (D, U))
    arr('from_adjacency_list', lambda aux: skdata.from_adjacency_list(aux['adjacency_list'], directed=True, matrix_only=True), (D, U))
    # ---------------------------------------------------------------- path
    def src_kw(aux):
        if aux['bip']:
            mode = aux['variant'] % 3
            kw = {}
            if mode in (0, 2):
                kw['source_row'] = aux['sources']
            if mode in (1, 2):
                kw['source_col'] = aux['sources_col']
            return kw
        return {'source': aux['sources'] if aux['variant'] % 2 else aux['sources'][0]}
    fun('get_distances', lambda m, aux, conv: path.get_distances(m, **src_kw(aux)), (D, U, B), 0)
    fun('get_distances(transpose)', lambda m, aux, conv: path.get_distances(m, source=aux['sources'], transpose=True), (D,), 0)
    fun('get_distances(force_bipartite)', lambda m, aux, conv: path.get_distances(m, source_row=aux['sources'], force_bipartite=True), (D,), 0)
    fun('get_shortest_path', lambda m, aux, conv: path.get_shortest_path(m, **src_kw(aux)), (D, U, B), 0)
    fun('breadth_first_search', lambda m, aux, conv: sorted(path.breadth_first_search(m, aux['sources'][0]).tolist()), (D, U), 0)
    fun('get_dag', lambda m, aux, conv: path.get_dag(m, order=aux['order']), (D, U), 0)
    fun('get_dag(source)', lambda m, aux, conv: path.get_dag(m, source=aux['sources']), (D, U), 0)
    # ---------------------------------------------------------------- topology
    fun('count_triangles', lambda m, aux, conv: topology.count_triangles(m), (U,), 0)
    fun('count_triangles(parallel)', lambda m, aux, conv: topology.count_triangles(m, parallelize=True), (U,), 0)
    fun('count_cliques', lambda m, aux, conv: topology.count_cliques(m, 3), (U,), 0)
    fun('get_core_decomposition', lambda m, aux, conv: topology.get_core_decomposition(m), (U,), 0, 'all')
    fun('get_clustering_coefficient', lambda m, aux, conv: topology.get_clustering_coefficient(m), (U,), 1e-12)
    fun('color_weisfeiler_lehman', lambda m, aux, conv: topology.color_weisfeiler_lehman(m), (U,), 0, 'all')
    fun('are_isomorphic', lambda m, aux, conv: topology.are_isomorphic(m, conv(sparse.csr_matrix(m))), (U,), 0)
    fun('get_connected_components', lambda m, aux, conv: canon_labels(topology.get_connected_components(m)), (D, U), 0)
    fun('get_connected_components(strong)', lambda m, aux, conv: canon_labels(topology.get_connected_components(m, connection='strong')), (D,), 0)
    fun('get_connected_components(bipartite)', lambda m, aux, conv: canon_labels(topology.get_connected_components(m)), (B,), 0)
    fun('is_connected', lambda m, aux, conv: topology.is_connected(m), (D, U, B), 0)
    fun('get_largest_connected_component', lambda m, aux, conv: topology.get_largest_connected_component(m, return_index=True), (D, U, B), 0)
    fun('is_bipartite', lambda m, aux, conv: topology.is_bipartite(m, return_biadjacency=True), (U,), 0)
    fun('is_acyclic', lambda m, aux, conv: topology.is_acyclic(m), (D, U), 0)
    fun('get_cycles', lambda m, aux, conv: sorted(sorted(map(int, c)) for c in topology.get_cycles(m)), ('dir_small',), 0)   # exponential in the size
    fun('break_cycles', lambda m, aux, conv: topology.break_cycles(m, root=0), (D, U), 0)
    fun('is_symmetric', lambda m, aux, conv: topology.is_symmetric(m), (D, U), 0)
    # ---------------------------------------------------------------- visualization
    def vg_kw(aux, conv):
        v = aux['variant']
        kw = {'position': aux['position']}
        opts = [('names', aux['names']), ('labels', aux[('labels_array', 'labels_dict', 'labels_list')[v % 3]]),
                ('scores', aux['scores'] if v % 2 else aux['scores'].tolist()), ('seeds', aux['labels_dict'] if v % 2 else list(aux['labels_dict'])),
                ('node_weights', aux['node_weights']), ('edge_labels', aux['edge_labels']), ('node_order', aux['node_order']),
                ('label_colors', aux['label_colors'])]
        for k, (name, val) in enumerate(opts):
            if (v >> k) & 1:
                kw[name] = val
        if 'scores' in kw and 'labels' in kw:
            del kw['scores']
        if (v >> 9) & 1 and 'labels' not in kw and 'scores' not in kw:
            kw['probs'] = conv(aux['probs']) if v % 2 else aux['probs']
        kw['display_edge_weight'] = bool((v >> 10) & 1)
        kw['display_node_weight'] = bool((v >> 11) & 1)
        return kw
    fun('visualize_graph', lambda m, aux, conv: visualization.visualize_graph(m, **vg_kw(aux, conv)), (U, D), 0, 'all')
    # the layout is computed inside (Spring, up to 50 iterations, stopped when the mean displacement falls under `tol`:
    # round-off can move that test by one iteration) and rounded to pixels: coordinates are compared within 8 pixels of 400
    fun('visualize_graph(no position)', lambda m, aux, conv: visualization.visualize_graph(m, labels=aux['labels_array']), (U,), 8.0)

    def vb_kw(aux, conv):
        v = aux['variant']
        opts = [('names_row', aux['names']), ('names_col', aux['names_col']),
                ('labels_row', aux['labels_row_dict'] if v % 2 else aux['labels_row_array']), ('labels_col', aux['labels_col_array'] if v % 2 else aux['labels_col_dict']),
                ('seeds_row', aux['labels_row_dict']), ('seeds_col', list(aux['labels_col_dict'])),
                ('node_weights_row', aux['node_weights']), ('node_weights_col', aux['node_weights_col']),
                ('position_row', aux['position']), ('position_col', aux['position_col']), ('label_colors', aux['label_colors'])]
        kw = {}
        for k, (name, val) in enumerate(opts):
            if (v >> k) & 1:
                kw[name] = val
        if ('position_row' in kw) != ('position_col' in kw):
            kw.pop('position_row', None)
            kw.pop('position_col', None)
        if 'labels_row' not in kw and 'labels_col' not in kw and (v >> 12) & 1:
            kw['scores_row'] = aux['scores']
            kw['scores_col'] = aux['scores_col']
        kw['reorder'] = bool((v >> 13) & 1)
        kw['display_node_weight'] = bool((v >> 14) & 1)
        return kw
    fun('visualize_bigraph', lambda m, aux, conv: visualization.visualize_bigraph(m, **vb_kw(aux, conv)), (B,), 0, 'all')
    arr('visualize_dendrogram', lambda aux: visualization.visualize_dendrogram(aux['dendrogram'], names=aux['names'], reorder=True), **D0)
    # ---------------------------------------------------------------- utils / linalg
    fun('check_format', lambda m, aux, conv: utils.check_format(m), (U, D, B), 0, 'all')
    fun('directed2undirected', lambda m, aux, conv: utils.directed2undirected(m, weighted=bool(aux['variant'] % 2)), (D, U), 0)
    fun('bipartite2undirected', lambda m, aux, conv: utils.bipartite2undirected(m), (B, D), 0)
    fun('bipartite2directed', lambda m, aux, conv: utils.bipartite2directed(m), (B, D), 0)
    fun('get_adjacency', lambda m, aux, conv: utils.get_adjacency(m, force_bipartite=bool(aux['variant'] % 2))[0], (U, D, B), 0, 'all')
    fun('get_adjacency_values', lambda m, aux, conv: utils.get_adjacency_values(
        m, **{k.replace('labels', 'values'): v for k, v in seeds_kw(aux, 'labels', ('dict', 'array')).items()})[:2], (U, D, B), 0, 'all')
    fun('get_degrees', lambda m, aux, conv: (utils.get_degrees(m), utils.get_degrees(m, transpose=True)), (D, U, B), 0)
    fun('get_weights', lambda m, aux, conv: (utils.get_weights(m), utils.get_weights(m, transpose=True)), (D, U, B), 1e-12)
    fun('get_neighbors', lambda m, aux, conv: (sorted(utils.get_neighbors(m, aux['sources'][0]).tolist()),
                                               sorted(utils.get_neighbors(m, aux['sources_col'][0], transpose=True).tolist())), (D, U, B), 0)
    fun('get_tfidf', lambda m, aux, conv: utils.get_tfidf(m), (B, U), 1e-10)
    arr('get_membership', lambda aux: (utils.get_membership(aux['partition']), utils.get_membership(aux['labels_array'], dtype=float, n_labels=3),
                                       utils.from_membership(utils.get_membership(aux['partition']))))
    arr('get_values', lambda aux: (utils.get_values((len(aux['partition']),), aux['values_dict']), utils.get_values((len(aux['partition']),), aux['values_array']),
                                   utils.get_values((len(aux['partition']),), aux['values_list'])))
    arr('stack_values', lambda aux: utils.stack_values((len(aux['partition']), len(aux['partition_col'])), aux['values_row_dict'], aux['values_col_array']))
    # documented input: CSR, ndarray or LinearOperator; the result has the format of the input
    fun('normalize', lambda m, aux, conv: (dense(linalg.normalize(m)), dense(linalg.normalize(m, p=2))), (D, U, B), 1e-12, 'csr+dense')
    fun('get_norms', lambda m, aux, conv: (linalg.get_norms(m), linalg.get_norms(m, p=2)), (D, U, B), 1e-12, 'csr+dense')
    fun('get_laplacian', lambda m, aux, conv: linalg.get_laplacian(m), (U,), 1e-12)
    arr('diagonal_pseudo_inverse', lambda aux: linalg.diagonal_pseudo_inverse(aux['node_weights']))
    fun('safe_sparse_dot', lambda m, aux, conv: (dense(linalg.safe_sparse_dot(m, aux['dense_block'])), dense(linalg.safe_sparse_dot(m, conv(sparse.csr_matrix(aux['dense_block']))))), (D, B), 1e-12, 'csr+dense')

    def op(name, mk, kinds, policy='csr+dense'):     # documented input of the operators: csr_matrix or ndarray
        def f(m, aux, conv):
            o = mk(m, aux)
            x = aux['vector'] if o.shape[1] == len(aux['vector']) else np.arange(o.shape[1], dtype=float)
            blk = aux['dense_block'] if o.shape[1] == len(aux['dense_block']) else np.outer(x, [1.0, 0.5])
            return {'dot': o.dot(x), 'dot_block': o.dot(blk), 'T.dot': o.T.dot(np.arange(o.shape[0], dtype=float))}
        add(name, kinds, policy, 1e-10, f)
    op('Normalizer', lambda m, aux: linalg.Normalizer(m, 0.5), (D, U))
    op('Laplacian', lambda m, aux: linalg.Laplacian(m, 0.5, bool(aux['variant'] % 2)), (U,))
    op('Regularizer', lambda m, aux: linalg.Regularizer(m, 0.5), (D, B))
    op('CoNeighbor', lambda m, aux: linalg.CoNeighbor(m), (B, D))
    op('Polynome', lambda m, aux: linalg.Polynome(m, aux['coeffs']), (U, D))
    op('SparseLR', lambda m, aux: linalg.SparseLR(m, [(np.arange(m.shape[0], dtype=float), aux['vector'])]), (D, B), 'csr')
    return E
