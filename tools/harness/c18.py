"""C18 — graphs are ingested and persisted faithfully.

Correspondence: every case calls the real function (overlay build of the working tree) and sends
  run  line -> the Lean model (SkNet/Model/Ingest.lean, Csv.lean, Persist.lean, GraphML.lean) computes the answer
               from the same input; compared exactly (dense matrix as rationals, shape, names, files, verdicts)
  spec line -> the Lean specification (SkNet/Spec/Ingest.lean: entry (a,b) read off the edge list, names
               round trip, shape) / `Persist.Inside` is evaluated on the implementation's own output.
On-disk effects (save/load, tar extraction) are observed in a per-run scratch directory that is removed at exit.
"""
import io
import itertools
import json
import os
import shutil
import sys
import tarfile
import tempfile
import warnings
from fractions import Fraction

import numpy as np
from scipy import sparse

from vlib.cases import Case, Sub, evaluate as _evaluate
from vlib.core import enc_rat, enc_bool, VERIF

RULE = ('edge lists: exhaustive lists of <= 2 edges over 3 identifiers (int and str) x all 32 flag combinations (thorough: all '
        'lists of 3 edges x 4 sampled flag combinations), sampled lists of 1..7 edges over int / gapped int / negative int / '
        '64-bit int beyond 2^53 (as ints and as numeric strings) / letter / mixed / numeric-string identifiers with duplicate, '
        'reciprocal, self-loop, zero, negative, dyadic and boolean weights, lists whose weights are all near-integers (1e5..2e9 '
        'plus .25/.5/.75) or all tiny (2^-27..2^-30) x flags x shape x matrix_only, list and ndarray '
        'inputs, adjacency lists and dicts; CSV files with each delimiter (tab , ; space and an explicit |), 0..3 header lines '
        '(# / % / mixed / other characters through comments=), comment lines and blank lines between and after the rows, names '
        'containing another candidate delimiter or a comment character, CRLF / CR line ends, blank lines of other white space, '
        'non-ASCII names, quoted fields (spec line only), more than n_scan rows, with and without final newline, numeric (also beyond '
        '2^53) and string identifiers, delimiter given / given as sep / inferred, the three layouts (all with the expected '
        'edges as a spec line; files whose delimiter is genuinely ambiguous: run line only); datasets with csr / ndarray / '
        'pickled attributes saved and loaded through absolute / relative / ~ / pathlib / trailing-slash folder names, into '
        'folders that hold the bundles of 0..3 earlier saves (other attributes, pickled str / Dataset / list / dict) and stray '
        'files of every extension and a sub-folder, the '
        'bundle functions into a non-empty folder; path pairs; in-memory tar archives with hostile member names and with '
        'symbolic-link / hard-link / directory members, everything created under the scratch root being observed without '
        'following links and compared with the files expected (refusal vs acceptance exactly); GraphML documents (weight_key= '
        'weight / cost / w with decoy keys, keys relying on the DTD defaults (no for / attr.name / attr.type, for=all), weight '
        'key of type int / long / float / double / boolean or absent, node and '
        'edge data of other keys, keys for node / edge / all / graph, a node key named like the weight key, canonical ids). '
        'A case is non-trivial when the call succeeds on an input with at least two edges (ingestion), two attributes '
        '(persistence) or a member name containing a separator or dots (extraction); distinct = distinct (function, input, flags)')
ASSUMPTIONS = [
    'numpy / scipy are the substrate: np.array coercion of a list of tuples, np.unique, csr_matrix((data,(row,col))) summing '
    'duplicates, A + A.T, astype; np.genfromtxt and csv.reader split unquoted lines at the (single-character) delimiter; '
    'files with quoted fields are checked through spec lines only (the model reader does not honour quotes)',
    'identifiers are integers in the int64 range or strings; strings that numpy reads as numbers are only generated in '
    'canonical integer form (no "01", "1e3", "nan", "1_0", "1.0"): the spelling of numeric-looking strings is not preserved '
    'by from_edge_list (excluded input, stated in the status file)',
    'weights are integers or dyadic rationals of magnitude at most 2^53 (sknetwork holds weights in float64: sums exact; '
    'larger integer weights are rounded on the CSV / string route, by design of the float weights)',
    'np.save / np.load / save_npz / load_npz / pickle round-trip their payload; os.listdir returns the files in some order',
    'tarfile.extractall(filter="data") is trusted for link members (nothing is created outside the folder); the harness '
    'monitors it by observing the whole scratch root after each extraction',
    'exception classes are compared exactly (subclasses of tarfile.FilterError and of FileNotFoundError identified)',
]

TEXT = 'TEXT'          # a weight that is not numeric
SCRATCH_PARENT = '/root/scratch'
_scratch = {'dir': None}


# ------------------------------------------------------------------------------------------------
# scratch directory
# ------------------------------------------------------------------------------------------------
def scratch():
    if _scratch['dir'] is None:
        os.makedirs(SCRATCH_PARENT, exist_ok=True)
        _scratch['dir'] = tempfile.mkdtemp(prefix='c18_run_', dir=SCRATCH_PARENT)
    return _scratch['dir']


def cleanup():
    d = _scratch['dir']
    if d and os.path.isdir(d):
        shutil.rmtree(d, ignore_errors=True)
    _scratch['dir'] = None


# ------------------------------------------------------------------------------------------------
# encoding
# ------------------------------------------------------------------------------------------------
def enc_str(s):
    return '~' if s == '' else '.'.join(str(ord(c)) for c in s)


def enc_strs(ss):
    ss = list(ss)
    return ','.join(enc_str(s) for s in ss) if ss else '-'


def enc_ident(x):
    if isinstance(x, (bool, np.bool_)):
        return 'b' + str(x)
    if isinstance(x, (int, np.integer)):
        return 'i%d' % int(x)
    if isinstance(x, str):
        return 's' + enc_str(x)
    return 'f' + repr(x)          # no model token: shows up as a disagreement


def enc_idents(xs):
    xs = list(xs)
    return ','.join(enc_ident(x) for x in xs) if xs else '-'


def enc_w(w):
    if w is None:
        return '_'
    if w == TEXT:
        return '!'
    return enc_rat(Fraction(w))


def enc_edges(edges):
    return ';'.join('%s,%s,%s' % (enc_ident(a), enc_ident(b), enc_w(w)) for a, b, w in edges) if edges else '-'


FLAG_KEYS = ('directed', 'bipartite', 'weighted', 'reindex', 'sum_duplicates')


def mkflags(directed=False, bipartite=False, weighted=True, reindex=False, sum_duplicates=True, shape=None,
            matrix_only=None):
    return {'directed': directed, 'bipartite': bipartite, 'weighted': weighted, 'reindex': reindex,
            'sum_duplicates': sum_duplicates, 'shape': shape, 'matrix_only': matrix_only}


def enc_flags(fl):
    sh = '_' if fl['shape'] is None else '%d,%d' % tuple(fl['shape'])
    mo = '_' if fl['matrix_only'] is None else enc_bool(fl['matrix_only'])
    return ' '.join([enc_bool(fl[k]) for k in FLAG_KEYS] + [sh, mo])


def flag_kwargs(fl):
    kw = {k: fl[k] for k in FLAG_KEYS}
    kw['shape'] = None if fl['shape'] is None else tuple(fl['shape'])
    kw['matrix_only'] = fl['matrix_only']
    return kw


def _exact(v):
    if isinstance(v, (bool, np.bool_)):
        return Fraction(int(v))
    if isinstance(v, (int, np.integer)):
        return Fraction(int(v))
    return Fraction(float(v))


def enc_dense(m):
    a = m.toarray()
    if a.shape[0] == 0:
        return '-'
    return ';'.join(('-' if a.shape[1] == 0 else ','.join(enc_rat(_exact(v)) for v in row)) for row in a)


def enc_names(v):
    return '_' if v is None else enc_idents(v.tolist() if hasattr(v, 'tolist') else list(v))


def enc_result(res):
    """Canonical text of what from_edge_list / from_csv returned."""
    if sparse.issparse(res):
        return 'ok m %d %d %s' % (res.shape[0], res.shape[1], enc_dense(res))
    bip = 'biadjacency' in res
    m = res['biadjacency'] if bip else res['adjacency']
    return 'ok g %s %d %d %s %s %s %s' % (enc_bool(bip), m.shape[0], m.shape[1], enc_dense(m),
                                         enc_names(res.get('names')), enc_names(res.get('names_row')),
                                         enc_names(res.get('names_col')))


ERRORS = (ValueError, IndexError, TypeError, KeyError, AttributeError, OverflowError)


def call(f):
    with warnings.catch_warnings():
        warnings.simplefilter('ignore')
        try:
            return f()
        except ERRORS as e:
            return 'err ' + type(e).__name__


# ------------------------------------------------------------------------------------------------
# edge lists
# ------------------------------------------------------------------------------------------------
def py_weight(w, style=0):
    if w == TEXT:
        return 'x'
    f = Fraction(w)
    if style == 1 and f in (0, 1):
        return bool(f)
    if style == 2:                      # numeric string (as csv.reader hands it over)
        return str(f.numerator) if f.denominator == 1 else repr(float(f))
    return int(f) if f.denominator == 1 else float(f)


def py_edges(edges, style=0):
    return [(a, b) if w is None else (a, b, py_weight(w, style)) for a, b, w in edges]


def weights_kind(edges):
    """'none', 'near-integer' (every weight within numpy's allclose tolerance of an integer, not all integral), 'other'."""
    ws = [w for _, _, w in edges if w is not None and w != TEXT]
    if not ws:
        return 'none'
    if all(abs(w - round(w)) <= Fraction(1, 10 ** 8) + Fraction(1, 10 ** 5) * abs(round(w)) for w in ws) \
            and any(Fraction(w).denominator != 1 for w in ws):
        return 'near-integer'
    return 'other'


def ids_kind(edges):
    ids = [x for a, b, _ in edges for x in (a, b)]
    if all(isinstance(x, int) for x in ids):
        return 'int'
    if all(isinstance(x, str) for x in ids):
        return 'str'
    return 'mixed'


def is_numeric_ids(edges):
    def num(x):
        if isinstance(x, int):
            return True
        s = x[1:] if x.startswith('-') else x
        return s.isdigit() and s.isascii()
    return all(num(x) for a, b, _ in edges for x in (a, b))


def spec_tokens(ctx_call, res_text, fl, edges):
    """Tokens `<nRow> <nCol> <dense> <rowIds> <colIds> <named>` of a spec line, from the implementation's output.
    `ctx_call(matrix_only=False)` re-runs the call to observe the names when only the matrix was returned."""
    parts = res_text.split(' ')
    if parts[1] == 'm':
        nr, nc, dense = parts[2], parts[3], parts[4]
        full = ctx_call()
        if not full.startswith('ok g'):
            return None, 'matrix_only=False failed: ' + full
        fp = full.split(' ')
        if (fp[3], fp[4], fp[5]) != (nr, nc, dense):
            return None, 'matrix_only changes the matrix: %s vs %s' % (res_text, full)
        parts = fp
    _, _, bip, nr, nc, dense, names, nrow, ncol = parts
    if bip == '1':
        rows, cols = nrow, ncol
    else:
        rows, cols = names, names
    named = rows != '_'
    if rows == '_':
        rows = ','.join('i%d' % i for i in range(int(nr))) or '-'
    if cols == '_':
        cols = ','.join('i%d' % i for i in range(int(nc))) or '-'
    return '%s %s %s %s %s %s' % (nr, nc, dense, rows, cols, enc_bool(named)), None


def edge_case(edges, fl, via='list', style=0):
    """One from_edge_list call: run line + spec line."""
    from sknetwork.data import from_edge_list
    kw = flag_kwargs(fl)
    pe = py_edges(edges, style)

    def arg():
        if via == 'array':
            return np.array([list(e) for e in pe])
        if via.startswith('array:'):        # an integer edge array of another integer dtype (int32 is what A.nonzero() gives)
            return np.array([list(e) for e in pe], dtype=via[6:])
        return pe

    def f(**over):
        k = dict(kw)
        k.update(over)
        return enc_result(from_edge_list(arg(), **k))
    impl = call(f)
    fe = enc_flags(fl)
    ee = enc_edges(edges)
    run = 'c18.edges %s %s' % (fe, ee)
    spec = None
    sig = {'entry': 'from_edge_list', 'via': via, 'ids': ids_kind(edges), 'weights': weights_kind(edges)}
    sig.update({k: fl[k] for k in FLAG_KEYS})
    desc = {'f': 'from_edge_list', 'edges': [[a, b, None if w is None else str(w)] for a, b, w in edges],
            'flags': fl, 'via': via, 'style': style}
    early = None
    if impl.startswith('ok'):
        toks, why = spec_tokens(lambda: call(lambda: f(matrix_only=False)), impl, fl, edges)
        if toks is None:
            early = why
        else:
            spec = 'c18.spec_edges %s %s %s' % (fe, ee, toks)
    c = Case(('edges', fe, ee, via, style), sig, run, impl, spec, len(edges) >= 2 and impl.startswith('ok'), desc)
    return c, early


def adj_case(adj, fl, as_dict):
    from sknetwork.data import from_adjacency_list
    kw = flag_kwargs(fl)
    if as_dict:
        arg = {k: list(v) for k, v in adj}
        edges = [(k, j, None) for k, v in arg.items() for j in v]
        rows_tok = ';'.join('%s:%s' % (enc_ident(k), enc_idents(v)) for k, v in arg.items()) or '-'
        run = 'c18.adjdict %s %s' % (enc_flags(fl), rows_tok)
    else:
        arg = [list(v) for v in adj]
        edges = [(i, j, None) for i, v in enumerate(arg) for j in v]
        rows_tok = ';'.join(enc_idents(v) for v in arg) or '-'
        run = 'c18.adjlist %s %s' % (enc_flags(fl), rows_tok)

    def f(**over):
        k = dict(kw)
        k.update(over)
        return enc_result(from_adjacency_list(arg, **k))
    impl = call(f)
    spec = None
    early = None
    if impl.startswith('ok'):
        toks, why = spec_tokens(lambda: call(lambda: f(matrix_only=False)), impl, fl, edges)
        if toks is None:
            early = why
        else:
            spec = 'c18.spec_edges %s %s %s' % (enc_flags(fl), enc_edges(edges), toks)
    sig = {'entry': 'from_adjacency_list', 'via': 'dict' if as_dict else 'list', 'ids': ids_kind(edges) if edges else 'int'}
    sig.update({k: fl[k] for k in FLAG_KEYS})
    desc = {'f': 'from_adjacency_list', 'adj': [[k, list(v)] for k, v in adj] if as_dict else [list(v) for v in adj],
            'as_dict': as_dict, 'flags': fl}
    return Case(('adj', enc_flags(fl), rows_tok, as_dict), sig, run, impl, spec,
                len(edges) >= 2 and impl.startswith('ok'), desc), early


# ------------------------------------------------------------------------------------------------
# CSV
# ------------------------------------------------------------------------------------------------
def fmt_w(w):
    """Exact decimal text of a dyadic weight (no exponent: 2**-28 is written 0.0000000037252902984619140625)."""
    f = Fraction(w)
    if f.denominator == 1:
        return str(f.numerator)
    from decimal import Decimal, getcontext
    getcontext().prec = 80
    return format(Decimal(f.numerator) / Decimal(f.denominator), 'f')


def csv_text(rows, delim, header, final_newline):
    lines = list(header) + [delim.join(str(x) for x in r) for r in rows]
    return '\n'.join(lines) + ('\n' if final_newline else ''), lines


def lines_of(text):
    """The lines of a file as `readlines()` sees them, without their terminator."""
    lines = text.replace('\r\n', '\n').replace('\r', '\n').split('\n')      # universal newlines of text mode
    if lines and lines[-1] == '':
        lines = lines[:-1]
    return lines


def csv_case(text, lines, args, fl, edges, tag, spec_only=False):
    """from_csv on a file with content `text`; `edges` (or None) are the rows as identifiers/weights for the spec."""
    from sknetwork.data import from_csv
    lines = lines_of(text)
    path = os.path.join(scratch(), 'f_%s.csv' % tag)
    with open(path, 'w', encoding='utf-8', newline='') as fh:
        fh.write(text)
    kw = flag_kwargs(fl)
    kw.update({k: v for k, v in args.items() if v is not None})

    def f(**over):
        k = dict(kw)
        k.update(over)
        return enc_result(from_csv(path, **k))
    impl = call(f)
    a_tok = '%s %s %s %s' % ('_' if args.get('delimiter') is None else enc_str(args['delimiter']),
                             '_' if args.get('sep') is None else enc_str(args['sep']),
                             enc_str(args.get('comments') or '#%'),
                             args.get('data_structure') or '_')
    run = None if spec_only else 'c18.csv %s %s %s' % (a_tok, enc_flags(fl), enc_strs(lines))
    spec = None
    early = None
    if edges is not None:
        if impl.startswith('ok'):
            toks, why = spec_tokens(lambda: call(lambda: f(matrix_only=False)), impl, fl, edges)
            if toks is None:
                early = why
            else:
                spec = 'c18.spec_edges %s %s %s' % (enc_flags(fl), enc_edges(edges), toks)
        else:
            early = 'from_csv raised %s on a well-formed file' % impl
    sig = {'entry': 'from_csv', 'delimiter': args.get('delimiter') or args.get('sep') or 'inferred',
           'given_as': 'delimiter' if args.get('delimiter') else ('sep' if args.get('sep') else 'inferred'),
           'header_lines': sum(1 for ln in lines if ln[:1] and ln[:1] in (args.get('comments') or '#%')),
           'rows': len(lines), 'comments': args.get('comments') or 'default',
           'header': {0: 'none', 1: 'single'}.get(len({ln[:1] for ln in lines
                                                        if ln[:1] and ln[:1] in (args.get('comments') or '#%')}), 'mixed'),
           'layout': args.get('data_structure') or 'guessed', 'weights': weights_kind(edges or [])}
    sig.update({k: fl[k] for k in FLAG_KEYS})
    desc = {'f': 'from_csv', 'text': text, 'args': args, 'flags': fl,
            'edges': None if edges is None else [[a, b, None if w is None else str(w)] for a, b, w in edges]}
    try:
        os.remove(path)
    except OSError:
        pass
    return Case(('csv', text, json.dumps(args, sort_keys=True), enc_flags(fl)), sig, run, impl, spec,
                edges is not None and len(edges) >= 2 and impl.startswith('ok'), desc), early


# ------------------------------------------------------------------------------------------------
# save / load
# ------------------------------------------------------------------------------------------------
def make_payload(kind, k, rng):
    """A value of the given kind, distinguishable from the others by its content (payload id k)."""
    from sknetwork.data.base import Dataset
    if kind == 'csr':
        m = sparse.csr_matrix(np.array([[0, k + 1, 0], [1, 0, 2]]) if k % 2 else np.array([[k + 1, 0], [0, 1]]))
        return m
    if kind == 'ndarray':
        return [np.arange(k + 2), np.array(['n%d' % k, 'x']), np.array([[k, 1.5]])][k % 3]
    return [('s%d' % k), Dataset(name='d%d' % k, inner=np.arange(k + 1)), [k, 'l'], sparse.csc_matrix(np.eye(2) * (k + 1)),
            float(k) + 0.5, {'k': k}][k % 6]


def same_value(a, b):
    if type(a) is not type(b):
        return False
    if sparse.issparse(a):
        return a.shape == b.shape and a.dtype == b.dtype and (a != b).nnz == 0
    if isinstance(a, np.ndarray):
        return a.shape == b.shape and a.dtype == b.dtype and bool((a == b).all())
    if isinstance(a, dict):
        return list(a.keys()) == list(b.keys()) and all(same_value(a[k], b[k]) for k in a)
    return a == b


def persist_case(attrs, rng, tag, absolute=True, history=None):
    """attrs: list of (key, kind, payload id). save to a scratch folder, list it, load it back."""
    from sknetwork.data.base import Dataset
    import sknetwork.data  # noqa: F401
    L = sys.modules['sknetwork.data.load']
    folder = os.path.join(scratch(), 'bundle_%s' % tag)
    values = {}
    ds = Dataset()
    for key, kind, pid in attrs:
        values[pid] = make_payload(kind, pid, rng)
        ds[key] = values[pid]
    # `save` is a state machine over the folder: whatever the folder held before -- the bundles of earlier saves
    # (`history`: attribute lists, pickled kinds included), files of every extension, a sub-folder -- the folder
    # after this save holds exactly the files of this dataset
    os.makedirs(folder, exist_ok=True)
    import pickle
    with open(os.path.join(folder, 'stale.npy'), 'wb') as fh:
        np.save(fh, np.arange(2))
    sparse.save_npz(os.path.join(folder, 'stalem.npz'), sparse.csr_matrix(np.eye(2)))
    with open(os.path.join(folder, 'stalep.p'), 'wb') as fh:
        pickle.dump('left over', fh)
    os.makedirs(os.path.join(folder, 'subdir'), exist_ok=True)
    with open(os.path.join(folder, 'subdir', 'inner.npy'), 'wb') as fh:
        np.save(fh, np.arange(3))
    for hi, hattrs in enumerate(history or []):
        prev = Dataset()
        for key, kind, pid in hattrs:
            prev[key] = make_payload(kind, 100 + 10 * hi + pid, rng)
        try:
            L.save(folder, prev)
        except Exception:      # noqa: BLE001 - the observation is about the last save
            pass
    before = []
    for fn in sorted(os.listdir(folder)):
        if os.path.isfile(os.path.join(folder, fn)):
            before.append('%s:%s:0' % (enc_str(fn), {'.npz': 'csr', '.npy': 'ndarray'}.get(os.path.splitext(fn)[1], 'other')))
    before_tok = ','.join(before) or '-'
    cwd = os.getcwd()
    home = os.environ.get('HOME')
    form = {True: 'abs', False: 'rel'}.get(absolute, absolute)

    def enter():
        """The folder argument in the requested form (the process state it needs is set, `leave` restores it)."""
        if form == 'rel':
            os.chdir(scratch())
            return os.path.basename(folder)
        if form == 'home':
            os.environ['HOME'] = scratch()
            return '~/' + os.path.basename(folder)
        if form == 'pathlib':
            from pathlib import Path
            return Path(folder)
        if form == 'trailing':
            return folder + '/'
        return folder

    def leave():
        os.chdir(cwd)
        if home is None:
            os.environ.pop('HOME', None)
        else:
            os.environ['HOME'] = home
    err = None
    try:
        L.save(enter(), ds)
    except Exception as e:      # noqa: BLE001 - any refusal to save is an observation
        err = 'err ' + type(e).__name__
    finally:
        leave()
    ext_kind = {'.npz': 'csr', '.npy': 'ndarray', '.p': 'other'}
    cases = []
    ds_tok = ','.join('%s:%s:%d' % (enc_str(k), kind, pid) for k, kind, pid in attrs) or '-'
    sig = {'entry': 'save', 'dotted_key': any('.' in k for k, _, _ in attrs),
           'bad_key': any(k == '' or '/' in k for k, _, _ in attrs), 'folder_form': form}
    desc = {'f': 'save_load', 'attrs': [list(a) for a in attrs], 'absolute': absolute,
            'history': [[list(a) for a in h] for h in (history or [])]}
    sig['history'] = len(history or [])
    if err is not None:
        cases.append(Case(('save', ds_tok), sig, 'c18.save_into %s %s' % (before_tok, ds_tok), err, None, False, desc))
        shutil.rmtree(folder, ignore_errors=True)
        return cases, None
    files = sorted(os.listdir(folder))
    ftoks = []
    pid_of_key = {k: pid for k, _, pid in attrs}
    for fn in files:
        stem, ext = os.path.splitext(fn)
        # the payload id is identified through the content of the file
        fp = os.path.join(folder, fn)
        try:
            if ext == '.npz':
                v = sparse.load_npz(fp)
            elif ext == '.npy':
                v = np.load(fp, allow_pickle=True)
            else:
                import pickle
                with open(fp, 'rb') as fh:
                    v = pickle.load(fh)
            pids = [p_ for p_, val in values.items() if same_value(val, v)]
        except Exception:      # noqa: BLE001
            pids = []
        ftoks.append('%s:%s:%d' % (enc_str(fn), ext_kind.get(ext, 'other'), pids[0] if pids else 999))
    impl_save = 'ok ' + (','.join(ftoks) if ftoks else '-')
    cases.append(Case(('save', ds_tok), sig, 'c18.save_into %s %s' % (before_tok, ds_tok), impl_save, None, len(attrs) >= 2, desc, canon='files'))
    # load
    try:
        try:
            back = L.load(enter())
        finally:
            leave()
        got = []
        for k, v in back.items():
            pid = [p for p, val in values.items() if same_value(val, v)]
            kind = 'csr' if type(v) is sparse.csr_matrix else ('ndarray' if type(v) is np.ndarray else 'other')
            got.append('%s:%s:%d' % (enc_str(k), kind, pid[0] if pid else 998))
        impl_load = 'ok ' + (','.join(got) if got else '-')
    except Exception as e:      # noqa: BLE001 - any failure to load back is an observation
        impl_load = 'err ' + type(e).__name__
    sig2 = dict(sig)
    sig2['entry'] = 'load'
    # listing order = os.listdir order
    listing = os.listdir(folder)
    ltoks = []
    for fn in listing:
        ltoks.append([t for t in ftoks if t.startswith(enc_str(fn) + ':')][0])
    early = None
    plain = not sig['dotted_key'] and not sig['bad_key']
    if plain:
        want = sorted('%s:%s:%d' % (enc_str(k), kind, pid) for k, kind, pid in attrs)
        if not impl_load.startswith('ok') or sorted(t for t in impl_load[3:].split(',') if t != '-') != want:
            early = 'load(save(d)) != d: saved %s, loaded %s' % (want, impl_load)
    cases.append(Case(('load', ds_tok), sig2, 'c18.load ' + (','.join(ltoks) if ltoks else '-'), impl_load, None,
                      len(attrs) >= 2, desc, canon='dataset'))
    shutil.rmtree(folder, ignore_errors=True)
    return cases, early


# ------------------------------------------------------------------------------------------------
# path containment and extraction
# ------------------------------------------------------------------------------------------------
def within_case(cwd, directory, target):
    import sknetwork.data  # noqa: F401
    L = sys.modules['sknetwork.data.load']
    old = os.getcwd()
    try:
        os.chdir(cwd)
        impl = 'ok ' + enc_bool(L.is_within_directory(directory, target))
    except Exception as e:      # noqa: BLE001 - the function is total on strings
        impl = 'err ' + type(e).__name__
    finally:
        os.chdir(old)
    # the model takes the current directory as a string: the harness hands over the real one
    run = 'c18.within %s %s %s' % (enc_str(os.path.realpath(cwd)), enc_str(directory), enc_str(target))
    sig = {'entry': 'is_within_directory'}
    desc = {'f': 'is_within_directory', 'cwd': cwd, 'directory': directory, 'target': target}
    return Case(('within', cwd, directory, target), sig, run, impl, None,
                '..' in target or '/' in target.strip('/'), desc)


def extract_case(members, tag, depth=3):
    """Build a tar archive in memory with the given member names and extract it into <root>/a/b/data."""
    import sknetwork.data  # noqa: F401
    L = sys.modules['sknetwork.data.load']
    root = os.path.realpath(os.path.join(scratch(), 'x_%s' % tag))
    shutil.rmtree(root, ignore_errors=True)
    dest = os.path.join(root, *(['lvl%d' % i for i in range(depth - 1)] + ['data']))
    os.makedirs(dest)
    names = [m.replace('{ROOT}', root).replace('{DEST}', dest) for m in members]
    buf = io.BytesIO()
    with tarfile.open(fileobj=buf, mode='w') as tar:
        for i, nm in enumerate(names):
            data = ('member %d' % i).encode()
            ti = tarfile.TarInfo(name=nm)
            ti.size = len(data)
            tar.addfile(ti, io.BytesIO(data))
    buf.seek(0)
    impl = None
    with warnings.catch_warnings():
        warnings.simplefilter('ignore')
        with tarfile.open(fileobj=buf, mode='r') as tar:
            try:
                L.safe_extract(tar, dest)
                impl = 'ok'
            except ERRORS as e:
                impl = 'err ' + type(e).__name__
            except OSError:
                # the check let every member through, then the file system refused one (a member names an
                # existing directory, a file is used as a directory): what was written so far is observed
                impl = 'ok!'
            except Exception as e:     # noqa: BLE001 - "Attempted path traversal" is a bare Exception
                impl = 'err ' + type(e).__name__
    written = []
    for dp, dn, fn in os.walk(root):
        for f in fn:
            written.append(os.path.join(dp, f))
    written.sort()
    if impl in ('ok', 'ok!'):
        impl = impl + ' ' + (','.join(sorted(enc_str(w) for w in written)) or '-')
    run = 'c18.extract %s %s %s' % (enc_str(root), enc_str(dest), enc_strs(names))
    spec = 'c18.spec_inside %s %s' % (enc_str(dest), enc_strs(written))
    sig = {'entry': 'safe_extract', 'dotdot': any('..' in m for m in members),
           'absolute': any(m.startswith(('/', '{')) for m in members)}
    desc = {'f': 'safe_extract', 'members': members, 'depth': depth}
    shutil.rmtree(root, ignore_errors=True)
    return Case(('extract', tuple(members), depth), sig, run, impl, spec,
                any(('/' in m or '.' in m) for m in members), desc, canon='paths')


def extract_links_case(members, tag, depth=3, expect=None, as_path=False):
    """An archive with link / directory members: `members` is a list of dicts {'name', 'type' in file|sym|hard|dir,
    'target'}. Everything that exists under the scratch root after the extraction is observed without following
    links: a regular file found outside the destination folder is a failing input."""
    import sknetwork.data  # noqa: F401
    L = sys.modules['sknetwork.data.load']
    root = os.path.realpath(os.path.join(scratch(), 'xl_%s' % tag))
    shutil.rmtree(root, ignore_errors=True)
    dest = os.path.join(root, *(['lvl%d' % i for i in range(depth - 1)] + ['data']))
    os.makedirs(dest)
    os.makedirs(os.path.join(root, 'outside'))

    def sub(x):
        return x.replace('{ROOT}', root).replace('{DEST}', dest)
    buf = io.BytesIO()
    with tarfile.open(fileobj=buf, mode='w') as tar:
        for i, m in enumerate(members):
            ti = tarfile.TarInfo(name=sub(m['name']))
            kind = m.get('type', 'file')
            if kind == 'file':
                data = ('member %d' % i).encode()
                ti.size = len(data)
                tar.addfile(ti, io.BytesIO(data))
                continue
            if kind == 'sym':
                ti.type = tarfile.SYMTYPE
                ti.linkname = sub(m['target'])
            elif kind == 'hard':
                ti.type = tarfile.LNKTYPE
                ti.linkname = sub(m['target'])
            else:
                ti.type = tarfile.DIRTYPE
                ti.mode = 0o755
            tar.addfile(ti)
    buf.seek(0)
    with warnings.catch_warnings():
        warnings.simplefilter('ignore')
        with tarfile.open(fileobj=buf, mode='r') as tar:
            outcome = None
            try:
                from pathlib import Path
                L.safe_extract(tar, Path(dest) if as_path else dest)
                impl = 'ok accepted'
                outcome = 'ok'
            except tarfile.FilterError:
                impl = 'ok accepted'               # the member check passed; tarfile's filter refused a member
                outcome = 'refused'
            except Exception as e:     # noqa: BLE001
                if type(e) is Exception:           # safe_extract's own refusal is a bare Exception
                    impl = 'err Exception'
                    outcome = 'check-refused'
                else:
                    impl = 'err ' + type(e).__name__   # anything else is not a verdict: compared with the model
                    outcome = 'error'
    files = []
    for dp, dn, fn in os.walk(root, followlinks=False):
        for f in fn:
            fp = os.path.join(dp, f)
            if not os.path.islink(fp):
                files.append(fp)          # a regular file, at its real location
    files.sort()
    names = [sub(m['name']) for m in members]
    run = 'c18.extract_check %s %s %s' % (enc_str(root), enc_str(dest), enc_strs(names))
    spec = 'c18.spec_inside %s %s' % (enc_str(dest), enc_strs(files))
    sig = {'entry': 'safe_extract', 'links': sorted({m.get('type', 'file') for m in members} - {'file'})}
    desc = {'f': 'safe_extract_links', 'members': members, 'depth': depth,
            'expect': None if expect is None else [expect[0], list(expect[1])], 'as_path': as_path}
    shutil.rmtree(root, ignore_errors=True)
    c = Case(('extract-links', json.dumps(members, sort_keys=True), depth, as_path), sig, run, impl, spec, True, desc)
    early = None
    if expect is not None:
        got = (outcome, sorted(os.path.relpath(f, dest) for f in files))
        want = (expect[0], sorted(expect[1]))
        if got != want:
            early = 'archive with link / directory members: expected %s with the files %s, observed %s with %s' % (
                want[0], want[1], got[0], got[1])
    return c, early


# (members, expected outcome with extraction filters, regular files expected on disk relative to the folder):
# 'refused' = tarfile's data filter stops at the offending member (what was extracted before it stays),
# 'ok' = every member is extracted
LINK_ARCHIVES = [
    ([{'name': 'lnk', 'type': 'sym', 'target': '{ROOT}/outside'}, {'name': 'lnk/evil.txt'}], 'refused', []),
    ([{'name': 'l2', 'type': 'sym', 'target': '..'}, {'name': 'l2/evil2.txt'}], 'refused', []),
    ([{'name': 'x', 'type': 'sym', 'target': '.'}, {'name': 'x/../evil3.txt'}], 'refused', []),
    ([{'name': 'sub', 'type': 'dir'}, {'name': 'sub/l', 'type': 'sym', 'target': '../..'}, {'name': 'sub/l/evil4.txt'}],
     'refused', []),
    ([{'name': 'in', 'type': 'sym', 'target': 'real'}, {'name': 'real', 'type': 'dir'}, {'name': 'in/ok.txt'}], 'ok', ['real/ok.txt']),
    ([{'name': 'd', 'type': 'dir'}, {'name': 'd/f.txt'}, {'name': 'h', 'type': 'hard', 'target': 'd/f.txt'}], 'ok', ['d/f.txt', 'h']),
    ([{'name': 'h', 'type': 'hard', 'target': '{ROOT}/outside/nothing'}], 'refused', []),
    ([{'name': 'l', 'type': 'sym', 'target': '{DEST}'}, {'name': 'l/inside.txt'}], 'refused', []),
    ([{'name': 'a', 'type': 'sym', 'target': 'b'}, {'name': 'b', 'type': 'sym', 'target': '{ROOT}/outside'}, {'name': 'a/evil5.txt'}],
     'refused', []),
    ([{'name': 'l', 'type': 'sym', 'target': '../../outside'}, {'name': 'l/evil6.txt'}], 'refused', []),
    ([{'name': 'plain.txt'}, {'name': 'dir', 'type': 'dir'}, {'name': 'dir/inner.npz'}], 'ok', ['plain.txt', 'dir/inner.npz']),
    ([{'name': 'first.txt'}, {'name': 'l', 'type': 'sym', 'target': '..'}, {'name': 'l/evil7.txt'}], 'refused', ['first.txt']),
    # what a NetSet / Konect archive looks like: a directory member, then its files
    ([{'name': 'wikivitals', 'type': 'dir'}, {'name': 'wikivitals/adjacency.npz'}, {'name': 'wikivitals/names.npy'},
      {'name': 'wikivitals/meta.p'}], 'ok', ['wikivitals/adjacency.npz', 'wikivitals/names.npy', 'wikivitals/meta.p']),
    ([{'name': 'a', 'type': 'dir'}, {'name': 'a/b', 'type': 'dir'}, {'name': 'a/b/out.tsv'}, {'name': 'a/README'}], 'ok',
     ['a/b/out.tsv', 'a/README']),
]


# ------------------------------------------------------------------------------------------------
# generators
# ------------------------------------------------------------------------------------------------
INT_IDS = [0, 1, 2]
BIG_IDS = [2 ** 53, 2 ** 53 + 1, 2 ** 53 + 2, 2 ** 62 + 1, 2 ** 62 + 3, -(2 ** 53 + 1), 10 ** 17 + 1, 10 ** 17 + 2]
STR_IDS = ['a', 'b', 'ab']
WEIGHTS = [Fraction(1), Fraction(2), Fraction(3), Fraction(0), Fraction(-1), Fraction(1, 2), Fraction(5, 4)]
# weights that are all *close to* an integer without being one (the cast to int is decided on the whole list:
# `all(weights == weights.astype(int))`): large magnitudes with a fractional part (counts, timestamps), and very
# small ones; dyadic, so that float64 sums of a list drawn from ONE of the pools are exact
WEIGHTS_BIGFRAC = [Fraction(200001, 2), Fraction(1000001, 4), Fraction(6400000003, 4), Fraction(6800000001, 4),
                   Fraction(3200000001, 2), Fraction(-400001, 4), Fraction(2 ** 31 * 4 + 3, 4), Fraction(1600000000)]
WEIGHTS_TINY = [Fraction(1, 2 ** 28), Fraction(1, 2 ** 30), Fraction(3, 2 ** 30), Fraction(5, 2 ** 29), Fraction(1, 2 ** 27),
                Fraction(-1, 2 ** 29)]


def weight_pool(wm):
    return {'any': WEIGHTS, 'small': WEIGHTS[:3], 'bigfrac': WEIGHTS_BIGFRAC, 'tiny': WEIGHTS_TINY}[wm]


def all_flag_combos():
    for bits in itertools.product([False, True], repeat=5):
        yield mkflags(*bits)


def rand_flags(rng):
    fl = mkflags(*[rng.random() < 0.5 for _ in range(5)])
    r = rng.random()
    if r < 0.25:
        fl['shape'] = [rng.randint(0, 7), rng.randint(0, 7)]
    fl['matrix_only'] = rng.choice([None, None, True, False])
    return fl


def id_pool(rng):
    kind = rng.choice(['int', 'int', 'gap', 'neg', 'str', 'str', 'mixed', 'numstr', 'strnum', 'big', 'bigstr'])
    if kind in ('big', 'bigstr'):
        # 64-bit identifiers beyond the integers a float64 represents exactly
        pool = rng.sample(BIG_IDS, rng.randint(2, 4)) + [rng.randint(0, 3)]
        return kind, (pool if kind == 'big' else [str(x) for x in pool])
    if kind == 'int':
        return kind, list(range(rng.randint(2, 5)))
    if kind == 'gap':
        return kind, sorted(rng.sample(range(0, 12), rng.randint(2, 4)))
    if kind == 'neg':
        return kind, sorted(rng.sample(range(-3, 6), rng.randint(2, 4)))
    if kind == 'str':
        alphabet = 'abcxyAB'
        pool = set()
        while len(pool) < rng.randint(2, 5):
            pool.add(''.join(rng.choice(alphabet) for _ in range(rng.randint(1, 3))))
        return kind, sorted(pool)
    if kind == 'mixed':
        return kind, [0, 1, 'a', 'b', 2][:rng.randint(3, 5)]
    if kind == 'numstr':       # strings in canonical integer form: read as numbers
        return kind, [str(x) for x in sorted(rng.sample(range(0, 9), rng.randint(2, 4)))]
    return kind, ['1', 'a', '10', 'b2', '2b'][:rng.randint(2, 5)]


def rand_edges(rng, pool, k, wmode):
    edges = []
    for _ in range(k):
        r = rng.random()
        if edges and r < 0.25:
            a, b, _w = rng.choice(edges)          # duplicate
        elif edges and r < 0.45:
            b, a, _w = rng.choice(edges)          # reciprocal
        elif r < 0.55:
            a = b = rng.choice(pool)              # self-loop
        else:
            a, b = rng.choice(pool), rng.choice(pool)
        edges.append((a, b, None if wmode == 'none' else rng.choice(weight_pool(wmode))))
    return edges


def gen_edge_cases(ctx, out, earlies):
    rng = ctx.rng
    quick = ctx.quick
    # exhaustive: <= 2 edges over 3 identifiers, unweighted tuples and weighted tuples, all 32 flag combinations
    for pool, name in ((INT_IDS, 'int'), (STR_IDS, 'str')):
        pairs = [(a, b) for a in pool for b in pool]
        lists = [[p] for p in pairs] + [[p, q] for p in pairs for q in pairs]
        if quick:
            lists = [lists[i] for i in sorted(rng.sample(range(len(lists)), 90))]
        elif name == 'int':
            # thorough: every list of three edges as well, each under four random flag combinations
            triples = [[p, q, r] for p in pairs for q in pairs for r in pairs]
            combos = list(all_flag_combos())
            for es in triples:
                for fl in rng.sample(combos, 4):
                    wm = rng.choice(['none', 'small', 'any', 'bigfrac', 'tiny'])
                    edges = [(a, b, None if wm == 'none' else rng.choice(weight_pool(wm))) for a, b in es]
                    c, e = edge_case(edges, dict(fl))
                    out.append(c)
                    earlies.append((c, e))
            ctx.count('exhaustive-3-edge-lists:int', len(triples) * 4)
        for es in lists:
            for fl in all_flag_combos():
                wm = rng.choice(['none', 'small', 'any', 'bigfrac', 'tiny'])
                edges = [(a, b, None if wm == 'none' else rng.choice(weight_pool(wm))) for a, b in es]
                c, e = edge_case(edges, fl)
                out.append(c)
                earlies.append((c, e))
        ctx.count('exhaustive-lists:' + name, len(lists) * 32)
    # sampled longer lists
    for _ in range(1500 if quick else 20000):
        kind, pool = id_pool(rng)
        k = rng.randint(1, 7)
        wm = rng.choice(['none', 'small', 'any', 'any', 'bigfrac', 'tiny'])
        edges = rand_edges(rng, pool, k, wm)
        fl = rand_flags(rng)
        if kind in ('big', 'bigstr'):
            fl['reindex'] = True          # without reindexing the matrix would have 2^53 rows
        via = 'list'
        style = 0
        if rng.random() < 0.2 and kind != 'mixed' and not (kind == 'big' and wm != 'none'):
            via = 'array'           # (an ndarray of big integers and float weights is a float array: not exact)
            ws = [w for _, _, w in edges if w is not None]
            if kind in ('int', 'gap', 'neg') and all(Fraction(w).denominator == 1 and 0 <= w < 100 for w in ws) \
                    and rng.random() < 0.7:
                # integer identifiers (and weights) in an integer dtype other than int64: same graph as the int64 array
                via = 'array:' + rng.choice(['int32', 'int32', 'int16', 'int8', 'int64'] if kind == 'neg' else
                                            ['int32', 'int32', 'int16', 'int8', 'uint8', 'uint16', 'uint32', 'uint64'])
                ctx.count('edge-array-dtype:' + via[6:])
        elif wm != 'none' and rng.random() < 0.15:
            style = rng.choice([1, 2]) if kind in ('str', 'strnum') else 1
        c, e = edge_case(edges, fl, via, style)
        out.append(c)
        earlies.append((c, e))
        ctx.count('ids:' + kind)
    # integer edge arrays of every integer dtype (scipy index arrays are int32): the graph of the same rows as an int64 array
    for _ in range(200 if quick else 3000):
        kind = rng.choice(['int', 'gap', 'gap', 'neg'])
        pool = {'int': list(range(rng.randint(2, 5))), 'gap': sorted(rng.sample(range(0, 12), rng.randint(2, 4))),
                'neg': sorted(rng.sample(range(-3, 6), rng.randint(2, 4)))}[kind]
        wm = rng.choice(['none', 'none', 'small'])
        edges = rand_edges(rng, pool, rng.randint(1, 6), wm)
        fl = rand_flags(rng)
        via = 'array:' + rng.choice(['int32', 'int32', 'int16', 'int8', 'int64'] if kind == 'neg' else
                                    ['int32', 'int32', 'int16', 'int8', 'uint8', 'uint16', 'uint32', 'uint64'])
        c, e = edge_case(edges, fl, via, 0)
        out.append(c)
        earlies.append((c, e))
        ctx.count('edge-array-dtype:' + via[6:])
    # degenerate: empty list, ragged tuples, text weights, negative ids without reindex, floats as weights only
    deg = [([], mkflags()), ([], mkflags(bipartite=True)), ([], mkflags(reindex=True)),
           ([(0, 1, Fraction(1)), (1, 2, None)], mkflags(directed=True)),
           ([(0, 1, None), (1, 2, Fraction(3))], mkflags(directed=True)),
           ([(0, 1, TEXT)], mkflags()), ([('a', 'b', TEXT), ('a', 'c', Fraction(1))], mkflags()),
           ([(-1, 1, None)], mkflags()), ([(-1, 1, None)], mkflags(reindex=True)),
           ([(-1, 1, None)], mkflags(bipartite=True)), ([(0, 3, None)], mkflags(shape=[2, 7])),
           ([(0, 3, None)], mkflags(shape=[6, 2], bipartite=True)), ([(0, 3, None)], mkflags(shape=[6, 2], bipartite=True, reindex=True)),
           ([(0, 0, Fraction(1)), (0, 0, Fraction(-1))], mkflags(weighted=False)),
           ([(0, 1, Fraction(0)), (0, 1, Fraction(5))], mkflags(weighted=False, sum_duplicates=False, directed=True))]
    for edges, fl in deg:
        c, e = edge_case(edges, fl)
        out.append(c)
        earlies.append((c, e))
        ctx.count('degenerate-edge-lists')
    # adjacency lists / dicts
    for _ in range(250 if quick else 4000):
        fl = rand_flags(rng)
        if rng.random() < 0.5:
            n = rng.randint(1, 5)
            adj = [[rng.randrange(n + 1) for _ in range(rng.randint(0, 3))] for _ in range(n)]
            c, e = adj_case(adj, fl, False)
        else:
            kind, pool = id_pool(rng)
            if kind in ('big', 'bigstr'):
                fl['reindex'] = True
            keys = rng.sample(pool, rng.randint(1, len(pool)))
            adj = [(k, [rng.choice(pool) for _ in range(rng.randint(0, 3))]) for k in keys]
            c, e = adj_case(adj, fl, True)
        out.append(c)
        earlies.append((c, e))


def gen_csv_cases(ctx, out, earlies):
    rng = ctx.rng
    quick = ctx.quick
    t = [0]

    def tag():
        t[0] += 1
        return str(t[0])
    headers = [[], ['# a comment'], ['% konect style', '% second line'], ['#h1', '#h2 with, delims;\there'],
               ['%x'], ['# one', '# two', '# three'], ['# one', '% two'], ['%a', '#b b, c;\td e f']]
    delims = [',', ';', '\t', ' ', '|']
    n_cases = 500 if quick else 8000
    for _ in range(n_cases):
        d = rng.choice(delims)
        numeric = rng.random() < 0.5
        if numeric and rng.random() < 0.15:
            pool = [x for x in rng.sample(BIG_IDS, 3) if x > 0] + [rng.randint(0, 5)]
        elif numeric:
            pool = sorted(rng.sample(range(0, 9), rng.randint(2, 5)))
        else:
            alphabet = 'abcxyAB'
            pool = set()
            while len(pool) < rng.randint(2, 5):
                pool.add(''.join(rng.choice(alphabet) for _ in range(rng.randint(1, 3))))
            pool = sorted(pool)
            if rng.random() < 0.3:
                pool.append(str(rng.randint(0, 9)))          # a number among the names
        k = rng.choice([1, 1, 2, 3, 4, 6])
        wm = rng.choice(['none', 'small', 'any', 'bigfrac', 'tiny'])
        edges = rand_edges(rng, pool, k, wm)
        rows = [[a, b] if w is None else [a, b, fmt_w(w)] for a, b, w in edges]
        header = rng.choice(headers)
        text, lines = csv_text(rows, d, header, rng.random() < 0.6)
        args = {}
        how = rng.choice(['inferred', 'delimiter', 'sep']) if d != '|' else rng.choice(['delimiter', 'sep'])
        if how == 'delimiter':
            args['delimiter'] = d
        elif how == 'sep':
            args['sep'] = d
        fl = rand_flags(rng)
        if any(isinstance(x, int) and abs(x) > 10 ** 6 for x in pool):
            fl['reindex'] = True
        # the rows as from_edge_list would receive them from csv.reader: strings
        sedges = [(str(a), str(b), w) for a, b, w in edges]
        c, e = csv_case(text, lines, args, fl, sedges, tag())
        out.append(c)
        earlies.append((c, e))
        ctx.count('csv-delimiter:' + {'\t': 'tab', ' ': 'space'}.get(d, d) + ':' + how)
    # layouts given explicitly and adjacency layouts (run line only)
    for _ in range(100 if quick else 1500):
        d = rng.choice(delims[:4])
        n = rng.randint(1, 5)
        adj = [[rng.randrange(n + 1) for _ in range(rng.randint(0, 4))] for _ in range(n)]
        as_dict = rng.random() < 0.4
        if as_dict:
            lines = [d.join([str(i)] + [str(j) for j in r]) for i, r in enumerate(adj)]
        else:
            lines = [d.join(str(j) for j in r) for r in adj]
        header = rng.choice(headers[:3])
        text = '\n'.join(header + lines) + ('\n' if rng.random() < 0.5 else '')
        args = {'delimiter': d}
        if as_dict:
            args['data_structure'] = 'adjacency_dict'
        elif rng.random() < 0.5:
            args['data_structure'] = 'adjacency_list'
        fl = rand_flags(rng)
        # the graph expected: the (node, neighbour) pairs -- unless the layout is guessed and every non-blank row
        # has two (or three) fields, which the code documents as an edge list
        nonblank = [r for r in ([[i] + r for i, r in enumerate(adj)] if as_dict else adj) if r]
        if as_dict:
            edges = [(str(i), str(j), None) for i, r in enumerate(adj) for j in r]
        elif 'data_structure' not in args and nonblank and all(len(r) == 2 for r in nonblank):
            edges = [(str(r[0]), str(r[1]), None) for r in nonblank]
        elif 'data_structure' not in args and nonblank and all(len(r) == 3 for r in nonblank):
            edges = [(str(r[0]), str(r[1]), Fraction(r[2])) for r in nonblank]
        else:
            edges = [(i, str(j), None) for i, r in enumerate(adj) for j in r]
        c, e = csv_case(text, header + lines, args, fl, edges if edges else None, tag())
        out.append(c)
        earlies.append((c, e))
        ctx.count('csv-layout:' + (args.get('data_structure') or 'guessed'))
    # scan_header alone on the same kinds of files is covered through from_csv; degenerate files:
    # comment lines between the data rows, blank lines inside / at the end: the same graph is expected
    for _ in range(80 if quick else 1200):
        d = rng.choice(delims[:4])
        numeric = rng.random() < 0.5
        pool = sorted(rng.sample(range(0, 9), 4)) if numeric else ['a', 'b', 'cx', 'By', 'A2']
        edges = rand_edges(rng, pool, rng.randint(2, 6), rng.choice(['none', 'small']))
        rows = [d.join([str(a), str(b)] + ([] if w is None else [fmt_w(w)])) for a, b, w in edges]
        kind = rng.choice(['comment-inside', 'blank-trailing', 'blank-inside', 'both'])
        lines = list(rows)
        cchar = rng.choice('#%')
        if kind in ('comment-inside', 'both'):
            lines.insert(rng.randint(1, len(lines)), cchar + ' a comment')
        if kind in ('blank-inside', 'both'):
            lines.insert(rng.randint(1, len(lines) - 1) if len(lines) > 1 else 1, '')
        header = rng.choice([[], [cchar + ' header']])
        text = '\n'.join(header + lines) + '\n' + ('\n' * rng.randint(1, 2) if kind in ('blank-trailing', 'both') else '')
        args = {} if rng.random() < 0.5 else {'delimiter': d}
        if rng.random() < 0.3:
            # the comment characters are an argument: a file commented with ! (and the default ones as data)
            other = rng.choice(['!', '!/', '/'])
            text = text.replace(cchar + ' ', other[0] + ' ')
            args['comments'] = other
        c, e = csv_case(text, None, args, rand_flags(rng), [(str(a), str(b), w) for a, b, w in edges], tag())
        c.sig['rows_layout'] = kind
        out.append(c)
        earlies.append((c, e))
        ctx.count('csv-' + kind)
    # more rows than n_scan = 100: only the first 100 are scanned
    for numeric in (True, False):
        for d in (',', ' '):
            pool = list(range(6)) if numeric else ['a', 'b', 'cx', 'By', 'A']
            edges = rand_edges(rng, pool, rng.randint(101, 140), 'small')
            rows = [[a, b, fmt_w(w)] for a, b, w in edges]
            text, _ = csv_text(rows, d, ['# long file'], True)
            c, e = csv_case(text, None, {}, rand_flags(rng), [(str(a), str(b), w) for a, b, w in edges], tag())
            out.append(c)
            earlies.append((c, e))
            ctx.count('csv-more-than-n_scan-rows')
    # a row beyond the scanned part with another number of fields (run line only)
    rows = [[i % 4, (i + 1) % 4] for i in range(104)] + [[1, 2, 3]]
    text, _ = csv_text(rows, ' ', [], True)
    c, e = csv_case(text, None, {}, mkflags(directed=True), None, tag())
    out.append(c)
    earlies.append((c, None))
    rows = [['a%d' % (i % 4), 'b'] for i in range(104)] + [['c', 'd', '3']]
    text, _ = csv_text(rows, ',', [], True)
    c, e = csv_case(text, None, {}, mkflags(directed=True), None, tag())
    out.append(c)
    earlies.append((c, None))
    # a second candidate delimiter occurs inside the names (ordinary CSV: "New York,Boston"), not equally often in
    # every row: the separator is still the only consistent candidate
    for _ in range(60 if quick else 800):
        d = rng.choice([',', ';', '\t'])
        inner = rng.choice([' ', ' ', ';' if d != ';' else ','])
        words = ['New', 'York', 'Los', 'Angeles', 'Rome', 'Oslo', 'a', 'B2']

        def name(k):
            return inner.join(rng.choice(words) for _ in range(k + 1))
        k = rng.randint(2, 5)
        counts = [rng.randint(0, 2) for _ in range(k)]
        if len(set(counts)) == 1:
            counts[0] = (counts[0] + 1) % 3          # not the same number of inner characters in every row
        wm = rng.choice(['none', 'small'])
        edges = []
        for cnt in counts:
            ka = rng.randint(0, cnt)
            edges.append((name(ka), name(cnt - ka), None if wm == 'none' else rng.choice(WEIGHTS[:3])))
        rows = [[a, b] if w is None else [a, b, fmt_w(w)] for a, b, w in edges]
        text, _ = csv_text(rows, d, rng.choice([[], ['# cities']]), rng.random() < 0.7)
        args = {} if rng.random() < 0.6 else {'delimiter': d}
        c, e = csv_case(text, None, args, rand_flags(rng), edges, tag())
        c.sig['rows_layout'] = 'second-candidate-inside'
        out.append(c)
        earlies.append((c, e))
        ctx.count('csv-second-candidate-inside')
    # a comment character inside a name (C#, 50%): a comment is a line that *starts* with a comment character
    for _ in range(60 if quick else 800):
        d = rng.choice([',', ';', '\t', ' '])
        cm = rng.choice(['#', '#', '%', '!'])
        words = ['C' + cm, 'F' + cm, 'Java', 'Go', '50' + cm, 'a' + cm + 'b', 'R', cm.join(['x', 'y'])]
        k = rng.randint(1, 5)
        wm = rng.choice(['none', 'small'])
        edges = [(rng.choice(words), rng.choice(words), None if wm == 'none' else rng.choice(WEIGHTS[:3])) for _ in range(k)]
        if not any(cm in a or cm in b for a, b, _ in edges):
            edges[0] = (words[0], edges[0][1], edges[0][2])
        rows = [[a, b] if w is None else [a, b, fmt_w(w)] for a, b, w in edges]
        header = rng.choice([[], [cm + ' languages'], [('%' if cm == '#' else '#') + ' other comment character']]) if cm != '!' \
            else rng.choice([[], ['! languages']])
        text, _ = csv_text(rows, d, header, rng.random() < 0.7)
        args = {} if rng.random() < 0.5 else {'delimiter': d}
        if cm == '!':
            args['comments'] = '!'
        c, e = csv_case(text, None, args, rand_flags(rng), edges, tag())
        c.sig['rows_layout'] = 'comment-char-in-name'
        out.append(c)
        earlies.append((c, e))
        ctx.count('csv-comment-char-in-name')
    # Windows (CRLF) and old Mac (CR) line ends, with string and numeric names; blank lines made of other white space
    for _ in range(60 if quick else 800):
        d = rng.choice(delims[:4])
        numeric = rng.random() < 0.4
        pool = sorted(rng.sample(range(0, 9), 4)) if numeric else ['a', 'b', 'cx', 'By', 'A2', 'NY']
        edges = rand_edges(rng, pool, rng.randint(1, 5), rng.choice(['none', 'small']))
        rows = [d.join([str(a), str(b)] + ([] if w is None else [fmt_w(w)])) for a, b, w in edges]
        nl = rng.choice(['\r\n', '\r\n', '\r'])
        lines = rng.choice([[], ['# header']]) + rows
        if rng.random() < 0.3 and len(rows) > 1:
            lines.insert(rng.randint(1, len(lines) - 1), rng.choice(['\xa0', '\x0b', ' \x0c', '\x1c', '\x85 ']))
        text = nl.join(lines) + (nl if rng.random() < 0.7 else '')
        args = {} if rng.random() < 0.5 else {'delimiter': d}
        c, e = csv_case(text, None, args, rand_flags(rng), [(str(a), str(b), w) for a, b, w in edges], tag())
        c.sig['rows_layout'] = 'crlf' if nl == '\r\n' else 'cr'
        out.append(c)
        earlies.append((c, e))
        ctx.count('csv-line-ends:' + ('crlf' if nl == '\r\n' else 'cr'))
    # names outside ASCII; a byte order mark (run line only: the first name then carries it)
    for rows in ([['é', '中'], ['中', '\U0001F600']], [['Zürich', 'Genève', '2'], ['Genève', 'Łódź', '3']]):
        for d in (',', '\t'):
            text, _ = csv_text(rows, d, [], True)
            edges = [(r[0], r[1], None if len(r) == 2 else Fraction(r[2])) for r in rows]
            c, e = csv_case(text, None, {}, mkflags(directed=True), edges, tag())
            out.append(c)
            earlies.append((c, e))
            ctx.count('csv-non-ascii')
    c, e = csv_case('\ufeff0,1\n1,2\n', None, {}, mkflags(directed=True), None, tag())
    out.append(c)
    earlies.append((c, None))
    # quoted fields (spec line only: the model's reader does not honour quotes): known finding F-csv-quoted
    for text, edges in (('"Smith, J",Bob\nAlice,Carol\n', [('Smith, J', 'Bob', None), ('Alice', 'Carol', None)]),
                        ('a,"b, c",2\n"b, c",d,3\n', [('a', 'b, c', Fraction(2)), ('b, c', 'd', Fraction(3))])):
        for args in ({}, {'delimiter': ','}):
            c, e = csv_case(text, None, args, mkflags(directed=True), edges, tag(), spec_only=True)
            c.sig['rows_layout'] = 'quoted-field'
            out.append(c)
            earlies.append((c, e))
            ctx.count('csv-quoted-field')
    # two candidate delimiters are consistent (the repo's own test file 'f, e, 5'): the tie rule of the inference
    for _ in range(40 if quick else 400):
        d2 = rng.choice([', ', '; ', ',\t', ' ,', ';;', ', ;'])
        k = rng.randint(1, 4)
        rows = [[rng.choice('abcxy') + rng.choice(['', 'a', 'B']), rng.choice('abcxy')] + ([str(rng.randint(1, 5))] if k % 2 else [])
                for _ in range(k)]
        text = '\n'.join(d2.join(r) for r in rows) + '\n'
        c, e = csv_case(text, None, {}, rand_flags(rng), None, tag())
        out.append(c)
        earlies.append((c, None))
        ctx.count('csv-ambiguous-delimiter')
    deg = ['', '\n', '0 1\n\n1 2\n', '0 1\n# c\n1 2\n', 'a b\n# c\nb c\n', '0 1 # tail\n1 2\n', '#a\n%b\n0 1\n1 2\n',
           '#a b\n%b c\n0 1\n1 2\n', '# only a comment\n', '0 1 2 3\n1 2\n', 'a b\nc\n', '0,1\n1;2\n', '0 1 \n1 2 \n',
           '1,2,x\n2,3,y\n', '0 1 2\n1 2 3\n2 3 4\n', 'a b c\nb\n', '5\n']
    for text in deg:
        lines = text.split('\n')
        if lines and lines[-1] == '':
            lines = lines[:-1]
        c, e = csv_case(text, lines, {}, mkflags(directed=True), None, tag())
        out.append(c)
        earlies.append((c, None))
        ctx.count('csv-degenerate')


def gen_persist_cases(ctx, out, earlies):
    rng = ctx.rng
    quick = ctx.quick
    names = ['adjacency', 'biadjacency', 'names', 'names_row', 'labels', 'meta', 'position', 'x', 'A', 'a_b', 'k2']
    kinds = ['csr', 'ndarray', 'other']
    t = 0
    for _ in range(150 if quick else 2500):
        keys = rng.sample(names, rng.randint(0, 5))
        attrs = [(k, rng.choice(kinds), i) for i, k in enumerate(keys)]
        t += 1
        # earlier saves into the same folder: datasets with attributes (pickled ones: str / Dataset / list / csc / float /
        # dict) that the last dataset may lack
        history = []
        for _h in range(rng.choice([0, 1, 1, 2, 3])):
            hkeys = rng.sample(names, rng.randint(1, 6))
            history.append([(k, rng.choice(kinds + ['other']), i) for i, k in enumerate(hkeys)])
        cs, e = persist_case(attrs, rng, str(t), absolute=rng.choice([True, True, True, False, 'home', 'pathlib', 'trailing']),
                             history=history)
        out.extend(cs)
        earlies.append((cs[-1], e))
        ctx.count('persist:plain-keys')
        ctx.count('persist:earlier-saves-into-the-folder', len(history))
    # keys outside the hypothesis of the round trip: dots, extension-like, separators, empty (run lines only)
    odd = [[('a.b', 'ndarray', 0)], [('m.npz', 'csr', 0), ('m', 'csr', 1)], [('v.npy', 'ndarray', 0)], [('p.p', 'other', 0)],
           [('x', 'csr', 0), ('x.npz', 'other', 1)], [('sub/k', 'ndarray', 0)], [('a.npy', 'csr', 0)]]
    for attrs in odd:
        t += 1
        cs, e = persist_case(attrs, rng, str(t))
        out.extend(cs)
        ctx.count('persist:odd-keys')
    # the bundle functions themselves, into a folder that already holds a file: it stays and comes back as an attribute
    from sknetwork.data.base import Dataset
    import sknetwork.data  # noqa: F401
    L0 = sys.modules['sknetwork.data.load']
    for i, (stale, attrs) in enumerate([('old.npy', [('names', 'ndarray', 1)]), ('names.npy', [('names', 'ndarray', 1)]),
                                        ('adjacency.npz', [('labels', 'ndarray', 1), ('meta', 'other', 2)])]):
        home = os.path.join(scratch(), 'home_%d' % i)
        folder = os.path.join(home, 'bb')
        os.makedirs(folder)
        if stale.endswith('.npz'):
            sparse.save_npz(os.path.join(folder, stale), make_payload('csr', 0, rng))
        else:
            np.save(os.path.join(folder, stale), make_payload('ndarray', 0, rng))
        ds = Dataset()
        vals = {0: make_payload('csr' if stale.endswith('.npz') else 'ndarray', 0, rng)}
        for key, kind, pid in attrs:
            vals[pid] = make_payload(kind, pid, rng)
            ds[key] = vals[pid]
        try:
            L0.save_to_numpy_bundle(ds, 'bb', home)
            back = L0.load_from_numpy_bundle('bb', home)
            got = []
            for k, v in back.items():
                pid = [p_ for p_, val in vals.items() if same_value(val, v)]
                kind = 'csr' if type(v) is sparse.csr_matrix else ('ndarray' if type(v) is np.ndarray else 'other')
                got.append('%s:%s:%d' % (enc_str(k), kind, pid[0] if pid else 998))
            impl = 'ok ' + (','.join(got) or '-')
        except Exception as e:      # noqa: BLE001
            impl = 'err ' + type(e).__name__
        stale_tok = '%s:%s:0' % (enc_str(stale), 'csr' if stale.endswith('.npz') else 'ndarray')
        ds_tok = ','.join('%s:%s:%d' % (enc_str(k), kind, pid) for k, kind, pid in attrs)
        out.append(Case(('bundle', stale, ds_tok), {'entry': 'save_to_numpy_bundle', 'stale': stale},
                        'c18.bundle_roundtrip %s %s' % (stale_tok, ds_tok), impl, None, True,
                        {'f': 'bundle', 'stale': stale, 'attrs': [list(a) for a in attrs]}, canon='dataset'))
        ctx.count('persist:bundle-into-existing-folder')
        shutil.rmtree(home, ignore_errors=True)
    # a bare matrix
    import sknetwork.data  # noqa: F401
    L = sys.modules['sknetwork.data.load']
    for sq in (True, False):
        folder = os.path.join(scratch(), 'bm_%d' % sq)
        m = sparse.csr_matrix(np.eye(2) if sq else np.ones((2, 3)))
        try:
            L.save(folder, m)
            files = sorted(os.listdir(folder))
            back = L.load(folder)
            ok = list(back.keys()) == ['adjacency' if sq else 'biadjacency'] and same_value(list(back.values())[0], m)
            impl = 'ok ' + ','.join('%s:csr:0' % enc_str(f) for f in files)
        except Exception as e:      # noqa: BLE001
            ok = False
            impl = 'err ' + type(e).__name__
        c = Case(('save_matrix', sq), {'entry': 'save', 'arg': 'matrix'}, 'c18.save_matrix %s 0' % enc_bool(sq), impl, None,
                 True, {'f': 'save_matrix', 'square': sq})
        out.append(c)
        earlies.append((c, None if ok else 'load(save(matrix)) does not return the matrix under the expected key'))
        shutil.rmtree(folder, ignore_errors=True)


HOSTILE = ['../data_evil/x', '../data2', '../datax/y', '../../lvl0_evil', '../data/ok', 'a/../../data_evil/y', 'a/../b', './c',
           'a//b', 'a/./b', '..', '../', 'a/b/../../../data_evil', '{ROOT}/abs_evil', '{DEST}/inside_abs',
           '{DEST}/../data_evil/z', '{DEST}_evil/q', '...', '..a', 'a..', '.hidden', 'data', 'dir/file.txt', 'x.npz', 'a/b/c/d']


def gen_path_cases(ctx, out, earlies):
    rng = ctx.rng
    quick = ctx.quick
    sc = os.path.realpath(scratch())
    cwd = os.path.join(sc, 'cwd', 'in')
    os.makedirs(cwd, exist_ok=True)
    dirs = ['/d/foo', '/d/foo/', 'rel', 'rel/sub', '.', '..', '/', '//d/foo', '/d/./foo/../foo', '/d/foo/bar']
    targets = ['/d/foo/x', '/d/foo_evil/x', '/d/foo', '/d/fo', '/d/foo/../foo_evil/x', '/d/foo/../foo/x', 'rel/x', 'rel_evil/x',
               'rel/../rel_evil', 'rel/sub/../x', 'x', '../x', '../in/x', '../in_evil', '/', '//d/foo/x', '/d/foo/bar/../../x',
               '/d/foo/./x//y', '/d//foo/x', '/d/foo/bar_evil']
    pairs = [(d, t) for d in dirs for t in targets]
    if quick:
        pairs = rng.sample(pairs, 120)
    for d, t in pairs:
        out.append(within_case(cwd, d, t))
        ctx.count('within')
    # join(dir, member) pairs, as safe_extract builds them
    for d in ['/d/foo', 'rel', '/d/foo/']:
        for m in HOSTILE:
            if '{' in m:
                continue
            out.append(within_case(cwd, d, os.path.join(d, m)))
            ctx.count('within-joined')
    # archives
    k = 0
    for m in HOSTILE:
        k += 1
        out.append(extract_case([m], 's%d' % k))
        ctx.count('extract:single-member')
    for i, (ms, verdict, files) in enumerate(LINK_ARCHIVES):
        for depth in (2, 3):
            c, e = extract_links_case(ms, 'l%d_%d' % (i, depth), depth, expect=(verdict, files), as_path=(depth == 3))
            out.append(c)
            earlies.append((c, e))
            ctx.count('extract:link-members')
    for _ in range(60 if quick else 1500):
        k += 1
        ms = [rng.choice(HOSTILE[-8:] + ['f%d' % i for i in range(4)]) for _ in range(rng.randint(1, 4))]
        if rng.random() < 0.5:
            ms.insert(rng.randrange(len(ms) + 1), rng.choice(HOSTILE))
        # member names must be distinct files
        ms = list(dict.fromkeys(ms))
        out.append(extract_case(ms, 'm%d' % k, depth=rng.choice([2, 3, 4])))
        ctx.count('extract:multi-member')


# ------------------------------------------------------------------------------------------------
# evaluation
# ------------------------------------------------------------------------------------------------
def _same(c, model, impl, spec_ok):
    if model.startswith('err') and impl.startswith('err'):
        # the exception *class* is compared (the model's enum are the classes the code raises: ValueError of
        # non numeric weights / max() of an empty sequence / scipy's index checks, IndexError of short tuples
        # and 1-d arrays, KeyError / AttributeError / TypeError of GraphML look-ups, ...); only subclasses that
        # the standard library is free to refine are identified
        alias = {'OutsideDestinationError': 'FilterError', 'AbsoluteLinkError': 'FilterError',
                 'LinkOutsideDestinationError': 'FilterError', 'SpecialFileError': 'FilterError',
                 'AbsolutePathError': 'FilterError', 'NotADirectoryError': 'FileNotFoundError',
                 'IsADirectoryError': 'FileNotFoundError'}
        m, i = model[4:], impl[4:]
        return alias.get(m, m) == alias.get(i, i)
    if c.canon in ('files', 'dataset') and model.startswith('ok') and impl.startswith('ok'):
        return sorted(model[3:].split(',')) == sorted(impl[3:].split(','))   # os.listdir order is not defined
    if c.canon == 'paths' and model.startswith('ok') and impl.startswith('ok! '):
        return set(impl[4:].split(',')) - {'-'} <= set(model[3:].split(','))   # extraction stopped by the OS
    if c.canon == 'paths' and model.startswith('ok') and impl.startswith('ok'):
        return set(model[3:].split(',')) == set(impl[3:].split(','))          # two members may name one location
    return False


def evaluate(ctx, cases, earlies=()):
    for c, why in earlies:
        if why:
            ctx.spec_fail(c.sig, c.desc, {'oracle': why, 'impl': c.impl})
    _evaluate(ctx, cases, same=_same)


def corpus_cases():
    p = os.path.join(VERIF, 'corpus', 'C18.jsonl')
    out, earlies = [], []
    if os.path.exists(p):
        for ln in open(p):
            ln = ln.strip()
            if ln and not ln.startswith('#'):
                cs, es = cases_of_desc(json.loads(ln))
                out += cs
                earlies += es
    return out, earlies


def _edges_of(desc_edges):
    return [(a, b, None if w is None else (TEXT if w == TEXT else Fraction(w))) for a, b, w in desc_edges]


def cases_of_desc(d, rng=None):
    """Rebuild the cases of a recorded description (corpus line or replay payload)."""
    import random
    rng = rng or random.Random(0)
    f = d.get('f')
    if f == 'from_edge_list':
        c, e = edge_case(_edges_of(d['edges']), d['flags'], d.get('via', 'list'), d.get('style', 0))
        return [c], [(c, e)]
    if f == 'from_adjacency_list':
        adj = [(k, v) for k, v in d['adj']] if d['as_dict'] else d['adj']
        c, e = adj_case(adj, d['flags'], d['as_dict'])
        return [c], [(c, e)]
    if f == 'from_csv':
        text = d['text']
        lines = text.split('\n')
        if lines and lines[-1] == '':
            lines = lines[:-1]
        edges = None if d.get('edges') is None else _edges_of(d['edges'])
        c, e = csv_case(text, lines, d['args'], d['flags'], edges, 'replay')
        return [c], [(c, e)]
    if f == 'save_load':
        cs, e = persist_case([tuple(a) for a in d['attrs']], rng, 'replay', d.get('absolute', True),
                             history=[[tuple(a) for a in h] for h in d.get('history', [])])
        return cs, [(cs[-1], e)]
    if f == 'is_within_directory':
        # the directory of the recorded run is gone: any existing directory of the same depth serves (the case
        # is about strings; only relative paths depend on the current directory)
        cwd = os.path.join(scratch(), 'cwd', 'in')
        os.makedirs(cwd, exist_ok=True)
        return [within_case(cwd, d['directory'], d['target'])], []
    if f == 'safe_extract':
        return [extract_case(d['members'], 'replay', d.get('depth', 3))], []
    if f == 'safe_extract_links':
        c, e = extract_links_case(d['members'], 'replay', d.get('depth', 3),
                                  expect=None if d.get('expect') is None else (d['expect'][0], d['expect'][1]),
                                  as_path=d.get('as_path', False))
        return [c], [(c, e)]
    if f == 'from_graphml':
        from harness import c18_graphml
        c, e = c18_graphml.graphml_case(d['doc'], 'replay')
        return [c], [(c, e)]
    return [], []


def build_cases(ctx):
    out, earlies = corpus_cases()
    ctx.count('corpus', len(out))
    gen_edge_cases(ctx, out, earlies)
    gen_csv_cases(ctx, out, earlies)
    gen_persist_cases(ctx, out, earlies)
    gen_path_cases(ctx, out, earlies)
    try:
        from harness import c18_graphml
    except ImportError:
        c18_graphml = None
    if c18_graphml is not None:
        c18_graphml.gen_cases(ctx, out, earlies)
    return out, earlies


def run(ctx):
    try:
        cases, earlies = build_cases(ctx)
        evaluate(ctx, cases, earlies)
    finally:
        cleanup()


# -- failing-input search ----------------------------------------------------------------------
def search(ctx, pending):
    """Evaluate the Lean specification on the implementation over the exhaustive small space of the
    entry points named by the disagreements."""
    entries = {p[1].get('entry') for p in pending}
    sub = Sub(ctx)
    out, earlies = [], []
    try:
        if entries & {'from_edge_list', 'from_adjacency_list', 'from_csv', None}:
            for pool in (INT_IDS[:2], STR_IDS[:2], INT_IDS, STR_IDS):
                pairs = [(a, b) for a in pool for b in pool]
                lists = [[p] for p in pairs] + [[p, q] for p in pairs for q in pairs]
                for es in lists:
                    for fl in all_flag_combos():
                        for w in (None, Fraction(2)):
                            c, e = edge_case([(a, b, w) for a, b in es], fl)
                            out.append(c)
                            earlies.append((c, e))
                if len(out) > 30000:
                    break
        if 'from_csv' in entries or None in entries:
            k = 0
            for d in [',', ';', '\t', ' ', '|']:
                for rows in ([[0, 1]], [[0, 1], [1, 2]], [['a', 'b'], ['b', 'c']], [[0, 1, 2], [1, 0, 1]], [['a', 'b', 1]]):
                    for header in ([], ['# c'], ['% c', '% d']):
                        for how in ('delimiter', 'sep', 'inferred'):
                            if how == 'inferred' and d == '|':
                                continue
                            for nl in (True, False):
                                text, lines = csv_text(rows, d, header, nl)
                                edges = [(str(r[0]), str(r[1]), None if len(r) == 2 else Fraction(r[2])) for r in rows]
                                args = {} if how == 'inferred' else {how: d}
                                k += 1
                                c, e = csv_case(text, lines, args, mkflags(directed=True), edges, 'srch%d' % k)
                                out.append(c)
                                earlies.append((c, e))
        if entries & {'save', 'load'}:
            k = 0
            for keys in (['a'], ['a', 'b'], ['adjacency', 'names', 'meta']):
                for kinds in itertools.product(['csr', 'ndarray', 'other'], repeat=len(keys)):
                    k += 1
                    cs, e = persist_case([(key, kind, i) for i, (key, kind) in enumerate(zip(keys, kinds))], ctx.rng, 's%d' % k,
                                         history=[[('meta', 'other', 1), ('source', 'other', 0), ('old', 'ndarray', 2), ('m', 'csr', 3)]])
                    out += cs
                    earlies.append((cs[-1], e))
        if entries & {'safe_extract', 'is_within_directory'}:
            for i, m in enumerate(HOSTILE):
                for depth in (2, 3):
                    out.append(extract_case([m], 'srch%d_%d' % (i, depth), depth))
            for i, (ms, verdict, files) in enumerate(LINK_ARCHIVES):
                c, e = extract_links_case(ms, 'srchl%d' % i, 3, expect=(verdict, files))
                out.append(c)
                earlies.append((c, e))
        if 'from_graphml' in entries:
            from harness import c18_graphml
            c18_graphml.gen_cases(sub, out, earlies, exhaustive=True)
        evaluate(sub, out, earlies)
    finally:
        cleanup()
    return sub.found()


def replay(ctx, payload):
    case = payload.get('case') or {}
    try:
        cs, es = cases_of_desc(case, ctx.rng)
        if not cs:
            cs, es = build_cases(ctx)
        evaluate(ctx, cs, es)
    finally:
        cleanup()
