#!/usr/bin/env python3
"""Validate MANIFEST.json and evidence/*.json against the schemas (run with python3-vt)."""
import glob, json, sys, jsonschema
ok = True
try:
    jsonschema.validate(json.load(open('MANIFEST.json')), json.load(open('/root/.vp/MANIFEST.schema.json')))
except Exception as e:
    ok = False; print('MANIFEST', str(e)[:400])
sch = json.load(open('/root/.vp/EVIDENCE.schema.json'))
for f in sorted(glob.glob('evidence/*.json')):
    try:
        ev = json.load(open(f)); jsonschema.validate(ev, sch)
        c = ev['coverage']
        if ev['level'] == 'proof' and c.get('obligations') != c.get('discharged'):
            ok = False; print(f, 'obligations != discharged')
    except Exception as e:
        ok = False; print(f, str(e)[:400])
print('valid' if ok else 'INVALID'); sys.exit(0 if ok else 1)
