"""Translator for C01: Python / Cython source -> ownership programs (lean/SkNet/Generated/Effects.lean).

For every function / method of the working tree (tests excluded; the `.pyx` files are first turned into plain
Python by `pyx_to_py`: C declarations and types dropped, statements kept) it emits the statements of
SkNet/Model/Ownership.lean:  bind x fresh | bind x (param p) | bind x (alias ys) | mutate x | sortIndices x
Control flow is dropped (the Lean semantics runs the statements in any order, any number of times).
Calls to functions of the repository are replaced by the callee's declared summary
(writes = parameters it may write, retAlias = parameters its result may share memory with); summaries are
inferred here by a fixpoint and *checked* in Lean (`Fn.ok`), so a wrong inference is caught there.

Defaults are closed: a call whose callee is in no table below and is not a function of the repository is UNKNOWN —
its result may share memory with every argument (and the receiver) and it may write through every argument (and the
receiver). What is known not to do so is white-listed explicitly (PURE_FUNCS / PURE_METHODS: return new data, write
nothing; VIEW_*: return data sharing memory with the receiver / first argument; INPLACE_*: write the receiver /
first argument) and self-tested against `np.shares_memory` by `self_test()` on every run.  Further rules:
`out=` (and the positional `out` of a ufunc) is written and returned; `ufunc.at` writes its first argument;
`*= /= ...` on anything (scipy sparse included) is an in-place write, `+= -=` on a sparse matrix is a re-binding
(scipy has no in-place sparse addition; self-tested); `self.attr` is a cell shared by all methods of the class
family: a method that stores (an alias of) a parameter in `self.attr` is charged with every in-place write any
method of the family performs through `self.attr`; static methods, nested functions and lambdas are lowered and
their parameters bound at the call sites (or to every argument of a call they are passed to); method calls on a
receiver of unknown class are resolved to every method of that name in the repository.

Trusted: these tables and the lowering itself (regression-tested by `NEGATIVE_TESTS`: tiny sources that must come
out not-ok in Lean on every run).
"""
import ast
import os
import re

# ---- tables ------------------------------------------------------------------------------------------------
# methods returning data that may share memory with the receiver
VIEW_METHODS = {'tocsr', 'tocsc', 'tocoo', 'tolil', 'todia', 'tobsr', 'todok', 'asformat', 'asfptype', 'transpose', 'reshape',
                'ravel', 'squeeze', 'view', 'get', 'setdefault', 'conj', 'conjugate', 'swapaxes', 'diagonal', 'values', 'items',
                'keys', 'getrow', 'getcol', 'pop', 'popitem', '__getitem__', 'item', 'flat', 'newbyteorder',
                'getfield', 'byteswap'}
# functions returning data that may share memory with their first argument
VIEW_FUNCS = {'csr_matrix', 'csc_matrix', 'coo_matrix', 'lil_matrix', 'dia_matrix', 'csr_array', 'asarray', 'asanyarray',
              'ascontiguousarray', 'asfortranarray', 'atleast_1d', 'atleast_2d', 'atleast_3d', 'ravel', 'reshape', 'squeeze',
              'transpose', 'check_array', 'real', 'imag', 'diagonal', 'swapaxes', 'moveaxis', 'rollaxis', 'expand_dims',
              'broadcast_to', 'require', 'flip', 'fliplr', 'flipud', 'rot90', 'split', 'array_split', 'hsplit', 'vsplit', 'diag', 'meshgrid'}
VIEW_ATTRS = {'T', 'data', 'indices', 'indptr', 'row', 'col', 'rows', 'real', 'imag', 'flat', 'A', 'H', 'base', 'mT'}
SCALAR_ATTRS = {'shape', 'nnz', 'dtype', 'size', 'ndim', 'format', 'itemsize', 'nbytes'}
# in-place methods (write the receiver); ADDERS also store (aliases of) their arguments in the receiver
INPLACE_METHODS = {'eliminate_zeros', 'sum_duplicates', 'setdiag', 'resize', 'sort', 'fill', 'put', 'itemset', 'partition', 'update',
                   'pop', 'popitem', 'clear', 'append', 'extend', 'insert', 'remove', 'reverse', 'prune', 'setflags', 'byteswap',
                   'setdefault', 'add', 'discard', 'push_back', 'pop_back', 'push', 'setfield', '__setitem__',
                   '__delitem__', '__iadd__', '__imul__', 'difference_update', 'intersection_update', 'appendleft', 'popleft'}
ADDERS = {'append', 'extend', 'insert', 'update', 'setdefault', 'add', 'push_back', 'push', 'appendleft', '__setitem__'}
SORT_INDICES = {'sort_indices'}
# functions writing their first argument
INPLACE_FUNCS = {'fill_diagonal', 'shuffle', 'put', 'place', 'putmask', 'copyto', 'put_along_axis', 'setattr', 'heapify',
                 'heappush', 'heappop'}
UFUNCS = {'add': 2, 'subtract': 2, 'multiply': 2, 'divide': 2, 'true_divide': 2, 'floor_divide': 2, 'power': 2, 'maximum': 2,
          'minimum': 2, 'mod': 2, 'remainder': 2, 'logical_and': 2, 'logical_or': 2, 'logical_xor': 2, 'equal': 2, 'not_equal': 2,
          'greater': 2, 'less': 2, 'greater_equal': 2, 'less_equal': 2, 'arctan2': 2, 'hypot': 2, 'fmax': 2, 'fmin': 2,
          'negative': 1, 'abs': 1, 'absolute': 1, 'sqrt': 1, 'exp': 1, 'log': 1, 'log2': 1, 'log10': 1, 'sign': 1, 'sin': 1, 'cos': 1,
          'tan': 1, 'floor': 1, 'ceil': 1, 'rint': 1, 'square': 1, 'reciprocal': 1, 'logical_not': 1, 'isnan': 1, 'isinf': 1,
          'isfinite': 1, 'expm1': 1, 'log1p': 1, 'tanh': 1, 'conj': 1}
OUT_POSITIONAL = {'clip': 3, 'cumsum': 3, 'cumprod': 3, 'dot': 2, 'matmul': 2, 'round': 2, 'around': 2, 'take': 3}
# functions of numpy / scipy / the standard library known to return new data and to write nothing
PURE_FUNCS = set(UFUNCS) | {
    'all', 'any', 'arange', 'argmax', 'argmin', 'argpartition', 'argsort', 'argwhere', 'clip', 'cumsum', 'cumprod', 'dtype',
    'empty', 'empty_like', 'flatnonzero', 'float32', 'float64', 'int32', 'int64', 'full', 'full_like', 'genfromtxt', 'hstack', 'vstack',
    'stack', 'concatenate', 'column_stack', 'isclose', 'allclose', 'isin', 'issubdtype', 'lexsort', 'norm', 'qr', 'svd', 'eig', 'eigh',
    'inv', 'pinv', 'solve', 'load', 'max', 'min', 'amax', 'amin', 'mean', 'median', 'ones', 'ones_like', 'outer', 'inner', 'dot',
    'matmul', 'kron', 'RandomState', 'default_rng', 'choice', 'randn', 'rand', 'random', 'randint', 'uniform', 'normal', 'seed',
    'permutation', 'repeat', 'tile', 'roll', 'save', 'savez', 'sort', 'std', 'var', 'sum', 'prod', 'nansum', 'unique', 'where',
    'nonzero', 'zeros', 'zeros_like', 'bincount', 'histogram', 'searchsorted', 'diff', 'round', 'around', 'trace', 'linspace',
    'logspace', 'eye', 'identity', 'diagflat', 'tril', 'triu', 'count_nonzero', 'array_equal', 'isscalar',
    'iinfo', 'finfo', 'errstate', 'result_type', 'can_cast', 'ndim', 'shape', 'size', 'take', 'delete', 'insert', 'append',
    'cross', 'einsum', 'average', 'percentile', 'quantile', 'ptp', 'isrealobj', 'iscomplexobj',
    # scipy.sparse / csgraph / linalg
    'bmat', 'diags', 'issparse', 'isspmatrix', 'isspmatrix_csr', 'connected_components',
    'shortest_path', 'breadth_first_order', 'eigs', 'eigsh', 'svds', 'bicgstab', 'spsolve', 'cg', 'gmres', 'lsqr', 'load_npz',
    'save_npz', 'expit', 'softmax', 'logsumexp', 'cKDTree', 'KDTree', 'find', 'LinearOperator', 'aslinearoperator',
    # standard library
    'warn', 'dump', 'loads', 'dumps', 'rmtree', 'open', 'parse', 'signature', 'deepcopy', 'makedirs', 'listdir', 'exists', 'isfile',
    'isdir', 'join', 'abspath', 'expanduser', 'commonpath', 'remove', 'urlretrieve', 'reader', 'Pool', 'cpu_count', 'Path', 'signal',
    'alarm', 'getcwd', 'basename', 'dirname', 'splitext', 'pow', 'srand', 'time', 'perf_counter', 'product', 'combinations',
    'chain', 'defaultdict', 'Counter', 'OrderedDict', 'namedtuple', 'floor', 'ceil', 'log', 'exp', 'fabs', 'isnan', 'isinf',
}
# builtins: scalar results / new objects
PURE_BUILTINS = {'len', 'int', 'float', 'bool', 'str', 'min', 'max', 'abs', 'round', 'sum', 'range', 'type', 'isinstance', 'issubclass',
                 'hasattr', 'id', 'hash', 'callable', 'ord', 'chr', 'print', 'repr', 'any', 'all', 'format', 'divmod', 'pow', 'bytes',
                 'super', 'object', 'slice', 'complex', 'input', 'locals', 'globals', 'staticmethod', 'classmethod',
                 'property', 'NotImplementedError', 'ValueError', 'TypeError', 'KeyError', 'IndexError', 'RuntimeError', 'Exception',
                 'Warning', 'AttributeError', 'FileNotFoundError', 'TimeoutError', 'ZeroDivisionError', 'StopIteration',
                 'DeprecationWarning', 'UserWarning', 'RuntimeWarning', 'OSError', 'IOError', 'AssertionError', 'ImportError'}
# builtins returning containers whose elements are (or may be) the elements of their arguments
SHARING_BUILTINS = {'list', 'tuple', 'dict', 'set', 'frozenset', 'sorted', 'reversed', 'zip', 'enumerate', 'map', 'filter', 'iter',
                    'next', 'copy', 'getattr', 'partial', 'vars', 'memoryview', 'cycle', 'islice'}
# methods of arrays / sparse matrices / strings / files returning new data and writing nothing
PURE_METHODS = {'dot', 'sum', 'mean', 'max', 'min', 'copy', 'astype', 'toarray', 'todense', 'multiply', 'power', 'nonzero', 'argsort',
                'argmax', 'argmin', 'flatten', 'tolist', 'any', 'all', 'cumsum', 'cumprod', 'std', 'var', 'clip', 'round', 'trace',
                'count_nonzero', 'format', 'join', 'split', 'strip', 'rstrip', 'lstrip', 'lower', 'upper', 'replace', 'startswith',
                'endswith', 'index', 'count', 'read', 'readline', 'readlines', 'write', 'close', 'encode', 'decode', 'tobytes',
                'maximum', 'minimum', 'prod', 'ptp', 'searchsorted', 'repeat', 'take', 'compress', 'choose', 'matvec', 'rmatvec',
                'matmat', 'rmatmat', 'query', 'query_ball_point', 'union', 'intersection', 'difference', 'issubset', 'isdisjoint',
                'exists', 'expanduser', 'is_absolute', 'resolve', 'mkdir', 'getroot', 'getmembers', 'extractall', 'islnk', 'issym',
                'find', 'findall', 'iter', 'isdigit', 'isnumeric', 'title', 'zfill', 'size', 'front', 'back', 'empty', 'top',
                'uniform', 'normal', 'randint', 'random', 'choice', 'permutation', 'randn', 'rand', 'random_sample', 'standard_normal',
                'integers', 'map', 'imap', 'starmap', 'apply_async', 'terminate', 'is_integer', 'bit_length', 'most_common',
                'elements', 'total_seconds', 'group', 'groups', 'match', 'search', 'sub', 'seek', 'tell', 'flush', 'splitlines',
                'casefold', 'capitalize', 'isalpha', 'isspace', 'signal', 'alarm', 'sort_values', 'tostring',
                'dumps', '__add__', '__mul__', '__neg__', '__sub__', '__len__', '__contains__', '__eq__',
                'getnnz', 'get_shape', 'getformat', 'sign', 'sqrt', 'expm1', 'log1p', 'floor', 'ceil', 'rint',
                'tanh', 'sin', 'tan', 'arcsin', 'arctan', 'sinh', 'deg2rad', 'rad2deg', 'trunc', 'nanmax', 'nanmin', 'solve',
                'expit', 'warn', 'is_file', 'is_dir', 'glob', 'with_suffix', 'read_text', 'write_text', 'open'}
NUMERIC_MAKERS = {'zeros', 'ones', 'full', 'empty', 'arange', 'zeros_like', 'ones_like', 'full_like', 'empty_like', 'array', 'hstack',
                  'vstack', 'concatenate', 'astype', 'argsort', 'cumsum', 'bincount', 'unique', 'eye', 'identity', 'linspace', 'repeat',
                  'tile', 'flatnonzero', 'random', 'rand', 'randn', 'uniform', 'normal', 'dot', 'sum', 'mean', 'toarray', 'sqrt', 'exp', 'log',
                  'abs', 'sign', 'cos', 'sin', 'outer', 'clip', 'maximum', 'minimum', 'power'}
SCALAR_CALLS = {'len', 'int', 'float', 'bool', 'str', 'min', 'max', 'abs', 'round', 'sum', 'range', 'type', 'isinstance', 'hasattr',
                'id', 'hash', 'ord', 'callable', 'issubclass'}
SCALAR_ANN = ('int', 'float', 'bool', 'str')
SPARSE_MAKERS = {'csr_matrix', 'csc_matrix', 'coo_matrix', 'lil_matrix', 'diags', 'eye', 'identity', 'bmat', 'check_format',
                 'tocsr', 'tocsc', 'tocoo', 'tolil', 'get_adjacency', 'bipartite2undirected', 'bipartite2directed',
                 'directed2undirected', 'get_membership', 'normalize', 'get_laplacian', 'random'}
# expressions known to evaluate to an index *array* (so that x[expr] is advanced indexing: a copy)
INDEX_ARRAY_MAKERS = {'argsort', 'where', 'flatnonzero', 'nonzero', 'arange', 'unique', 'argpartition', 'permutation',
                      'argwhere', 'isin', 'zeros', 'ones', 'hstack', 'concatenate', 'sort', 'lexsort', 'tolist', 'list', 'sorted',
                      'setdiff1d', 'intersect1d', 'union1d', 'repeat', 'full', 'get_index'}
# ... only when called with size= (a scalar otherwise: x[i] is then a view)
INDEX_ARRAY_MAKERS_WITH_SIZE = {'choice', 'randint', 'integers'}


# ---- Cython -> Python ----------------------------------------------------------------------------------------
C_TYPE = r'(?:unsigned\s+)?(?:int|long|float|double|bint|short|char|void|size_t|Py_ssize_t|bool|object|list|dict|tuple|str|ctuple|' \
         r'int_or_long|vector\[[^=]*?\]|queue\[[^=]*?\]|set\[[^=]*?\]|pair\[[^=]*?\]|c?np\.[\w.]+(?:\[[^\]]*\])?|\([\w, ]+\)|[A-Z]\w*)' \
         r'(?:\s*\[[:, ]*\])?(?:\s*[*&])*'


def _split_top(s):
    out, depth, cur = [], 0, ''
    for ch in s:
        if ch in '([{':
            depth += 1
        elif ch in ')]}':
            depth -= 1
        if ch == ',' and depth == 0:
            out.append(cur)
            cur = ''
        else:
            cur += ch
    if cur.strip():
        out.append(cur)
    return out


def _strip_param(p):
    p = p.strip()
    if not p or p in ('self', '*', '/') or p.startswith('*'):
        return p
    default = ''
    m = re.match(r'^(.*?)(=(?!=).*)$', p)
    head = p
    if m and m.group(1).count('[') == m.group(1).count(']'):
        head, default = m.group(1).strip(), m.group(2)
    if ':' in head and not re.search(r'\[[^\]]*:[^\]]*\]\s*\w+$', head):
        return p                          # python annotation `x: T = d`
    name = re.findall(r'[A-Za-z_]\w*', head)[-1]
    return name + default


def pyx_to_py(src):
    """Cython source -> Python source with the same def / class structure and the same statements (C declarations,
    types and casts dropped; `cdef T x = e` becomes `x = e`; cdef / cpdef functions become defs)"""
    out = []
    lines = src.split('\n')
    i = 0
    skip_indent = None
    while i < len(lines):
        ln = lines[i]
        i += 1
        stripped = ln.strip()
        indent = len(ln) - len(ln.lstrip())
        if skip_indent is not None:
            if stripped == '' or indent > skip_indent:
                continue
            skip_indent = None
        if re.match(r'ctypedef\s+.*:\s*$', stripped) or re.match(r'cdef\s+extern\b', stripped) or stripped == 'cdef:':
            skip_indent = indent
            continue
        if stripped.startswith(('cimport ', 'ctypedef ')) or re.match(r'from\s+\S+\s+cimport\s', stripped):
            m = re.match(r'from\s+(\S+)\s+cimport\s+(.*)', stripped)
            if m and not m.group(1).startswith('sknetwork'):
                out.append(' ' * indent + 'from c_%s import %s' % (m.group(1).replace('.', '_'), m.group(2)))
            elif m:
                out.append(' ' * indent + 'from %s import %s' % (m.group(1), m.group(2)))
            continue
        if stripped.startswith('@cython'):
            continue
        if re.match(r'(cdef|cpdef|def)\s', stripped) and '(' in stripped and stripped.count('(') > stripped.count(')'):
            while stripped.count('(') > stripped.count(')') and i < len(lines):
                stripped += ' ' + lines[i].strip()
                i += 1
        m = re.match(r'cdef\s+class\s+(\w+)\s*(\([^)]*\))?\s*:', stripped)
        if m:
            out.append(' ' * indent + 'class %s%s:' % (m.group(1), m.group(2) or ''))
            continue
        m = re.match(r'(?:cdef|cpdef|def)\s+(?:inline\s+)?(.*?)(\w+)\s*\((.*)\)\s*(?:nogil\s*)?(?:except\s*[^:]*)?(?:->\s*[^:]+)?:\s*(#.*)?$',
                     stripped)
        if m and not re.match(r'c?p?def\s+' + C_TYPE + r'\s+\w+\s*=', stripped):
            params = ', '.join(_strip_param(p) for p in _split_top(m.group(3)))
            out.append(' ' * indent + 'def %s(%s):' % (m.group(2), params))
            continue
        if stripped.startswith(('cdef ', 'cpdef ')):
            body = re.sub(r'^c?p?def\s+(?:public\s+|readonly\s+)?', '', stripped)
            m = re.match(r'^' + C_TYPE + r'\s+(.*)$', body)
            rest = m.group(1) if m else body
            assigns = [p.strip() for p in _split_top(rest) if re.match(r'^\s*\w+\s*=(?!=)', p)]
            for a in assigns:
                out.append(' ' * indent + a)
            if not assigns:
                out.append(' ' * indent + 'pass')
            continue
        ln2 = re.sub(r'\bwith\s+(?:nogil|gil)\s*:', 'if True:', ln)
        ln2 = re.sub(r'<\s*' + C_TYPE + r'\s*>', '', ln2)
        ln2 = re.sub(r'\bfor\s+(\w+)\s+in\s+prange\(', r'for \1 in range(', ln2)
        ln2 = re.sub(r'\)\s*nogil\s*:', '):', ln2)
        out.append(ln2)
    return '\n'.join(out)


# ---- functions, tables ---------------------------------------------------------------------------------------
class FnInfo:
    def __init__(self, qual, module, cls, node, public, static=False):
        self.qual, self.module, self.cls, self.node, self.public = qual, module, cls, node, public
        a = node.args
        params = [p.arg for p in a.posonlyargs + a.args + a.kwonlyargs]
        if a.vararg:
            params.append(a.vararg.arg)
        if a.kwarg:
            params.append(a.kwarg.arg)
        self.is_method = cls is not None and not static and bool(params) and params[0] in ('self', 'cls')
        self.static = cls is not None and not self.is_method
        self.params = params[1:] if self.is_method else params
        self.scalar_params = set()
        self.sparse_params = set()
        self.array_params = set()
        self.dict_params = set()
        allp = a.posonlyargs + a.args + a.kwonlyargs
        defaults = [None] * (len(a.posonlyargs + a.args) - len(a.defaults)) + list(a.defaults) + list(a.kw_defaults)
        for p, d in zip(allp, defaults):
            ann = ast.unparse(p.annotation) if p.annotation is not None else ''
            if ('csr_matrix' in ann or 'sparse' in ann) and 'ndarray' not in ann:
                self.sparse_params.add(p.arg)
            if 'ndarray' in ann and 'int' not in ann.replace('Union', '') and 'dict' not in ann.lower() and 'list' not in ann.lower():
                self.array_params.add(p.arg)
            if ('dict' in ann.lower() or 'list' in ann.lower()) and 'ndarray' not in ann:
                self.dict_params.add(p.arg)
            if ann and all(t.strip() in SCALAR_ANN or t.strip() == 'None' for t in
                           re.split(r'[\[\],|]| or ', ann.replace('Optional', '').replace('Union', '')) if t.strip()):
                self.scalar_params.add(p.arg)
        self.writes = set()          # parameter indices this function may write
        self.ret_alias = set()       # parameter indices its result may share memory with
        self.attr_writes = set()     # attributes of self it writes in place (through a value read from self)
        self.stored_params = set()   # parameters (an alias of) which it stores in an attribute of self
        self.stmts, self.vars, self.ret_vars = [], {}, set()
        self.unknown_calls = []
        self.exempt = False
        self.kernel = False


class Table:
    def __init__(self):
        self.by_name = {}
        self.classes = set()
        self.bases = {}            # class -> base class names
        self.subclasses = {}       # class -> direct subclasses
        self.class_methods = {}    # class -> {method name: FnInfo}
        self.attr_types = {}       # class -> {attribute: class name} (from `self.x = ClassName(...)`)
        self.externals = {}        # module -> names bound by imports from outside the repository
        self.fns = []
        self.unresolved = 0
        self.unparsed = []
        self.hot_attrs = {}        # class -> attributes written in place by some method of its family
        self.exported_classes = set()
        self.module_globals = {}   # module -> names assigned at module level

    def add(self, fn):
        self.fns.append(fn)
        if fn.cls is not None:
            self.class_methods.setdefault(fn.cls, {})[fn.node.name] = fn
        else:
            self.by_name.setdefault(fn.node.name, []).append(fn)

    def mro(self, cls):
        out, todo = [], [cls]
        while todo:
            c = todo.pop(0)
            if c in out or c not in self.classes:
                continue
            out.append(c)
            todo += self.bases.get(c, [])
        return out

    def descendants(self, cls):
        out, todo = [], list(self.subclasses.get(cls, []))
        while todo:
            c = todo.pop(0)
            if c not in out:
                out.append(c)
                todo += self.subclasses.get(c, [])
        return out

    def family(self, cls):
        """classes whose methods may run on an object that a method of `cls` sees as self"""
        fam = []
        for c in [cls] + self.descendants(cls):
            for d in self.mro(c):
                if d not in fam:
                    fam.append(d)
        return fam

    def method_of(self, cls, name, virtual=True):
        """the method found through the MRO, plus (virtual dispatch) the overrides in subclasses"""
        out = []
        for c in self.mro(cls):
            m = self.class_methods.get(c, {}).get(name)
            if m is not None:
                out.append(m)
                break
        if virtual:
            for c in self.descendants(cls):
                m = self.class_methods.get(c, {}).get(name)
                if m is not None and m not in out:
                    out.append(m)
        return out or None

    def methods_named(self, name):
        return [ms[name] for ms in self.class_methods.values() if name in ms]

    def attr_type(self, cls, attr):
        for c in self.mro(cls):
            t = self.attr_types.get(c, {}).get(attr)
            if t:
                return t
        return None

    def resolve(self, name):
        return self.by_name.get(name)


PUBLIC_METHODS = ('fit', 'fit_predict', 'fit_transform', 'fit_predict_proba', 'predict', 'predict_proba', 'transform')
ALSO_PUBLIC = ('__init__', '__cinit__', '__call__')
INTERNAL_PREFIXES = ()


def exported_names(pkg):
    """names imported by the package-level __init__.py files: the public API"""
    out = set()
    for d, dirs, files in os.walk(pkg):
        dirs[:] = [x for x in dirs if x not in ('tests', '__pycache__')]
        if '__init__.py' in files:
            try:
                tree = ast.parse(open(os.path.join(d, '__init__.py')).read())
            except SyntaxError:
                continue
            for n in ast.walk(tree):
                if isinstance(n, ast.ImportFrom):
                    for a in n.names:
                        out.add(a.asname or a.name)
    return out


def _is_static(m):
    return any(isinstance(d, ast.Name) and d.id == 'staticmethod' for d in m.decorator_list)


def add_module(table, tree, mod, rel, exported, internal):
    ext = table.externals.setdefault(mod, set())
    for n in ast.walk(tree):
        if isinstance(n, ast.Import):
            for a in n.names:
                if not a.name.startswith('sknetwork'):
                    ext.add((a.asname or a.name).split('.')[0])
        elif isinstance(n, ast.ImportFrom):
            if n.level == 0 and n.module and not n.module.startswith('sknetwork'):
                for a in n.names:
                    ext.add(a.asname or a.name)
    g = table.module_globals.setdefault(mod, set())
    for n in tree.body:
        if isinstance(n, (ast.Assign, ast.AnnAssign, ast.AugAssign)):
            for t in (n.targets if isinstance(n, ast.Assign) else [n.target]):
                for x in ast.walk(t):
                    if isinstance(x, ast.Name):
                        g.add(x.id)
    for n in tree.body:
        if isinstance(n, ast.FunctionDef):
            public = n.name in exported and not n.name.startswith('_') and not internal
            table.add(FnInfo(mod + '.' + n.name, mod, None, n, public))
        elif isinstance(n, ast.ClassDef):
            table.classes.add(n.name)
            if n.name in exported and not n.name.startswith(('_', 'Base')) and not internal:
                table.exported_classes.add(n.name)
            table.bases[n.name] = [ast.unparse(b).split('.')[-1] for b in n.bases]
            for m in n.body:
                if isinstance(m, ast.FunctionDef):
                    fn = FnInfo(mod + '.' + n.name + '.' + m.name, mod, n.name, m, False, static=_is_static(m))
                    table.add(fn)
                    if m.name in ('__init__', '__cinit__'):
                        for st in ast.walk(m):
                            if isinstance(st, ast.Assign) and isinstance(st.value, ast.Call) and isinstance(st.value.func, ast.Name):
                                for t in st.targets:
                                    if isinstance(t, ast.Attribute) and isinstance(t.value, ast.Name) and t.value.id == 'self':
                                        table.attr_types.setdefault(n.name, {})[t.attr] = st.value.func.id


def collect(root, extra_sources=None):
    """`extra_sources`: {relative path: source text} analysed instead of the tree (self-tests)"""
    table = Table()
    sources = []
    if extra_sources is None:
        pkg = os.path.join(root, 'sknetwork')
        exported = exported_names(pkg)
        for d, dirs, files in os.walk(pkg):
            dirs[:] = sorted(x for x in dirs if x not in ('tests', '__pycache__'))
            for f in sorted(files):
                if f.startswith('test_') or not f.endswith(('.py', '.pyx')):
                    continue
                path = os.path.join(d, f)
                sources.append((os.path.relpath(path, root), open(path).read()))
    else:
        exported = None
        sources = sorted(extra_sources.items())
    for rel, text in sources:
        pyx = rel.endswith('.pyx')
        try:
            tree = ast.parse(pyx_to_py(text) if pyx else text)
        except SyntaxError as e:
            table.unparsed.append('%s: %s' % (rel, e))
            continue
        mod = rel[:-4 if pyx else -3].replace('/', '.')
        ex = exported
        if ex is None:     # self-test sources: every top-level name / class is exported
            ex = {n.name for n in tree.body if isinstance(n, (ast.FunctionDef, ast.ClassDef))}
        add_module(table, tree, mod, rel, ex, rel.startswith(INTERNAL_PREFIXES))
    for c, bs in table.bases.items():
        for b in bs:
            table.subclasses.setdefault(b, []).append(c)
    for c, d in table.attr_types.items():
        for k in [k for k, v in d.items() if v not in table.classes]:
            del d[k]
    # public methods: every PUBLIC_METHODS method an exported class reaches through its MRO, wherever it is defined
    for c in sorted(table.classes):
        if c not in table.exported_classes:
            continue
        names = set()
        for d in table.mro(c):
            names |= set(table.class_methods.get(d, {}))
        for name in sorted(names):
            m = table.method_of(c, name, virtual=False)
            if not m:
                continue
            fn = m[0]
            # the estimator interface, constructors and __call__, and every other non-underscore method that takes an object
            if name in PUBLIC_METHODS or name in ALSO_PUBLIC or \
                    (not name.startswith('_') and any(p not in fn.scalar_params for p in fn.params)):
                fn.public = True
    return table


# ---- lowering ------------------------------------------------------------------------------------------------
class Lower(ast.NodeVisitor):
    """lowers one function body to ownership statements, using the current summaries of callees.
    Variables are versioned (a new index per assignment, merged at control-flow joins), so re-binding a
    name to fresh data before writing to it is seen as such although the Lean semantics ignores order."""

    def __init__(self, fn, table):
        self.fn = fn
        self.table = table
        self.stmts = []
        self.nvars = 0
        self.cur = {}               # name -> set of live version indices
        self.scalars = set(fn.scalar_params)
        self.arrays = set(fn.array_params)      # names known to hold index arrays
        self.ret_vars = set()
        self.vars = {}              # index -> name (for reports)
        self.line = 0
        self.dead = False
        self.loop_items = set()
        self.types = {}             # name -> repository class of the object it holds
        self.sparse = set()         # version indices known to hold scipy sparse matrices
        self.nested = {}            # name -> {'params': [(name, var)], 'ret': set(var), 'vararg': var or None}
        self.attr_entry = {}        # attribute -> variable standing for the value of self.attribute on entry
        self.attr_binds = []        # (attribute, variable) for every `self.attribute = ...`
        self.attr_writes = set()    # attributes written in place by callees run on self
        self.unknown = []           # (line, text) of calls treated as unknown
        self.lines = {}             # statement position -> (source line, reason) of the in-place statements
        self.containers = set()     # names bound to a new list / dict / set (an item of them is the stored object, not a copy)
        self.callables = {}         # names bound to functions of the repository (or partial(...) of them)
        self.own = set()            # versions bound to an object created here (`[]`, `{}`, np.zeros(...), x.copy() ...)
        self.numeric = set()        # versions known to hold numeric arrays (an item store copies the value into them)
        self.externals = table.externals.get(fn.module, set())
        self.hot = table.hot_attrs.get(fn.cls, set()) if fn.cls else set()
        for i, p in enumerate(fn.params):
            x = self.new(p)
            self.cur[p] = {x}
            self.stmts.append(('bind', x, ('param', i)))
            if p in fn.sparse_params:
                self.sparse.add(x)

    def visit(self, node):
        if hasattr(node, 'lineno'):
            self.line = node.lineno
        return super().visit(node)

    def new(self, name):
        x = self.nvars
        self.nvars += 1
        self.vars[x] = name
        return x

    def mutate(self, roots, why=''):
        for r in sorted(set(roots)):
            self.lines[len(self.stmts)] = (self.line, why)
            self.stmts.append(('mutate', r))

    # ---- expressions --------------------------------------------------------------------------
    def self_attr(self, attr):
        key = 'self.' + attr
        if key not in self.cur:
            x = self.new(key + '@entry')
            self.stmts.append(('bind', x, ('fresh',)))
            self.attr_entry[attr] = x
            self.cur[key] = {x}
        return sorted(self.cur[key])

    def roots_of(self, node):
        """variable indices the value of `node` may share memory with (empty = fresh); lowers nested calls"""
        if node is None:
            return []
        if isinstance(node, ast.Name):
            if node.id in self.scalars:
                return []
            return sorted(self.cur.get(node.id, ()))
        if isinstance(node, ast.Attribute):
            if node.attr in SCALAR_ATTRS:
                self.roots_of(node.value)
                return []
            if isinstance(node.value, ast.Name) and node.value.id == 'self' and self.fn.cls:
                return self.self_attr(node.attr)
            return self.roots_of(node.value)
        if isinstance(node, ast.Subscript):
            self.roots_of(node.slice)
            if self.is_fancy(node.slice) and not (isinstance(node.value, ast.Name) and
                                                  (node.value.id in self.fn.dict_params or node.value.id in self.containers)):
                self.roots_of(node.value)
                return []      # advanced indexing copies
            return self.roots_of(node.value)
        if isinstance(node, ast.Starred):
            return self.roots_of(node.value)
        if isinstance(node, ast.IfExp):
            self.roots_of(node.test)
            return self.roots_of(node.body) + self.roots_of(node.orelse)
        if isinstance(node, ast.BoolOp):
            out = []
            for v in node.values:
                out += self.roots_of(v)
            return out
        if isinstance(node, (ast.Tuple, ast.List, ast.Set)):
            out = []
            for v in node.elts:
                out += self.roots_of(v)
            return out
        if isinstance(node, ast.Dict):
            out = []
            for v in node.keys:          # keys are hashable, hence immutable: they cannot be written through
                self.roots_of(v)
            for v in node.values:
                out += self.roots_of(v)
            return out
        if isinstance(node, ast.NamedExpr):
            r = self.roots_of(node.value)
            self.bind_target(node.target, r, node.value)
            return r
        if isinstance(node, ast.Call):
            return self.lower_call(node)
        if isinstance(node, ast.Lambda):
            self.lower_lambda(node)
            return []
        if isinstance(node, ast.BinOp):
            l, r = self.roots_of(node.left), self.roots_of(node.right)
            if self.is_new_container(node) or any(isinstance(x, ast.Name) and x.id in self.containers for x in (node.left, node.right)):
                return l + r        # [x] * 2, [] + [x], l + [x]: the new list holds the same objects
            return []
        if isinstance(node, ast.UnaryOp):
            self.roots_of(node.operand)
            return []
        if isinstance(node, ast.Compare):
            self.roots_of(node.left)
            for c in node.comparators:
                self.roots_of(c)
            return []
        if isinstance(node, (ast.ListComp, ast.SetComp, ast.GeneratorExp, ast.DictComp)):
            for g in node.generators:
                r = self.roots_of(g.iter)
                self.bind_target(g.target, r)
                for c in g.ifs:
                    self.roots_of(c)
            if isinstance(node, ast.DictComp):
                self.roots_of(node.key)
                return self.roots_of(node.value)
            return self.roots_of(node.elt)
        if isinstance(node, (ast.Await, ast.Yield, ast.YieldFrom)):
            return self.roots_of(node.value)
        if isinstance(node, ast.JoinedStr):
            for v in node.values:
                self.roots_of(v)
            return []
        if isinstance(node, ast.FormattedValue):
            self.roots_of(node.value)
            return []
        if isinstance(node, ast.Slice):
            for v in (node.lower, node.upper, node.step):
                self.roots_of(v)
            return []
        return []   # Constant

    # ---- nested functions and lambdas -------------------------------------------------------------
    def lower_nested(self, args, body, is_expr):
        rec = {'params': [], 'ret': set(), 'vararg': None}
        saved = (self.cur, self.ret_vars, self.dead, set(self.scalars), set(self.loop_items), set(self.arrays))
        self.cur = {k: set(v) for k, v in self.cur.items()}
        self.ret_vars = set()
        for p in args.posonlyargs + args.args + args.kwonlyargs:
            x = self.new(p.arg)
            self.stmts.append(('bind', x, ('fresh',)))
            self.cur[p.arg] = {x}
            self.scalars.discard(p.arg)
            rec['params'].append((p.arg, x))
        for va in (args.vararg, args.kwarg):
            if va is not None:
                x = self.new(va.arg)
                self.stmts.append(('bind', x, ('fresh',)))
                self.cur[va.arg] = {x}
                rec['vararg'] = x
        if is_expr:
            rec['ret'] = set(self.roots_of(body))
        else:
            self.dead = False
            for st in body:
                self.visit(st)
                if self.dead:
                    break
            rec['ret'] = set(self.ret_vars)
        self.cur, self.ret_vars, self.dead, self.scalars, self.loop_items, self.arrays = saved
        return rec

    def lower_lambda(self, node):
        return self.lower_nested(node.args, node.body, True)

    def bind_nested_params(self, rec, roots_by_pos, roots_by_kw, all_roots=None):
        """an (alias) binding of the parameters of a nested function / lambda to the roots of the arguments"""
        for i, (pname, x) in enumerate(rec['params']):
            roots = list(all_roots) if all_roots is not None else []
            if all_roots is None:
                if i < len(roots_by_pos):
                    roots += roots_by_pos[i]
                roots += roots_by_kw.get(pname, [])
            if roots:
                self.stmts.append(('bind', x, ('alias', sorted(set(roots)))))
        if rec['vararg'] is not None:
            extra = list(all_roots) if all_roots is not None else [r for rs in roots_by_pos[len(rec['params']):] for r in rs]
            if extra:
                self.stmts.append(('bind', rec['vararg'], ('alias', sorted(set(extra)))))

    # ---- calls ----------------------------------------------------------------------------------------
    def fn_values(self, node):
        """the functions of the repository an expression used *as a value* may denote (map(f, xs), partial(f, a),
        pool.map(self.step, xs) ...): their summaries are applied to every other argument of the call they are passed to"""
        if isinstance(node, ast.Name):
            if node.id in self.callables:
                return self.callables[node.id]
            if node.id not in self.cur and node.id not in self.nested:
                return self.table.resolve(node.id) or []
            return []
        if isinstance(node, ast.Attribute) and node.attr not in VIEW_ATTRS and node.attr not in SCALAR_ATTRS:
            cls = self.class_of(node.value)
            if cls is not None:
                return self.table.method_of(cls, node.attr) or []
            return self.table.methods_named(node.attr)
        if isinstance(node, ast.Call) and isinstance(node.func, ast.Name) and node.func.id == 'partial' and node.args:
            return self.fn_values(node.args[0])
        return []

    def is_external_base(self, node):
        """`np`, `np.random`, `sparse.csgraph` ... : an attribute chain rooted at a name imported from outside"""
        while isinstance(node, ast.Attribute):
            node = node.value
        return isinstance(node, ast.Name) and node.id in self.externals and node.id not in self.cur

    def lower_call(self, node):
        f = node.func
        pos_roots = [self.roots_of(a) for a in node.args]
        kw_roots = {}
        for k in node.keywords:
            kw_roots.setdefault(k.arg, []).extend(self.roots_of(k.value))
        arg_roots = [r for rs in pos_roots for r in rs] + [r for rs in kw_roots.values() for r in rs]
        result = []
        # function-valued arguments: their parameters may receive any other argument of this call
        for a in list(node.args) + [k.value for k in node.keywords]:
            fv = self.fn_values(a)
            if fv:
                others = [r for r in arg_roots]
                for c in fv:
                    if c.writes:
                        self.mutate(others, 'passed with %s, which writes %s' % (c.qual, [c.params[p] for p in sorted(c.writes) if p < len(c.params)]))
                    if c.ret_alias:
                        result += others
                    if c.attr_writes and isinstance(a, ast.Attribute) and isinstance(a.value, ast.Name) and a.value.id == 'self':
                        self.attr_writes |= c.attr_writes
            rec = None
            if isinstance(a, ast.Lambda):
                rec = self.lower_lambda(a)
            elif isinstance(a, ast.Name) and a.id in self.nested:
                rec = self.nested[a.id]
            if rec is not None:
                self.bind_nested_params(rec, [], {}, all_roots=arg_roots)
                result += sorted(rec['ret'])
        # out= : written, and returned
        if 'out' in kw_roots:
            self.mutate(kw_roots['out'])
            result += kw_roots['out']
        if isinstance(f, ast.Name):
            return result + self.call_name(node, f.id, pos_roots, kw_roots, arg_roots)
        if isinstance(f, ast.Attribute):
            return result + self.call_attr(node, f, pos_roots, kw_roots, arg_roots)
        # calling the result of an expression (f(x)(y), fs[i](y)): unknown
        recv = self.roots_of(f)
        return result + self.unknown_call(node, recv + arg_roots)

    def unknown_call(self, node, roots):
        if self.fn.cls and any(isinstance(a, ast.Name) and a.id == 'self' for a in list(node.args) + [k.value for k in node.keywords]):
            self.attr_writes.add('*')
        self.unknown.append((self.line, ast.unparse(node.func)[:60]))
        self.mutate(roots, 'unknown call ' + ast.unparse(node.func)[:40])
        return list(roots)

    def apply_summaries(self, callees, node, pos_roots, kw_roots, shift=0):
        """effects and result roots of a call to functions of the repository; `shift`: positional arguments that
        precede the callee's parameter 0 (an explicit self in `Class.method(self, ...)`)"""
        out = []
        for c in callees:
            amap = {}
            starred = False
            ca = c.node.args
            npos = len(ca.posonlyargs) + len(ca.args) - (1 if c.is_method else 0)
            for i, (a, rs) in enumerate(zip(node.args, pos_roots)):
                if isinstance(a, ast.Starred):
                    starred = True
                    break
                j = i - shift
                if j < 0:
                    continue
                if j < npos:
                    amap.setdefault(j, []).extend(rs)
                elif ca.vararg is not None:     # surplus positional arguments land in *args
                    amap.setdefault(c.params.index(ca.vararg.arg), []).extend(rs)
            for k, rs in kw_roots.items():
                if k is None:
                    starred = True
                elif k in c.params:
                    amap.setdefault(c.params.index(k), []).extend(rs)
                elif ca.kwarg is not None:
                    amap.setdefault(c.params.index(ca.kwarg.arg), []).extend(rs)
            if starred:     # *args / **kwargs at the call site: any parameter may receive any of the arguments
                allr = [r for rs in pos_roots for r in rs] + [r for rs in kw_roots.values() for r in rs]
                for j in range(len(c.params)):
                    amap.setdefault(j, []).extend(allr)
            for p in c.writes:
                self.mutate(amap.get(p, []), 'callee %s writes %s' % (c.qual, c.params[p]))
            # `self` handed to a function that writes through that parameter: any attribute of self may be written
            for i, a in enumerate(node.args):
                if isinstance(a, ast.Name) and a.id == 'self' and self.fn.cls and (i - shift) in c.writes and (i - shift) >= 0:
                    self.attr_writes.add('*')
            for k in node.keywords:
                if isinstance(k.value, ast.Name) and k.value.id == 'self' and self.fn.cls and k.arg in c.params \
                        and c.params.index(k.arg) in c.writes:
                    self.attr_writes.add('*')
            for p in c.ret_alias:
                out += amap.get(p, [])
        return out

    def call_name(self, node, name, pos_roots, kw_roots, arg_roots):
        if name in self.nested and name not in self.table.by_name:
            rec = self.nested[name]
            self.bind_nested_params(rec, pos_roots, kw_roots)
            return sorted(rec['ret'])
        if name in self.cur and name not in self.scalars:
            # a local variable that is called: an object of a known repository class, or unknown
            cls = self.types.get(name)
            callees = self.table.method_of(cls, '__call__') if cls else self.table.methods_named('__call__')
            if callees:
                return self.apply_summaries(callees, node, pos_roots, kw_roots)
            return self.unknown_call(node, sorted(self.cur[name]) + arg_roots)
        callees = self.table.resolve(name)
        if callees:
            return self.apply_summaries(callees, node, pos_roots, kw_roots)
        if name in self.table.classes:
            init = self.table.method_of(name, '__init__', virtual=False) or self.table.method_of(name, '__cinit__', virtual=False)
            if init:
                self.apply_summaries(init, node, pos_roots, kw_roots)
                kept = _Kept(init[0])
                return self.apply_summaries([kept], node, pos_roots, kw_roots)      # the object keeps what __init__ stores in self
            return list(arg_roots)      # no constructor in the repository: the object may keep any argument
        return self.external_function(node, name, pos_roots, kw_roots, arg_roots)

    def external_function(self, node, name, pos_roots, kw_roots, arg_roots):
        """a builtin or a function imported from outside the repository, by its name"""
        first = pos_roots[0] if pos_roots else []
        result = []
        k = UFUNCS.get(name, OUT_POSITIONAL.get(name))
        if k is not None and len(pos_roots) > k:
            self.mutate(pos_roots[k])
            result += pos_roots[k]
        if name in INPLACE_FUNCS:
            self.mutate(first)
            return result
        if name == 'array':
            if any(kw.arg == 'copy' and not (isinstance(kw.value, ast.Constant) and kw.value.value is True) for kw in node.keywords):
                return result + first
            return result
        if name in VIEW_FUNCS:
            if name.endswith(('_matrix', '_array')) and _kw_true(node, 'copy'):
                return result
            if name in ('csr_matrix', 'csc_matrix', 'csr_array', 'csc_array') and node.args and isinstance(node.args[0], ast.Tuple) \
                    and len(node.args[0].elts) == 2 and isinstance(node.args[0].elts[1], ast.Tuple):
                return result       # (data, (row, col)): built through COO and converted, new buffers (self-tested)
            return result + first
        if name in PURE_FUNCS or name in PURE_BUILTINS:
            return result
        if name in SHARING_BUILTINS:
            return result + arg_roots
        return result + self.unknown_call(node, arg_roots)

    def call_attr(self, node, f, pos_roots, kw_roots, arg_roots):
        name = f.attr
        # np.ndarray.method(x, ...): the method, applied to its first argument
        if isinstance(f.value, ast.Attribute) and f.value.attr in ('ndarray', 'matrix', 'csr_matrix', 'spmatrix') and self.is_external_base(f.value) \
                and pos_roots:
            rest = [r for rs in pos_roots[1:] for r in rs] + [r for rs in kw_roots.values() for r in rs]
            return self.table_method(node, name, pos_roots[0], pos_roots[1:], kw_roots, rest, receiver_node=node.args[0])
        # module.function(...)
        if self.is_external_base(f.value):
            if name == 'at' and isinstance(f.value, ast.Attribute) and f.value.attr in UFUNCS:
                self.mutate(pos_roots[0] if pos_roots else [])
                return []
            return self.external_function(node, name, pos_roots, kw_roots, arg_roots)
        # Class.method(self, ...) / super().method(...)
        if isinstance(f.value, ast.Name) and f.value.id in self.table.classes and f.value.id not in self.cur:
            callees = self.table.method_of(f.value.id, name, virtual=False)
            if callees:
                shift = 1 if callees[0].is_method else 0
                return self.apply_summaries(callees, node, pos_roots, kw_roots, shift=shift)
        if isinstance(f.value, ast.Name) and f.value.id not in self.cur and f.value.id != 'self' and name in self.table.by_name \
                and f.value.id not in self.scalars:
            return self.apply_summaries(self.table.by_name[name], node, pos_roots, kw_roots)        # repo_module.function(...)
        is_super = isinstance(f.value, ast.Call) and isinstance(f.value.func, ast.Name) and f.value.func.id == 'super'
        recv = [] if is_super else self.roots_of(f.value)
        if name in SORT_INDICES:
            for r in recv:
                self.stmts.append(('sortIndices', r))
            return []
        cls = self.class_of(f.value)
        if cls is not None:
            callees = self.table.method_of(cls, name, virtual=not is_super)
            if callees:
                on_self = is_super or (isinstance(f.value, ast.Name) and f.value.id == 'self')
                if on_self:
                    for c in callees:
                        self.attr_writes |= c.attr_writes
                return self.apply_summaries(callees, node, pos_roots, kw_roots)
            if is_super:
                return []       # constructor / method of a base class outside the repository (LinearOperator, Exception ...)
        elif is_super:
            return []
        return self.table_method(node, name, recv, pos_roots, kw_roots, arg_roots)

    def table_method(self, node, name, recv, pos_roots, kw_roots, arg_roots, receiver_node=None):
        """a method of an object whose class is unknown: the tables, joined with every repository method of that name"""
        known = False
        result = []
        if name in INPLACE_METHODS:
            known = True
            rnode = receiver_node if receiver_node is not None else node.func.value
            if name in ADDERS and self.is_global_state(rnode):
                self.mutate(arg_roots, 'stored in class / module state')
            if not self.own_object(rnode):
                self.mutate(recv, 'in-place method ' + name)
            if name in ADDERS and arg_roots:
                for r in recv:      # the receiver now holds (aliases of) the arguments
                    self.stmts.append(('bind', r, ('alias', sorted(set(arg_roots)))))
        if name in VIEW_METHODS:
            known = True
            result += recv
        if name == 'astype':
            known = True
            if any(kw.arg == 'copy' and not (isinstance(kw.value, ast.Constant) and kw.value.value is True) for kw in node.keywords):
                result += recv
        if name in PURE_METHODS:
            known = True
            k = OUT_POSITIONAL.get(name)
            if k is not None and len(pos_roots) > k - 1 >= 0:      # x.clip(lo, hi, out) : out is one place earlier
                self.mutate(pos_roots[k - 1])
                result += pos_roots[k - 1]
        repo = self.table.methods_named(name)
        if repo:
            known = True
            result += self.apply_summaries(repo, node, pos_roots, kw_roots)
            if not (name in PURE_METHODS or name in VIEW_METHODS or name in INPLACE_METHODS):
                self.table.unresolved += 1
        if not known:
            return result + self.unknown_call(node, recv + arg_roots)
        return result

    def class_of(self, node):
        """class of the object an expression evaluates to, when it is syntactically evident"""
        if isinstance(node, ast.Name):
            if node.id == 'self':
                return self.fn.cls
            return self.types.get(node.id)
        if isinstance(node, ast.Attribute) and isinstance(node.value, ast.Name) and node.value.id == 'self':
            return self.types.get('self.' + node.attr) or (self.table.attr_type(self.fn.cls, node.attr) if self.fn.cls else None)
        if isinstance(node, ast.Call):
            f = node.func
            if isinstance(f, ast.Name):
                if f.id in self.table.classes:
                    return f.id
                if f.id == 'super' and self.fn.cls:
                    bs = self.table.bases.get(self.fn.cls, [])
                    for b in bs:
                        if b in self.table.classes:
                            return b
                    return None
            if isinstance(f, ast.Attribute) and f.attr in ('fit',):      # est.fit(...) returns est
                return self.class_of(f.value)
        return None

    def is_index_array(self, node):
        if isinstance(node, (ast.Compare, ast.List, ast.ListComp)):
            return True
        if isinstance(node, ast.Name):
            return node.id in self.arrays and node.id not in self.scalars and node.id not in self.loop_items
        if isinstance(node, ast.Call):
            f = node.func
            nm = f.attr if isinstance(f, ast.Attribute) else (f.id if isinstance(f, ast.Name) else '')
            if nm in INDEX_ARRAY_MAKERS_WITH_SIZE:
                return any(k.arg == 'size' for k in node.keywords) or len(node.args) >= 2
            if nm in ('array', 'asarray', 'astype', 'ravel') and isinstance(f, ast.Attribute):
                # np.array([..]) / idx.astype(int) / idx.ravel(): an array when built from a list or from an index array
                src = node.args[0] if nm in ('array', 'asarray') and node.args else f.value
                return self.is_index_array(src)
            return nm in INDEX_ARRAY_MAKERS
        if isinstance(node, ast.UnaryOp):
            return self.is_index_array(node.operand)
        if isinstance(node, ast.BinOp):
            return self.is_index_array(node.left) or self.is_index_array(node.right)
        if isinstance(node, ast.BoolOp):
            return any(self.is_index_array(v) for v in node.values)
        if isinstance(node, ast.Subscript):      # a slice or a fancy selection of an index array is an index array, an element is not
            return self.is_index_array(node.value) and (isinstance(node.slice, ast.Slice) or self.is_index_array(node.slice))
        return False

    def is_fancy(self, sl):
        """index expressions that select with an array / list / boolean mask (numpy copies)"""
        if isinstance(sl, ast.Tuple):
            return any(self.is_fancy(e) for e in sl.elts)
        if isinstance(sl, (ast.Slice, ast.Constant)):
            return False
        return self.is_index_array(sl)

    # ---- statements ---------------------------------------------------------------------------
    def is_scalar_expr(self, node):
        if isinstance(node, ast.Constant):
            return not isinstance(node.value, (bytes,)) and node.value is not Ellipsis
        if isinstance(node, ast.Name):
            return node.id in self.scalars
        if isinstance(node, ast.Call) and isinstance(node.func, ast.Name) and node.func.id in SCALAR_CALLS:
            return True
        if isinstance(node, ast.Attribute) and node.attr in ('nnz', 'size', 'ndim'):
            return True
        if isinstance(node, ast.Subscript) and isinstance(node.value, ast.Attribute) and node.value.attr == 'shape':
            return True
        if isinstance(node, ast.BinOp):
            return self.is_scalar_expr(node.left) and self.is_scalar_expr(node.right)
        if isinstance(node, ast.UnaryOp):
            return self.is_scalar_expr(node.operand)
        if isinstance(node, ast.Compare):
            return self.is_scalar_expr(node.left) and all(self.is_scalar_expr(c) for c in node.comparators)
        if isinstance(node, ast.BoolOp):
            return all(self.is_scalar_expr(v) for v in node.values)
        return False

    def assign_name(self, name, value_roots):
        x = self.new(name)
        self.stmts.append(('bind', x, ('alias', sorted(set(value_roots))) if value_roots else ('fresh',)))
        if not value_roots:
            self.own.add(x)
        self.cur[name] = {x}
        return x

    def is_global_state(self, node):
        """an attribute / item chain rooted at a class of the repository or at a module-level variable: state that
        outlives the call — whatever is stored there is treated as written (anybody may write it later)"""
        while isinstance(node, (ast.Attribute, ast.Subscript)):
            node = node.value
        if not isinstance(node, ast.Name) or node.id in self.cur or node.id in self.scalars or node.id == 'self':
            return False
        return node.id in self.table.classes or node.id in self.table.module_globals.get(self.fn.module, ())

    def own_object(self, node):
        """a plain name all of whose live versions are objects created in this function: an in-place change of the
        object itself (append, item store, sort ...) cannot reach the caller; what it *holds* is tracked by aliasing"""
        if not isinstance(node, ast.Name) or node.id in self.scalars:
            return False
        vs = self.cur.get(node.id, set())
        return bool(vs) and vs <= self.own

    def is_new_container(self, node):
        if isinstance(node, (ast.List, ast.Tuple, ast.Dict, ast.Set, ast.ListComp, ast.DictComp, ast.SetComp)):
            return True
        if isinstance(node, ast.Call) and isinstance(node.func, ast.Name) and node.func.id not in self.cur:
            return node.func.id in ('list', 'dict', 'set', 'tuple', 'sorted', 'frozenset', 'defaultdict')
        if isinstance(node, ast.BinOp) and isinstance(node.op, (ast.Add, ast.Mult)):
            return self.is_new_container(node.left) or self.is_new_container(node.right)
        return False

    def is_numeric_expr(self, node):
        if isinstance(node, (ast.BinOp, ast.UnaryOp, ast.Compare)):
            return True
        if isinstance(node, ast.Call):
            f = node.func
            nm = f.attr if isinstance(f, ast.Attribute) else (f.id if isinstance(f, ast.Name) else '')
            if any(k.arg == 'dtype' and 'object' in ast.unparse(k.value) for k in node.keywords):
                return False
            if nm in NUMERIC_MAKERS:
                return not (nm == 'array' and node.args and isinstance(node.args[0], (ast.List, ast.ListComp, ast.Tuple))
                            and 'dtype' not in [k.arg for k in node.keywords] and self.roots_of_quiet(node.args[0]))
        return False

    def roots_of_quiet(self, node):
        n, u = len(self.stmts), len(self.unknown)
        saved = dict(self.lines)
        r = self.roots_of(node)
        del self.stmts[n:]
        del self.unknown[u:]
        self.lines = saved
        return r

    def bind_target(self, tgt, value_roots, value=None):
        if isinstance(tgt, ast.Name):
            if value is not None and self.is_scalar_expr(value) and (tgt.id not in self.cur or tgt.id in self.scalars):
                self.scalars.add(tgt.id)
                self.cur.pop(tgt.id, None)
                return
            self.scalars.discard(tgt.id)
            if value is not None and self.is_new_container(value):
                self.own.add(self.assign_name(tgt.id, value_roots))      # a new list / dict / set holding (aliases of) its elements
                self.arrays.discard(tgt.id)
                self.containers.add(tgt.id)
                return
            self.containers.discard(tgt.id)
            if value is not None and self.is_index_array(value):
                self.arrays.add(tgt.id)
            else:
                self.arrays.discard(tgt.id)
            self.assign_name(tgt.id, value_roots)
        elif isinstance(tgt, (ast.Tuple, ast.List)):
            for t in tgt.elts:
                self.bind_target(t, value_roots)
        elif isinstance(tgt, ast.Starred):
            self.bind_target(tgt.value, value_roots)
        elif isinstance(tgt, ast.Attribute):
            if isinstance(tgt.value, ast.Name) and tgt.value.id == 'self' and self.fn.cls:
                x = self.assign_name('self.' + tgt.attr, value_roots)
                self.attr_binds.append((tgt.attr, x))
                if (tgt.attr in self.hot or '*' in self.hot) and value_roots:
                    # some method of the class family writes self.<attr> in place: whoever stores a caller's
                    # object there is charged with that write
                    self.stmts.append(('mutate', x))
            else:
                # x.attr = ... on an object that is not self: an in-place change of that object, which then holds the value
                if self.is_global_state(tgt.value):
                    self.mutate(value_roots, 'stored in class / module state')
                roots = self.roots_of(tgt.value)
                if not self.own_object(tgt.value):       # an object created here is ours to change; what it holds is tracked below
                    self.mutate(roots, 'attribute assignment')
                if value_roots:
                    for r in roots:
                        self.stmts.append(('bind', r, ('alias', sorted(set(value_roots)))))
        elif isinstance(tgt, ast.Subscript):
            self.roots_of(tgt.slice)
            roots = self.roots_of(tgt.value)
            if self.is_global_state(tgt.value):
                self.mutate(value_roots, 'stored in class / module state')
            if not self.own_object(tgt.value):
                self.mutate(roots, 'item assignment')
            if value_roots:     # a list / dict / object array now holds (an alias of) the value; a numeric array copies it
                for r in roots:
                    if r not in self.numeric:
                        self.stmts.append(('bind', r, ('alias', sorted(set(value_roots)))))

    def visit_Assign(self, node):
        if isinstance(node.value, ast.Lambda):
            rec = self.lower_lambda(node.value)
            for t in node.targets:
                if isinstance(t, ast.Name):
                    self.nested[t.id] = rec
            return
        roots = self.roots_of(node.value)
        cls = self.class_of(node.value)
        sp = self.is_sparse_expr(node.value)
        fv = self.fn_values(node.value) if isinstance(node.value, (ast.Name, ast.Attribute, ast.Call)) else []
        for t in node.targets:
            if isinstance(t, ast.Name):
                if fv and not (isinstance(node.value, ast.Call) and not (isinstance(node.value.func, ast.Name) and node.value.func.id == 'partial')):
                    self.callables[t.id] = fv
                else:
                    self.callables.pop(t.id, None)
        num = self.is_numeric_expr(node.value)
        for t in node.targets:
            self.bind_target(t, roots, node.value)
            if num and isinstance(t, ast.Name):
                self.numeric |= self.cur.get(t.id, set())
            if sp and isinstance(t, ast.Tuple) and t.elts and isinstance(t.elts[0], ast.Name):
                self.sparse |= self.cur.get(t.elts[0].id, set())       # adjacency, bipartite = get_adjacency(...)
            key = t.id if isinstance(t, ast.Name) else ('self.' + t.attr if isinstance(t, ast.Attribute) and isinstance(t.value, ast.Name) and t.value.id == 'self' else None)
            if key is not None:
                if cls:
                    self.types[key] = cls
                else:
                    self.types.pop(key, None)
                if sp:
                    self.sparse |= self.cur.get(key, set())

    def is_sparse_expr(self, node):
        if isinstance(node, ast.Call):
            f = node.func
            nm = f.attr if isinstance(f, ast.Attribute) else (f.id if isinstance(f, ast.Name) else '')
            if nm in SPARSE_MAKERS:
                return True
            if isinstance(f, ast.Attribute) and nm in ('astype', 'copy', 'dot', 'multiply', 'transpose', 'power'):
                return self.is_sparse_expr(f.value)
        if isinstance(node, ast.Attribute) and node.attr == 'T':
            return self.is_sparse_expr(node.value)
        if isinstance(node, ast.Name):
            vs = self.cur.get(node.id, set())
            return bool(vs) and vs <= self.sparse
        if isinstance(node, ast.BinOp):
            return self.is_sparse_expr(node.left) or self.is_sparse_expr(node.right)
        return False

    def visit_AnnAssign(self, node):
        if node.value is not None:
            self.bind_target(node.target, self.roots_of(node.value), node.value)

    def visit_AugAssign(self, node):
        self.roots_of(node.value)
        t = node.target
        if isinstance(t, ast.Name):
            if t.id in self.scalars:
                return
            vs = self.cur.get(t.id, set())
            if vs and vs <= self.sparse and isinstance(node.op, (ast.Add, ast.Sub)):
                # scipy has no in-place sparse addition (self-tested): `a += b` re-binds a to a new matrix;
                # `a *= s`, `a /= s` work on a.data in place and fall through to the write below
                self.assign_name(t.id, [])
                self.sparse |= self.cur[t.id]
                return
            self.mutate(vs)
        elif isinstance(t, ast.Attribute) and isinstance(t.value, ast.Name) and t.value.id == 'self' and self.fn.cls:
            self.mutate(self.self_attr(t.attr))
        else:
            self.mutate(self.roots_of(t.value if isinstance(t, (ast.Subscript, ast.Attribute)) else t))

    # control flow: branches are lowered on copies of the live-version map and merged afterwards;
    # a branch that ends in return / raise / continue / break does not reach the join
    def _branch(self, bodies, extra_starts=()):
        start = {k: set(v) for k, v in self.cur.items()}
        for e in extra_starts:
            for k, v in e.items():
                start.setdefault(k, set()).update(v)
        sc0 = set(self.scalars)
        ends = []
        for body in bodies:
            self.cur = {k: set(v) for k, v in start.items()}
            self.dead = False
            for st in body:
                self.visit(st)
                if self.dead:
                    break
            if not self.dead:
                ends.append(self.cur)
        self.dead = False
        if not ends:
            ends = [start]
            self.dead = True
        merged = {}
        for e in ends:
            for k, v in e.items():
                merged.setdefault(k, set()).update(v)
        self.cur = merged
        self.scalars = {n for n in self.scalars if n not in self.cur} | (sc0 & self.scalars)
        return ends

    def visit_If(self, node):
        self.roots_of(node.test)
        self._branch([node.body, node.orelse])

    def visit_Try(self, node):
        start = {k: set(v) for k, v in self.cur.items()}
        ends = self._branch([node.body + node.orelse])
        after_body = {k: set(v) for k, v in self.cur.items()}
        dead_body = self.dead
        if node.handlers:
            self.cur = start
            self._branch([h.body for h in node.handlers], extra_starts=ends)
            if not dead_body:
                for k, v in after_body.items():
                    self.cur.setdefault(k, set()).update(v)
                self.dead = False
        for st in node.finalbody:
            self.visit(st)

    def _loop(self, body, orelse):
        # twice: the second pass sees the versions created by the first (back edge); zero iterations possible
        self._branch([body, []])
        self._branch([body, []])
        self.dead = False
        for st in orelse:
            self.visit(st)

    def visit_Raise(self, node):
        if node.exc is not None:
            self.roots_of(node.exc)
        self.dead = True

    def visit_Continue(self, node):
        self.dead = True

    def visit_Break(self, node):
        self.dead = True

    def visit_While(self, node):
        self.roots_of(node.test)
        self._loop(node.body, node.orelse)

    def visit_For(self, node):
        it = node.iter
        roots = self.roots_of(it)
        if isinstance(it, ast.Call) and isinstance(it.func, ast.Name) and it.func.id == 'range':
            for n in ast.walk(node.target):
                if isinstance(n, ast.Name):
                    if n.id in self.cur and n.id not in self.scalars:
                        # the name already holds an object (a parameter): after zero iterations it still does
                        keep = set(self.cur[n.id])
                        self.assign_name(n.id, [])
                        self.cur[n.id] |= keep
                    else:
                        self.scalars.add(n.id)
                        self.cur.pop(n.id, None)
            roots = None
        if roots is not None:
            self.bind_target(node.target, roots)
            for n in ast.walk(node.target):
                if isinstance(n, ast.Name):
                    self.loop_items.add(n.id)
        self._loop(node.body, node.orelse)

    def visit_With(self, node):
        for it in node.items:
            r = self.roots_of(it.context_expr)
            if it.optional_vars is not None:
                self.bind_target(it.optional_vars, r)
        for s in node.body:
            self.visit(s)

    def visit_Return(self, node):
        if node.value is not None:
            for r in self.roots_of(node.value):
                self.ret_vars.add(r)
        self.dead = True

    def visit_Expr(self, node):
        self.roots_of(node.value)

    def visit_Delete(self, node):
        for t in node.targets:
            if isinstance(t, ast.Subscript):
                self.mutate(self.roots_of(t.value))

    def visit_FunctionDef(self, node):
        if node is self.fn.node:
            for st in node.body:
                self.visit(st)
                if self.dead:
                    break
            self.dead = False
            return
        # a nested function: its parameters are bound where it is called (or passed)
        self.nested[node.name] = self.lower_nested(node.args, node.body, False)

    visit_AsyncFunctionDef = visit_FunctionDef

    def visit_ClassDef(self, node):
        pass

    def generic_visit(self, node):
        for field, value in ast.iter_fields(node):
            if isinstance(value, list):
                for item in value:
                    if isinstance(item, ast.stmt):
                        self.visit(item)
                    elif isinstance(item, ast.expr):
                        self.roots_of(item)
            elif isinstance(value, ast.stmt):
                self.visit(value)
            elif isinstance(value, ast.expr):
                self.roots_of(value)


class _Kept:
    """pseudo-summary of a constructor: the new object shares memory with the parameters __init__ stores in attributes"""
    def __init__(self, init):
        self.node, self.params, self.is_method, self.qual = init.node, init.params, init.is_method, init.qual
        self.writes, self.ret_alias = set(), set(init.stored_params)


def _kw_true(node, name):
    return any(k.arg == name and isinstance(k.value, ast.Constant) and k.value.value is True for k in node.keywords)


# ---- reviewed exemptions -----------------------------------------------------------------------------------------
# A write the analysis cannot clear although it does not reach the caller's data; pinned to the exact source text of
# the function (sha1 of ast.unparse): any edit of the function voids the exemption. `vars` = the local names whose
# in-place statements are dropped. Reasons are recorded in tools/translate/exemptions.json next to the hashes.
def _sha(node):
    import hashlib
    return hashlib.sha1(ast.unparse(node).encode()).hexdigest()


def load_exemptions():
    import json
    f = os.path.join(os.path.dirname(os.path.abspath(__file__)), 'exemptions.json')
    if not os.path.exists(f):
        return {}
    raw = json.load(open(f))
    return {k: v for k, v in raw.items() if isinstance(v, dict)}


def exempted(fn, lo, exemptions):
    """drop the exempted in-place statements of a reviewed function whose source is unchanged"""
    e = exemptions.get(fn.qual)
    if not e or e.get('sha1') != _sha(fn.node):
        return lo.stmts, False
    keep = [st for st in lo.stmts if not (st[0] == 'mutate' and lo.vars.get(st[1]) in e['vars'])]
    return keep, True


def solve(stmts, nvars, seeds=None):
    """the may-alias fixpoint of `analyse` in Lean (used here only to infer summaries); `seeds`: variable -> labels"""
    A = [set() for _ in range(nvars)]
    for x, s in (seeds or {}).items():
        A[x] |= s
    changed = True
    while changed:
        changed = False
        for s in stmts:
            if s[0] == 'bind':
                x, src = s[1], s[2]
                add = set()
                if src[0] == 'param' and seeds is None:
                    add = {src[1]}
                elif src[0] == 'alias':
                    for y in src[1]:
                        add |= A[y]
                if not add <= A[x]:
                    A[x] |= add
                    changed = True
    return A


def analyse(root, extra_sources=None, use_exemptions=True):
    exemptions = load_exemptions() if use_exemptions else {}
    table = collect(root, extra_sources)
    fns = list(table.fns)
    for _ in range(20):
        changed = False
        for fn in fns:
            lo = Lower(fn, table)
            lo.visit(fn.node)
            lo.stmts, fn.exempt = exempted(fn, lo, exemptions)
            A = solve(lo.stmts, lo.nvars)
            writes = set()
            for s in lo.stmts:
                if s[0] == 'mutate':
                    writes |= A[s[1]]
            ret = set()
            for x in lo.ret_vars:
                ret |= A[x]
            # attributes of self: which are written in place, which receive (aliases of) parameters
            B = solve(lo.stmts, lo.nvars, seeds={x: {a} for a, x in lo.attr_entry.items()})
            attr_writes = set(lo.attr_writes)
            for s in lo.stmts:
                if s[0] == 'mutate':
                    attr_writes |= B[s[1]]
            stored = set()
            for a, x in lo.attr_binds:
                stored |= A[x]
            fn.stmts, fn.vars, fn.ret_vars, fn.unknown_calls = lo.stmts, lo.vars, lo.ret_vars, lo.unknown
            fn.lines = lo.lines
            if writes != fn.writes or ret != fn.ret_alias or attr_writes != fn.attr_writes or stored != fn.stored_params:
                fn.writes, fn.ret_alias, fn.attr_writes, fn.stored_params = writes, ret, attr_writes, stored
                changed = True
        # attributes written in place by some method of the class family
        hot = {}
        for c in table.classes:
            h = set()
            for d in table.family(c):
                for m in table.class_methods.get(d, {}).values():
                    h |= m.attr_writes
            hot[c] = h
        if hot != table.hot_attrs:
            table.hot_attrs = hot
            changed = True
        if not changed:
            break
    else:
        table.unparsed.append('summary fixpoint not reached in 20 rounds')
    return table, fns


def lean_name(s):
    return '"%s"' % s.replace('\\', '/').replace('"', "'")


def _fn_row(fn):
    st = []
    for s in fn.stmts:
        if s[0] == 'bind':
            src = s[2]
            if src[0] == 'fresh':
                st.append('.bind %d .fresh' % s[1])
            elif src[0] == 'param':
                st.append('.bind %d (.param %d)' % (s[1], src[1]))
            else:
                st.append('.bind %d (.alias [%s])' % (s[1], ', '.join(map(str, src[1]))))
        elif s[0] == 'mutate':
            st.append('.mutate %d' % s[1])
        else:
            st.append('.sortIndices %d' % s[1])
    writes = [] if fn.public else sorted(fn.writes)
    nvars = max([s[1] for s in fn.stmts] + [y for s in fn.stmts if s[0] == 'bind' and s[2][0] == 'alias' for y in s[2][1]] + [-1]) + 1
    cert = solve(fn.stmts, nvars)        # proposed here, checked in Lean (`safeWith`)
    return '  { name := %s, nParams := %d, prog := [%s], writes := [%s], retVars := [%s], retAlias := [%s], isPublic := %s, cert := [%s] }' % (
        lean_name(fn.qual), len(fn.params), ', '.join(st), ', '.join(map(str, writes)),
        ', '.join(map(str, sorted(fn.ret_vars))), ', '.join(map(str, sorted(fn.ret_alias))), 'true' if fn.public else 'false',
        ', '.join('[%s]' % ', '.join(map(str, sorted(a))) for a in cert))


def emit(fns, path, namespace='SkNet.Generated.Effects', what='the working tree of /repo'):
    """Write Generated/Effects.lean. Public entry points *declare* that they write nothing."""
    lines = ['/- generated by tools/translate/effects.py from %s — do not edit -/' % what,
             'import SkNet.Model.Ownership', 'namespace ' + namespace, 'open SkNet.Own', '']
    chunk = 40          # one long list literal exceeds the elaborator's recursion depth
    parts = []
    for k in range(0, max(len(fns), 1), chunk):
        parts.append('fns%d' % (k // chunk))
        lines.append('def fns%d : List Fn := [' % (k // chunk))
        lines.append(',\n'.join(_fn_row(fn) for fn in fns[k:k + chunk]))
        lines.append(']')
        lines.append('')
    lines.append('def fns : List Fn := ' + ' ++ '.join(parts))
    lines.append('')
    lines.append('end ' + namespace)
    text = '\n'.join(lines) + '\n'
    os.makedirs(os.path.dirname(path), exist_ok=True)
    if not os.path.exists(path) or open(path).read() != text:
        open(path, 'w').write(text)
    return text


def offenders(fns):
    """public entry points that (according to the inference) may write a caller argument: (name, params)"""
    out = []
    for fn in fns:
        if fn.public and fn.writes:
            out.append((fn.qual, [fn.params[p] for p in sorted(fn.writes) if p < len(fn.params)]))
    return out


def why(fn, table=None):
    """which in-place statements of `fn` reach which parameter (for reports)"""
    A = solve(fn.stmts, max([s[1] for s in fn.stmts] + [0]) + 1)
    out = []
    for i, s in enumerate(fn.stmts):
        if s[0] == 'mutate' and A[s[1]]:
            line, reason = getattr(fn, 'lines', {}).get(i, (0, ''))
            out.append('line %d: %s (%s) -> %s' % (fn.node.lineno + 0 * line if not line else line, fn.vars.get(s[1]), reason,
                                                   [fn.params[p] for p in sorted(A[s[1]]) if p < len(fn.params)]))
    return sorted(set(out))


# ---- self tests ------------------------------------------------------------------------------------------------
def self_test():
    """the sharing / copying / in-place tables against numpy / scipy themselves (one assertion per kind of row)"""
    import numpy as np
    from scipy import sparse
    sm = np.shares_memory

    def fresh_a():
        return sparse.csr_matrix(np.array([[0, 1.], [2, 0]]))
    a = fresh_a()
    d = np.arange(6.).reshape(2, 3)
    checks = {}

    def inplace(name, make, act, read):
        x = make()
        before = read(x).copy()
        act(x)
        checks[name] = not np.array_equal(before, read(x))

    # views / same buffers
    checks['csr_matrix(csr) shares'] = sm(sparse.csr_matrix(a).data, a.data)
    checks['csr_matrix(csr, copy=True) copies'] = not sm(sparse.csr_matrix(a, copy=True).data, a.data)
    checks['tocsr of csr is self'] = a.tocsr() is a
    w = np.array([1., 2.])
    checks['csr_matrix((data, (row, col))) copies'] = not sm(sparse.csr_matrix((w, ([0, 0], [1, 1])), shape=(2, 2)).data, w) and \
        not sm(sparse.csc_matrix((w, ([0, 0], [1, 1])), shape=(2, 2)).data, w)
    checks['coo_matrix((data, (row, col))) shares'] = sm(sparse.coo_matrix((w, ([0, 0], [1, 1])), shape=(2, 2)).data, w)
    checks['tocsc of csc is self'] = (lambda c: c.tocsc() is c)(a.tocsc())
    checks['tocoo of coo is self'] = (lambda c: c.tocoo() is c)(a.tocoo())
    checks['tolil of lil is self'] = (lambda c: c.tolil() is c)(a.tolil())
    checks['tocoo of csr shares'] = sm(a.tocoo().data, a.data)
    checks['T shares'] = sm(a.T.data, a.data)
    checks['asfptype shares'] = sm(a.asfptype().data, a.data)
    checks['astype(copy=False) shares'] = sm(a.astype(float, copy=False).data, a.data)
    checks['asarray shares'] = sm(np.asarray(d), d)
    checks['slice shares'] = sm(d[:1], d)
    checks['integer index is a row view'] = sm(d[int(np.argmax(d[:, 0]))], d)
    checks['ravel shares'] = sm(d.ravel(), d)
    checks['reshape shares'] = sm(d.reshape(3, 2), d)
    checks['moveaxis shares'] = sm(np.moveaxis(d, 0, 1), d)
    checks['require shares'] = sm(np.require(d, dtype=float), d)
    checks['array(copy=None) shares'] = sm(np.array(d, dtype=float, copy=None), d)
    checks['np.diag of a matrix is a view'] = (lambda m: sm(np.diag(m), m))(np.ones((2, 2)))
    checks['dict.setdefault returns the stored object'] = (lambda dd, v: dd.setdefault(0, v) is v)({}, [1])
    checks['dict.get returns the stored object'] = (lambda v: {0: v}.get(0) is v)([1])
    checks['list(x) shares elements'] = (lambda v: list([v])[0] is v)([1])
    # copies
    checks['astype copies'] = not sm(a.astype(float).data, a.data)
    checks['copy copies'] = not sm(a.copy().data, a.data)
    checks['tolil of csr copies'] = (lambda l: (l.__setitem__((0, 1), 9.0), a[0, 1] == 1.0)[1])(a.tolil())
    checks['toarray copies'] = not sm(a.toarray(), a.data)
    checks['dot fresh'] = not sm(a.dot(a).data, a.data)
    checks['multiply fresh'] = not sm(a.multiply(2).data, a.data)
    checks['array copies'] = not sm(np.array(d), d)
    checks['fancy index copies'] = not sm(d[np.array([0, 1])], d) and not sm(d[d[:, 0] >= 0], d)
    checks['hstack fresh'] = not sm(np.hstack((d, d)), d)
    checks['binop fresh'] = not sm(d + 1, d)
    checks['np.sort copies'] = not sm(np.sort(d), d)
    checks['np.clip copies'] = not sm(np.clip(d, 0, 1), d)
    checks['ufunc copies'] = not sm(np.negative(d), d) and not sm(np.sqrt(d), d)
    checks['flatten copies'] = not sm(d.flatten(), d)
    checks['sparse + is fresh'] = not sm((a + a).data, a.data)
    checks['bmat fresh'] = not sm(sparse.bmat([[a, None], [None, a]]).data, a.data)
    checks['diags fresh'] = not sm(sparse.diags(d[0]).data, d)
    # in place
    inplace('sparse *= scalar is in place', fresh_a, lambda x: x.__imul__(3.0), lambda x: x.data)
    inplace('sparse /= scalar is in place', fresh_a, lambda x: x.__itruediv__(2.0), lambda x: x.data)
    x0 = fresh_a()
    x1 = x0
    try:
        x1 += x0
    except NotImplementedError:
        pass
    checks['sparse += rebinds (or is refused)'] = np.array_equal(x0.data, fresh_a().data)
    inplace('out= writes', lambda: np.arange(4.), lambda x: np.divide(x, 2.0, out=x), lambda x: x)
    inplace('positional out writes', lambda: np.arange(4.) + 1, lambda x: np.negative(x, x), lambda x: x)
    inplace('ufunc.at writes', lambda: np.arange(4.), lambda x: np.add.at(x, [0], 1.0), lambda x: x)
    inplace('fill writes', lambda: np.arange(4.), lambda x: x.fill(7), lambda x: x)
    inplace('sort writes', lambda: np.arange(4.)[::-1].copy(), lambda x: x.sort(), lambda x: x)
    inplace('np.fill_diagonal writes', lambda: np.ones((2, 2)), lambda x: np.fill_diagonal(x, 0), lambda x: x)
    inplace('np.random.shuffle writes', lambda: np.arange(50.), lambda x: np.random.RandomState(0).shuffle(x), lambda x: x)
    inplace('np.put writes', lambda: np.arange(4.), lambda x: np.put(x, [0], 9), lambda x: x)
    inplace('np.copyto writes', lambda: np.arange(4.), lambda x: np.copyto(x, 5), lambda x: x)
    inplace('setdiag writes', fresh_a, lambda x: x.setdiag(5), lambda x: x.toarray())
    inplace('eliminate_zeros writes', lambda: sparse.csr_matrix((np.array([0., 1]), np.array([0, 1]), np.array([0, 1, 2])), shape=(2, 2)),
            lambda x: x.eliminate_zeros(), lambda x: np.array([x.nnz]))
    inplace('clip(out) method writes', lambda: np.arange(4.), lambda x: x.clip(1, 2, x), lambda x: x)
    checks['dict.setdefault mutates'] = (lambda dd: (dd.setdefault(0, 1), len(dd) == 1)[1])({})
    checks['dict.update mutates'] = (lambda dd: (dd.update({1: 2}), len(dd) == 1)[1])({})
    checks['dict.pop mutates'] = (lambda dd: (dd.pop(0), len(dd) == 0)[1])({0: 1})
    checks['list.append mutates'] = (lambda l: (l.append(1), len(l) == 1)[1])([])
    return checks


# Regression tests of the lowering: (name, {file: source}, function, expected Fn.ok). Every `False` row is a way of
# writing the caller's data that an earlier version of this translator (or its review) missed.
NEGATIVE_TESTS = [
    ('B1 sparse *= scalar', {'t.py': 'from scipy import sparse\ndef f(input_matrix: sparse.csr_matrix):\n    m = sparse.csr_matrix(input_matrix)\n    m *= 2.0\n    return 0\n'}, 't.f', False),
    ('B1 sparse /= scalar after check_format', {'t.py': 'from scipy import sparse\ndef check_format(x):\n    return sparse.csr_matrix(x)\ndef f(adjacency):\n    adjacency = check_format(adjacency)\n    adjacency /= adjacency.data.max()\n    return 0\n'}, 't.f', False),
    ('B2 self.attr written by a helper method', {'t.py': 'class Est:\n    def fit(self, position_init):\n        self.start_ = position_init\n        self._step()\n        return self\n    def _step(self):\n        self.start_ -= 1\n'}, 't.Est.fit', False),
    ('B2 self.attr written by a later public call', {'t.py': 'class Est:\n    def fit(self, adjacency):\n        self.adjacency = adjacency\n        return self\n    def predict(self):\n        self.adjacency.data[:] = 1\n        return 0\n'}, 't.Est.fit', False),
    ('B2 constructor keeps, method writes', {'t.py': 'class Op:\n    def __init__(self, adjacency):\n        self.adjacency = adjacency\n    def scale(self):\n        self.adjacency *= 2\ndef f(adjacency):\n    op = Op(adjacency)\n    return op\n'}, 't.f', False),
    ('B3 static method writes its argument', {'t.py': 'class Est:\n    @staticmethod\n    def _check(v):\n        v.data[:] = 1\n        return v\n    def predict(self, adjacency_vectors):\n        return self._check(adjacency_vectors)\n'}, 't.Est.predict', False),
    ('B4 out= keyword', {'t.py': 'import numpy as np\ndef f(weights):\n    np.divide(weights, 2.0, out=weights)\n    return 0\n'}, 't.f', False),
    ('B4 positional out of a ufunc', {'t.py': 'import numpy as np\ndef f(row):\n    np.negative(row, row)\n    return 0\n'}, 't.f', False),
    ('B5 ufunc.at', {'t.py': 'import numpy as np\ndef f(weights):\n    np.add.at(weights, [0], 1.0)\n    return 0\n'}, 't.f', False),
    ('B6 dict.setdefault', {'t.py': 'def f(labels: dict):\n    labels.setdefault(0, 0)\n    return 0\n'}, 't.f', False),
    ('B6 dict.update', {'t.py': 'def f(labels: dict):\n    labels.update({0: 1})\n    return 0\n'}, 't.f', False),
    ('B7 tocsc of a CSC is the same object', {'t.py': 'def f(input_matrix):\n    m = input_matrix.tocsc()\n    m.data[:] = 1\n    return 0\n'}, 't.f', False),
    ('B7 tolil', {'t.py': 'def f(input_matrix):\n    m = input_matrix.tolil()\n    m[0, 0] = 1\n    return 0\n'}, 't.f', False),
    ('B8 nested function', {'t.py': 'def f(position_init):\n    def clip(p):\n        p[p > 1] = 1\n    clip(position_init)\n    return 0\n'}, 't.f', False),
    ('B8 lambda through map', {'t.py': 'def f(position_init):\n    list(map(lambda r: r.fill(0.), position_init))\n    return 0\n'}, 't.f', False),
    ('B9 integer index is a view', {'t.py': 'import numpy as np\ndef f(x):\n    i = np.argmax(x[:, 0])\n    x[i][0] = 0.\n    return 0\n'}, 't.f', False),
    ('B9 row variable', {'t.py': 'import numpy as np\ndef f(x):\n    i = np.argmax(x[:, 0])\n    row = x[i]\n    row[0] = 0.\n    return 0\n'}, 't.f', False),
    ('B10 dict literal', {'t.py': "def f(position_init):\n    state = {'p': position_init}\n    state['p'][0] = 0.\n    return 0\n"}, 't.f', False),
    ('B10 list append', {'t.py': 'def f(position_init):\n    l = []\n    l.append(position_init)\n    l[0][0] = 0.\n    return 0\n'}, 't.f', False),
    ('B11 moveaxis', {'t.py': 'import numpy as np\ndef f(x):\n    v = np.moveaxis(x, 0, 1)\n    v[0] = 0\n    return 0\n'}, 't.f', False),
    ('B11 require', {'t.py': 'import numpy as np\ndef f(x):\n    v = np.require(x, dtype=float)\n    v[0] = 0\n    return 0\n'}, 't.f', False),
    ('B11 array(copy=None)', {'t.py': 'import numpy as np\ndef f(x):\n    v = np.array(x, dtype=float, copy=None)\n    v[0] = 0\n    return 0\n'}, 't.f', False),
    ('B12 public method in a .pyx', {'t.pyx': 'cimport cython\ncdef class Paris:\n    cdef int n\n    @cython.boundscheck(False)\n    def fit(self, input_matrix, bint force=False):\n        cdef int i = 0\n        input_matrix.data[:] = 1\n        return self\n'}, 't.Paris.fit', False),
    ('B12 function in a .pyx', {'t.pyx': 'def count(adjacency, bint parallelize=False):\n    cdef int[:] indices = adjacency.indices\n    indices[0] = 0\n    return 0\n'}, 't.count', False),
    ('B13 public method inherited from a private base', {'t.py': 'class _Rank:\n    def fit(self, input_matrix, labels):\n        labels[0] = 0\n        return self\nclass PRClassifier(_Rank):\n    pass\n'}, 't._Rank.fit', False),
    ('B14 kernel whose signature ends in a comment', {'k.pyx': 'def optimize_core(int[:] labels, float[:] data,\n    float resolution):  # pragma: no cover\n    cdef int i\n    labels[0] = 1\n    return labels\n', 't.py': 'from k import optimize_core\ndef f(labels, data):\n    optimize_core(labels, data, 1.)\n    return 0\n'}, 't.f', False),
    ('B14 kernel returns its argument', {'k.pyx': 'def kern(int[:] labels):\n    return labels\n', 't.py': 'from k import kern\ndef f(labels):\n    out = kern(labels)\n    out[0] = 1\n    return 0\n'}, 't.f', False),
    ('B15 unbound method call', {'t.py': 'class P:\n    def fit(self, m, labels):\n        labels[0] = 0\n        return self\nclass Q(P):\n    def fit(self, m, labels):\n        P.fit(self, m, labels)\n        return self\n'}, 't.Q.fit', False),
    ('B15 method of an attribute of unknown class', {'t.py': 'class Emb:\n    def fit_transform(self, adjacency):\n        adjacency.data[:] = 1\n        return adjacency\nclass Clf:\n    def __init__(self, embedding_method):\n        self.embedding_method = embedding_method\n    def fit(self, adjacency):\n        e = self.embedding_method.fit_transform(adjacency)\n        return self\n'}, 't.Clf.fit', False),
    ('unknown function', {'t.py': 'from somewhere import mystery\ndef f(x):\n    mystery(x)\n    return 0\n'}, 't.f', False),
    ('unknown method', {'t.py': 'def f(x):\n    x.frobnicate()\n    return 0\n'}, 't.f', False),
    ('result of an unknown function', {'t.py': 'from somewhere import mystery\ndef f(x, y):\n    v = mystery(y)\n    return 0\n'}, 't.f', False),
    ('control: item assignment', {'t.py': 'def f(x):\n    x[0] = 1\n    return 0\n'}, 't.f', False),
    ('control: augmented assignment', {'t.py': 'def f(x):\n    x -= 1\n    return 0\n'}, 't.f', False),
    ('control: alias then write', {'t.py': 'def f(position_init):\n    position = position_init\n    position[0] = 0\n    return 0\n'}, 't.f', False),
    ('control: data attribute', {'t.py': 'def f(input_matrix):\n    input_matrix.data *= 2\n    return 0\n'}, 't.f', False),
    ('control: astype(copy=False)', {'t.py': 'def f(x):\n    v = x.astype(float, copy=False)\n    v[0] = 0\n    return 0\n'}, 't.f', False),
    ('control: in-place method', {'t.py': 'def f(x):\n    x.sort()\n    return 0\n'}, 't.f', False),
    # second review (M3): probes P15, P4, P62, P14, P78 / P30, P1, P27, P28, P25, P41
    ('P15 repository function passed to map', {'t.py': 'def helper(x):\n    x[0] = 0\ndef f(rows):\n    list(map(helper, rows))\n    return 0\n'}, 't.f', False),
    ('P15 partial + pool.map', {'t.py': 'from functools import partial\nfrom multiprocessing import Pool\ndef helper(adjacency, seed):\n    adjacency.data[:] = seed\ndef f(adjacency, seeds):\n    with Pool(2) as pool:\n        out = pool.map(partial(helper, adjacency), seeds)\n    return out\n'}, 't.f', False),
    ('P15 partial bound to a name', {'t.py': 'from functools import partial\ndef helper(adjacency, seed):\n    seed[0] = 1\ndef f(adjacency, seeds, pool):\n    local = partial(helper, adjacency)\n    return pool.map(local, seeds)\n'}, 't.f', False),
    ('P15 bound method passed to map', {'t.py': 'class Est:\n    def step(self, row):\n        row[0] = 0\n    def fit(self, rows):\n        list(map(self.step, rows))\n        return self\n'}, 't.Est.fit', False),
    ('P4 attribute store on another object', {'t.py': 'class Box:\n    pass\ndef f(labels):\n    o = Box()\n    o.l = labels\n    o.l[0] = 1\n    return 0\n'}, 't.f', False),
    ('P4 attribute store then augmented assignment', {'t.py': 'class Est:\n    pass\ndef f(labels):\n    e = Est()\n    e.labels_ = labels\n    e.labels_ += 1\n    return e\n'}, 't.f', False),
    ('P62 self handed to a writer', {'t.py': 'def helper(est):\n    est.adjacency.data[:] = 0\nclass Est:\n    def fit(self, adjacency):\n        self.adjacency = adjacency\n        helper(self)\n        return self\n'}, 't.Est.fit', False),
    ('P14 list * 2', {'t.py': 'def f(position_init):\n    l = [position_init] * 2\n    l[0][0] = 0.\n    return 0\n'}, 't.f', False),
    ('P14 list + list', {'t.py': 'def f(position_init):\n    l = [] + [position_init]\n    l[0][0] = 0.\n    return 0\n'}, 't.f', False),
    ('P78 class-level state', {'t.py': 'class E:\n    cache = []\ndef f(x):\n    E.cache.append(x)\n    E.cache[0][0] = 0\n    return 0\n'}, 't.f', False),
    ('P30 module-level state', {'t.py': 'CACHE = {}\ndef f(x):\n    CACHE[0] = x\n    CACHE[0][0] = 0\n    return 0\n'}, 't.f', False),
    ('P1 random scalar index', {'t.py': 'import numpy as np\ndef f(x):\n    i = np.random.choice(len(x))\n    row = x[i]\n    row[0] = 0.\n    return 0\n'}, 't.f', False),
    ('P1b element of an index array', {'t.py': 'import numpy as np\ndef f(x, order):\n    idx = np.argsort(order)\n    for k in order:\n        row = x[idx[k]]\n        row[0] = 0.\n    return 0\n'}, 't.f', False),
    ('P27 constant default', {'t.py': 'def f(weights=1):\n    weights[0] = 0\n    return 0\n'}, 't.f', False),
    ('P27 Union[int, list] default', {'t.py': 'from typing import Union\ndef f(source: Union[int, list] = 0):\n    source[0] = 0\n    return 0\n'}, 't.f', False),
    ('P28 range variable shadows a parameter', {'t.py': 'def f(i):\n    for i in range(0):\n        pass\n    i[0] = 1\n    return 0\n'}, 't.f', False),
    ('P25 np.ndarray.sort', {'t.py': 'import numpy as np\ndef f(x):\n    np.ndarray.sort(x)\n    return 0\n'}, 't.f', False),
    ('P41 item of a dict', {'t.py': 'import numpy as np\ndef f(d: dict, k: np.ndarray):\n    v = d[k]\n    v[0] = 0\n    return 0\n'}, 't.f', False),
    ('constructor that writes its argument', {'t.py': 'class Op:\n    def __init__(self, adjacency):\n        adjacency.data[:] = 1\n        self.n = 1\n'}, 't.Op.__init__', False),
    ('ok: map of a pure repository function', {'t.py': 'def helper(x):\n    return x.sum()\ndef f(rows):\n    return list(map(helper, rows))\n'}, 't.f', True),
    ('ok: index array from argsort copies', {'t.py': 'import numpy as np\ndef f(x, order):\n    idx = np.argsort(order)\n    v = x[idx[1:]]\n    v[0] = 0\n    return 0\n'}, 't.f', True),
    # the same shapes with a copy first are accepted (the tests above are not vacuous)
    ('ok: copy then write', {'t.py': 'def f(position_init):\n    position = position_init.copy()\n    position[0] = 0\n    position -= 1\n    return position\n'}, 't.f', True),
    ('ok: astype then write', {'t.py': 'def f(input_matrix):\n    m = input_matrix.astype(float)\n    m.data[:] = 1\n    m *= 2\n    return m\n'}, 't.f', True),
    ('ok: np.array then sort', {'t.py': 'import numpy as np\ndef f(x):\n    v = np.array(x)\n    v.sort()\n    np.negative(v, v)\n    return v\n'}, 't.f', True),
    ('ok: sort_indices is tolerated', {'t.py': 'def f(adjacency):\n    adjacency.sort_indices()\n    return 0\n'}, 't.f', True),
    ('ok: fancy index copies', {'t.py': 'import numpy as np\ndef f(x, labels):\n    mask = labels >= 0\n    v = x[mask]\n    v[0] = 0\n    w = x[np.argsort(labels)]\n    w[0] = 0\n    return 0\n'}, 't.f', True),
    ('ok: attribute keeps, nobody writes', {'t.py': 'class Op:\n    def __init__(self, adjacency):\n        self.adjacency = adjacency\n    def dot(self, x):\n        return self.adjacency.dot(x)\ndef f(adjacency, x):\n    return Op(adjacency).dot(x)\n'}, 't.f', True),
    ('ok: attribute holds a copy, method writes', {'t.py': 'class Est:\n    def fit(self, position_init):\n        self.start_ = position_init.copy()\n        self._step()\n        return self\n    def _step(self):\n        self.start_ -= 1\n'}, 't.Est.fit', True),
    ('ok: nested function on a copy', {'t.py': 'def f(position_init):\n    def clip(p):\n        p[p > 1] = 1\n    q = position_init.copy()\n    clip(q)\n    return q\n'}, 't.f', True),
    ('ok: kernel on a copy', {'k.pyx': 'def kern(int[:] labels):\n    labels[0] = 1\n', 't.py': 'from k import kern\ndef f(labels):\n    l = labels.copy()\n    kern(l)\n    return l\n'}, 't.f', True),
]


def negative_test_fns():
    """(test name, expected ok, FnInfo) for every regression test; a missing function is reported as expected-ok None"""
    out = []
    for name, sources, qual, expect in NEGATIVE_TESTS:
        table, fns = analyse(None, extra_sources=sources, use_exemptions=False)
        hit = [f for f in fns if f.qual == qual]
        if not hit or table.unparsed:
            out.append((name, None, None))
            continue
        fn = hit[0]
        fn.public = True
        fn.qual = name
        out.append((name, expect, fn))
    return out


def pin_exemptions(root):
    """(re)compute the source hashes of the exempted functions — run by hand after reviewing them"""
    import json
    f = os.path.join(os.path.dirname(os.path.abspath(__file__)), 'exemptions.json')
    ex = json.load(open(f)) if os.path.exists(f) else {}
    table = collect(root)
    for fn in table.fns:
        if fn.qual in ex and isinstance(ex[fn.qual], dict):
            ex[fn.qual]['sha1'] = _sha(fn.node)
    json.dump(ex, open(f, 'w'), indent=1)
    return {k: v.get('sha1') for k, v in ex.items() if isinstance(v, dict)}


if __name__ == '__main__':
    import sys
    if len(sys.argv) > 2 and sys.argv[2] == '--pin':
        print(pin_exemptions(sys.argv[1]))
        sys.exit(0)
    root = sys.argv[1] if len(sys.argv) > 1 else '/repo'
    table, fns = analyse(root)
    print(len(fns), 'functions;', sum(1 for f in fns if f.public), 'public;', table.unresolved, 'method calls resolved by name only;',
          sum(len(f.unknown_calls) for f in fns), 'unknown calls;', 'unparsed:', table.unparsed)
    for q, ps in offenders(fns):
        fn = [f for f in fns if f.qual == q][0]
        print('WRITES', q, ps, why(fn))
    unk = {}
    for f in fns:
        for line, text in f.unknown_calls:
            unk.setdefault(text, []).append(f.qual.split('.')[-1])
    for t, w in sorted(unk.items()):
        print('UNKNOWN', t, sorted(set(w))[:4])
    print('table self-test failures:', {k: v for k, v in self_test().items() if not v})
    for name, expect, fn in negative_test_fns():
        got = None if fn is None else not fn.writes
        if got != expect:
            print('REGRESSION TEST FAILS:', name, 'expected ok =', expect, 'got', got)
