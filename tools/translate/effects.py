"""Translator for C01: Python source -> ownership programs (lean/SkNet/Generated/Effects.lean).

For every function / method of the working tree (tests excluded) it emits the statements of
SkNet/Model/Ownership.lean:  bind x fresh | bind x (param p) | bind x (alias ys) | mutate x | sortIndices x
Control flow is dropped (the Lean semantics runs the statements in any order, any number of times).
Calls to functions of the repository are replaced by the callee's declared summary
(writes = parameters it may write, retAlias = parameters its result may share memory with); summaries are
inferred here by a fixpoint and *checked* in Lean (`Fn.ok`), so a wrong inference is caught there.

Trusted: the tables below (which numpy / scipy operations copy, which return views or the same buffers,
which methods work in place) — self-tested against `np.shares_memory` by `self_test()` on every run — and the
lowering itself. Calls into numpy / scipy that are in no table are taken to return fresh data.
"""
import ast
import os
import re

# methods / functions returning data that may share memory with their receiver / first argument
VIEW_METHODS = {'tocsr', 'transpose', 'reshape', 'ravel', 'squeeze', 'view', 'get', 'setdefault', 'asformat',
                'tocsc_shared', 'asfptype', 'conj', 'conjugate', 'swapaxes', 'diagonal', 'values', 'items', 'keys'}
VIEW_FUNCS = {'csr_matrix', 'csc_matrix', 'coo_matrix', 'asarray', 'asanyarray', 'ascontiguousarray', 'atleast_1d',
              'atleast_2d', 'ravel', 'reshape', 'squeeze', 'transpose', 'check_array'}
VIEW_ATTRS = {'T', 'data', 'indices', 'indptr', 'row', 'col', 'rows', 'real', 'imag', 'flat', 'A', 'H'}
# in-place methods
INPLACE_METHODS = {'eliminate_zeros', 'sum_duplicates', 'setdiag', 'resize', 'sort', 'fill', 'put', 'itemset',
                   'partition', 'update', 'pop', 'popitem', 'clear', 'append', 'extend', 'insert', 'remove', 'reverse',
                   'prune', 'setflags', 'byteswap'}
SORT_INDICES = {'sort_indices'}
INPLACE_FUNCS = {'fill_diagonal', 'shuffle', 'put', 'place', 'putmask', 'copyto'}
SCALAR_CALLS = {'len', 'int', 'float', 'bool', 'str', 'min', 'max', 'abs', 'round', 'sum', 'range', 'type', 'isinstance',
                'hasattr', 'getattr', 'id', 'hash'}
SCALAR_ANN = ('int', 'float', 'bool', 'str')
SPARSE_MAKERS = {'csr_matrix', 'csc_matrix', 'coo_matrix', 'lil_matrix', 'diags', 'eye', 'identity', 'bmat', 'check_format',
                 'tocsr', 'tocsc', 'tocoo', 'tolil', 'get_adjacency', 'bipartite2undirected', 'bipartite2directed',
                 'directed2undirected', 'get_membership', 'normalize', 'get_laplacian', 'random'}


def _root(node):
    """root variable name of an attribute / subscript chain; 'self.attr' for estimator state"""
    chain = []
    while isinstance(node, (ast.Attribute, ast.Subscript, ast.Starred)):
        if isinstance(node, ast.Attribute):
            chain.append(node.attr)
        node = node.value
    if isinstance(node, ast.Name):
        if node.id == 'self' and chain:
            return 'self.' + chain[-1]
        return node.id
    if isinstance(node, ast.Call):
        return node       # e.g. f(x)[0] : handled by the caller
    return None


class FnInfo:
    def __init__(self, qual, module, cls, node, public):
        self.qual, self.module, self.cls, self.node, self.public = qual, module, cls, node, public
        a = node.args
        params = [p.arg for p in a.posonlyargs + a.args + a.kwonlyargs]
        if a.vararg:
            params.append(a.vararg.arg)
        if a.kwarg:
            params.append(a.kwarg.arg)
        self.is_method = cls is not None and params and params[0] in ('self', 'cls')
        self.params = params[1:] if self.is_method else params
        self.ann = {}
        self.scalar_params = set()
        self.sparse_params = set()
        allp = a.posonlyargs + a.args + a.kwonlyargs
        defaults = [None] * (len(a.posonlyargs + a.args) - len(a.defaults)) + list(a.defaults) + list(a.kw_defaults)
        for p, d in zip(allp, defaults):
            ann = ast.unparse(p.annotation) if p.annotation is not None else ''
            if ('csr_matrix' in ann or 'sparse' in ann) and 'ndarray' not in ann:
                self.sparse_params.add(p.arg)
            if ann and all(t.strip() in SCALAR_ANN or t.strip() == 'None' for t in re.split(r'[\[\],|]| or ', ann.replace('Optional', '').replace('Union', '')) if t.strip()):
                self.scalar_params.add(p.arg)
            elif not ann and isinstance(d, ast.Constant) and d.value is not None and not isinstance(d.value, (bytes,)):
                self.scalar_params.add(p.arg)
            elif isinstance(d, ast.Constant) and isinstance(d.value, (bool, int, float, str)) and 'ndarray' not in ann and 'matrix' not in ann and 'dict' not in ann.lower() and 'Iterable' not in ann:
                self.scalar_params.add(p.arg)
        self.writes = set()      # param indices
        self.ret_alias = set()
        self.stmts = []
        self.vars = {}
        self.ret_vars = set()


class Lower(ast.NodeVisitor):
    """lowers one function body to ownership statements, using the current summaries of callees.
    Variables are versioned (a new index per assignment, merged at control-flow joins), so re-binding a
    name to fresh data before writing to it is seen as such although the Lean semantics ignores order."""

    def __init__(self, fn, table):
        self.fn = fn
        self.table = table
        self.stmts = []
        self.nvars = 0
        self.cur = {}               # name -> set of live version indices
        self.scalars = set(fn.scalar_params)
        self.ret_vars = set()
        self.vars = {}              # index -> name (for reports)
        self.line = 0
        self.dead = False
        self.loop_items = set()     # names bound by `for x in <array>` (elements: scalars or row views)
        self.types = {}             # name -> repository class of the object it holds
        self.sparse = set()         # version indices known to hold scipy sparse matrices
        self.mut_lines = {}         # statement position -> source line
        for i, p in enumerate(fn.params):
            x = self.new(p)
            self.cur[p] = {x}
            self.stmts.append(('bind', x, ('param', i)))
            if p in fn.sparse_params:
                self.sparse.add(x)

    def visit(self, node):
        if hasattr(node, 'lineno'):
            self.line = node.lineno
        return super().visit(node)

    def new(self, name):
        x = self.nvars
        self.nvars += 1
        self.vars[x] = name
        return x

    # ---- expressions --------------------------------------------------------------------------
    def roots_of(self, node):
        """variable indices the value of `node` may share memory with (empty = fresh)"""
        if node is None:
            return []
        if isinstance(node, ast.Name):
            if node.id in self.scalars:
                return []
            return sorted(self.cur.get(node.id, ()))
        if isinstance(node, ast.Attribute):
            if isinstance(node.value, ast.Name) and node.value.id == 'self':
                return sorted(self.cur.get('self.' + node.attr, ()))
            if node.attr in ('shape', 'nnz', 'dtype', 'size', 'ndim', 'format'):
                return []
            return self.roots_of(node.value)
        if isinstance(node, ast.Subscript):
            self.roots_of(node.slice)
            if self.is_fancy(node.slice):
                return []      # advanced indexing copies
            return self.roots_of(node.value)
        if isinstance(node, ast.Starred):
            return self.roots_of(node.value)
        if isinstance(node, ast.IfExp):
            self.roots_of(node.test)
            return self.roots_of(node.body) + self.roots_of(node.orelse)
        if isinstance(node, ast.BoolOp):
            out = []
            for v in node.values:
                out += self.roots_of(v)
            return out
        if isinstance(node, (ast.Tuple, ast.List, ast.Set)):
            out = []
            for v in node.elts:
                out += self.roots_of(v)
            return out
        if isinstance(node, ast.Dict):
            for v in list(node.keys) + list(node.values):
                self.roots_of(v)
            return []
        if isinstance(node, ast.NamedExpr):
            r = self.roots_of(node.value)
            self.bind_target(node.target, r, node.value)
            return r
        if isinstance(node, ast.Call):
            return self.call_roots(node)
        if isinstance(node, (ast.BinOp,)):
            self.roots_of(node.left)
            self.roots_of(node.right)
            return []
        if isinstance(node, ast.UnaryOp):
            self.roots_of(node.operand)
            return []
        if isinstance(node, ast.Compare):
            self.roots_of(node.left)
            for c in node.comparators:
                self.roots_of(c)
            return []
        if isinstance(node, (ast.ListComp, ast.SetComp, ast.GeneratorExp, ast.DictComp)):
            for g in node.generators:
                r = self.roots_of(g.iter)
                self.bind_target(g.target, r)
                for c in g.ifs:
                    self.roots_of(c)
            if isinstance(node, ast.DictComp):
                self.roots_of(node.key)
                self.roots_of(node.value)
            else:
                self.roots_of(node.elt)
            return []
        return []   # Constant, lambda, f-strings ... : fresh

    def call_roots(self, node):
        f = node.func
        args = list(node.args) + [k.value for k in node.keywords]
        arg_roots = [self.roots_of(a) for a in args]      # also lowers nested calls (their effects)
        self.call_effects(node)
        if isinstance(f, ast.Attribute):
            name = f.attr
            recv = self.roots_of(f.value)
            if name in VIEW_METHODS:
                return recv
            callee = self.resolve_method(f)
            if callee:
                return self.summary_roots(callee, node)
            if name in VIEW_FUNCS and args:
                if name in ('csr_matrix', 'csc_matrix', 'coo_matrix') and _kw_true(node, 'copy'):
                    return []
                return arg_roots[0]
            if name == 'array' and _kw_false(node, 'copy') and args:
                return arg_roots[0]
            if name in ('astype', 'tocoo', 'tocsc') and _kw_false(node, 'copy'):
                return recv
            if name == 'tocoo':
                return recv            # csr.tocoo() shares the data buffer (self-test)
            return []
        if isinstance(f, ast.Name):
            name = f.id
            callee = self.table.resolve(name, method=False)
            if callee:
                return self.summary_roots(callee, node)
            if name in self.table.classes:
                out = []
                for r in arg_roots:
                    out += r
                return out
            if name in VIEW_FUNCS and args:
                return arg_roots[0]
            return []
        self.roots_of(f)
        return []

    def class_of(self, node):
        """class of the object an expression evaluates to, when it is syntactically evident"""
        if isinstance(node, ast.Name):
            if node.id == 'self':
                return self.fn.cls
            return self.types.get(node.id)
        if isinstance(node, ast.Attribute) and isinstance(node.value, ast.Name) and node.value.id == 'self':
            return self.types.get('self.' + node.attr) or (self.table.attr_type(self.fn.cls, node.attr) if self.fn.cls else None)
        if isinstance(node, ast.Call):
            f = node.func
            if isinstance(f, ast.Name):
                if f.id in self.table.classes:
                    return f.id
                if f.id == 'super' and self.fn.cls:
                    bs = self.table.bases.get(self.fn.cls, [])
                    return bs[0] if bs else None
            if isinstance(f, ast.Attribute) and f.attr in ('fit',):      # est.fit(...) returns est
                return self.class_of(f.value)
        return None

    def resolve_method(self, f):
        """FnInfo list for a method call `recv.name(...)`, or None when the receiver's class is unknown"""
        name = f.attr
        cls = self.class_of(f.value)
        if cls is not None:
            return self.table.method_of(cls, name)
        if name in self.table.by_name and name not in ARRAY_METHOD_NAMES and isinstance(f.value, ast.Name) and f.value.id not in self.cur:
            return self.table.by_name[name]        # module.function(...)
        if any(name in ms for ms in self.table.class_methods.values()) and name not in ARRAY_METHOD_NAMES:
            self.table.unresolved += 1
        return None

    def is_fancy(self, sl):
        """index expressions that select with an array / list / boolean mask (numpy copies)"""
        if isinstance(sl, ast.Tuple):
            return any(self.is_fancy(e) for e in sl.elts)
        if isinstance(sl, (ast.Slice, ast.Constant)):
            return False
        if isinstance(sl, ast.Name):
            return sl.id not in self.scalars and sl.id in self.cur and sl.id not in self.loop_items
        if isinstance(sl, (ast.Compare, ast.List, ast.ListComp)):
            return True
        if isinstance(sl, ast.Call):
            f = sl.func
            nm = f.attr if isinstance(f, ast.Attribute) else (f.id if isinstance(f, ast.Name) else '')
            return nm in ('argsort', 'where', 'flatnonzero', 'nonzero', 'arange', 'array', 'unique', 'argpartition', 'permutation', 'astype')
        if isinstance(sl, ast.UnaryOp):
            return self.is_fancy(sl.operand)
        return False

    def summary_roots(self, callees, node):
        out = []
        for c in callees:
            amap = self.arg_map(c, node)
            for p in c.ret_alias:
                if p in amap:
                    out += self.roots_of_noeffect(amap[p])
        return out

    def roots_of_noeffect(self, node):
        """roots of an argument expression that was already lowered (do not emit its effects twice)"""
        n = len(self.stmts)
        r = self.roots_of(node)
        del self.stmts[n:]
        return r

    def arg_map(self, callee, node):
        amap = {}
        for i, a in enumerate(node.args):
            if isinstance(a, ast.Starred):
                break
            if i < len(callee.params):
                amap[i] = a
        for k in node.keywords:
            if k.arg in callee.params:
                amap[callee.params.index(k.arg)] = k.value
        return amap

    def call_effects(self, node):
        f = node.func
        callees = None
        if isinstance(f, ast.Attribute):
            name = f.attr
            if name in SORT_INDICES:
                for r in self.roots_of_noeffect(f.value):
                    self.stmts.append(('sortIndices', r))
                return
            if name in INPLACE_METHODS:
                for r in self.roots_of_noeffect(f.value):
                    self.stmts.append(('mutate', r))
                return
            if name in INPLACE_FUNCS and node.args:
                for r in self.roots_of_noeffect(node.args[0]):
                    self.stmts.append(('mutate', r))
                return
            callees = self.resolve_method(f)
        elif isinstance(f, ast.Name):
            callees = self.table.resolve(f.id, method=False)
            if f.id in INPLACE_FUNCS and node.args:
                for r in self.roots_of_noeffect(node.args[0]):
                    self.stmts.append(('mutate', r))
        for c in callees or []:
            amap = self.arg_map(c, node)
            for p in c.writes:
                if p in amap:
                    for r in self.roots_of_noeffect(amap[p]):
                        self.stmts.append(('mutate', r))

    # ---- statements ---------------------------------------------------------------------------
    def is_scalar_expr(self, node):
        if isinstance(node, ast.Constant):
            return True
        if isinstance(node, ast.Name):
            return node.id in self.scalars
        if isinstance(node, ast.Call) and isinstance(node.func, ast.Name) and node.func.id in SCALAR_CALLS:
            return True
        if isinstance(node, ast.Attribute) and node.attr in ('nnz', 'size', 'ndim'):
            return True
        if isinstance(node, ast.Subscript) and isinstance(node.value, ast.Attribute) and node.value.attr == 'shape':
            return True
        if isinstance(node, ast.BinOp):
            return self.is_scalar_expr(node.left) and self.is_scalar_expr(node.right)
        if isinstance(node, ast.UnaryOp):
            return self.is_scalar_expr(node.operand)
        if isinstance(node, (ast.Compare, ast.BoolOp)):
            return True
        return False

    def assign_name(self, name, value_roots):
        x = self.new(name)
        self.stmts.append(('bind', x, ('alias', sorted(set(value_roots))) if value_roots else ('fresh',)))
        self.cur[name] = {x}

    def bind_target(self, tgt, value_roots, value=None):
        if isinstance(tgt, ast.Name):
            if value is not None and self.is_scalar_expr(value) and (tgt.id not in self.cur or tgt.id in self.scalars):
                self.scalars.add(tgt.id)
                self.cur.pop(tgt.id, None)
                return
            self.scalars.discard(tgt.id)
            self.assign_name(tgt.id, value_roots)
        elif isinstance(tgt, (ast.Tuple, ast.List)):
            for t in tgt.elts:
                self.bind_target(t, value_roots)
        elif isinstance(tgt, ast.Starred):
            self.bind_target(tgt.value, value_roots)
        elif isinstance(tgt, ast.Attribute):
            if isinstance(tgt.value, ast.Name) and tgt.value.id == 'self':
                self.assign_name('self.' + tgt.attr, value_roots)
            else:
                # x.attr = ... on an object that is not self: an in-place change of that object
                for r in self.roots_of(tgt.value):
                    self.stmts.append(('mutate', r))
        elif isinstance(tgt, ast.Subscript):
            self.roots_of(tgt.slice)
            for r in self.roots_of(tgt.value):
                self.stmts.append(('mutate', r))

    def visit_Assign(self, node):
        roots = self.roots_of(node.value)
        cls = self.class_of(node.value)
        sp = self.is_sparse_expr(node.value)
        for t in node.targets:
            self.bind_target(t, roots, node.value)
            key = t.id if isinstance(t, ast.Name) else ('self.' + t.attr if isinstance(t, ast.Attribute) and isinstance(t.value, ast.Name) and t.value.id == 'self' else None)
            if key is not None:
                if cls:
                    self.types[key] = cls
                else:
                    self.types.pop(key, None)
                if sp:
                    self.sparse |= self.cur.get(key, set())

    def is_sparse_expr(self, node):
        if isinstance(node, ast.Call):
            f = node.func
            nm = f.attr if isinstance(f, ast.Attribute) else (f.id if isinstance(f, ast.Name) else '')
            if nm in SPARSE_MAKERS:
                return True
            if isinstance(f, ast.Attribute) and nm in ('astype', 'copy', 'dot', 'multiply', 'transpose', 'power') :
                return self.is_sparse_expr(f.value)
        if isinstance(node, ast.Attribute) and node.attr == 'T':
            return self.is_sparse_expr(node.value)
        if isinstance(node, ast.Name):
            vs = self.cur.get(node.id, set())
            return bool(vs) and vs <= self.sparse
        if isinstance(node, ast.BinOp):
            return self.is_sparse_expr(node.left) or self.is_sparse_expr(node.right)
        return False

    def visit_AnnAssign(self, node):
        if node.value is not None:
            self.bind_target(node.target, self.roots_of(node.value), node.value)

    def visit_AugAssign(self, node):
        self.roots_of(node.value)
        t = node.target
        if isinstance(t, ast.Name):
            if t.id in self.scalars:
                return
            vs = self.cur.get(t.id, set())
            if vs and vs <= self.sparse:
                # scipy sparse matrices have no in-place arithmetic: `a += b` rebinds a to a new matrix
                self.assign_name(t.id, [])
                self.sparse |= self.cur[t.id]
                return
            for r in sorted(vs):
                self.stmts.append(('mutate', r))
        elif isinstance(t, ast.Attribute) and isinstance(t.value, ast.Name) and t.value.id == 'self':
            for r in sorted(self.cur.get('self.' + t.attr, ())):
                self.stmts.append(('mutate', r))
        else:
            for r in self.roots_of(t.value if isinstance(t, (ast.Subscript, ast.Attribute)) else t):
                self.stmts.append(('mutate', r))

    # control flow: branches are lowered on copies of the live-version map and merged afterwards;
    # a branch that ends in return / raise / continue / break does not reach the join
    def _branch(self, bodies, extra_starts=()):
        start = {k: set(v) for k, v in self.cur.items()}
        for e in extra_starts:
            for k, v in e.items():
                start.setdefault(k, set()).update(v)
        sc0 = set(self.scalars)
        ends = []
        for body in bodies:
            self.cur = {k: set(v) for k, v in start.items()}
            self.dead = False
            for st in body:
                self.visit(st)
                if self.dead:
                    break
            if not self.dead:
                ends.append(self.cur)
        self.dead = False
        if not ends:
            ends = [start]
            self.dead = True
        merged = {}
        for e in ends:
            for k, v in e.items():
                merged.setdefault(k, set()).update(v)
        self.cur = merged
        self.scalars = {n for n in self.scalars if n not in self.cur} | (sc0 & self.scalars)
        return ends

    def visit_If(self, node):
        self.roots_of(node.test)
        self._branch([node.body, node.orelse])

    def visit_Try(self, node):
        start = {k: set(v) for k, v in self.cur.items()}
        ends = self._branch([node.body + node.orelse])
        after_body = {k: set(v) for k, v in self.cur.items()}
        dead_body = self.dead
        if node.handlers:
            self.cur = start
            self._branch([h.body for h in node.handlers], extra_starts=ends)
            if not dead_body:
                for k, v in after_body.items():
                    self.cur.setdefault(k, set()).update(v)
                self.dead = False
        for st in node.finalbody:
            self.visit(st)

    def _loop(self, body, orelse):
        # twice: the second pass sees the versions created by the first (back edge); zero iterations possible
        self._branch([body, []])
        self._branch([body, []])
        self.dead = False
        for st in orelse:
            self.visit(st)

    def visit_Raise(self, node):
        if node.exc is not None:
            self.roots_of(node.exc)
        self.dead = True

    def visit_Continue(self, node):
        self.dead = True

    def visit_Break(self, node):
        self.dead = True

    def visit_While(self, node):
        self.roots_of(node.test)
        self._loop(node.body, node.orelse)

    def visit_For(self, node):
        it = node.iter
        roots = self.roots_of(it)
        if isinstance(it, ast.Call) and isinstance(it.func, ast.Name) and it.func.id in ('range', 'enumerate', 'zip'):
            if it.func.id == 'range':
                for n in ast.walk(node.target):
                    if isinstance(n, ast.Name):
                        self.scalars.add(n.id)
                        self.cur.pop(n.id, None)
                roots = None
            else:
                roots = []
                for a in it.args:
                    roots += self.roots_of_noeffect(a)
        if roots is not None:
            self.bind_target(node.target, roots)
            for n in ast.walk(node.target):
                if isinstance(n, ast.Name):
                    self.loop_items.add(n.id)
        self._loop(node.body, node.orelse)

    def visit_With(self, node):
        for it in node.items:
            r = self.roots_of(it.context_expr)
            if it.optional_vars is not None:
                self.bind_target(it.optional_vars, r)
        for s in node.body:
            self.visit(s)

    def visit_Return(self, node):
        if node.value is not None:
            for r in self.roots_of(node.value):
                self.ret_vars.add(r)
        self.dead = True

    def visit_Expr(self, node):
        self.roots_of(node.value)

    def visit_Delete(self, node):
        for t in node.targets:
            if isinstance(t, ast.Subscript):
                for r in self.roots_of(t.value):
                    self.stmts.append(('mutate', r))

    def visit_FunctionDef(self, node):
        # the function itself, and nested functions (closures share the enclosing variables)
        for st in node.body:
            self.visit(st)
            if self.dead:
                break
        self.dead = False

    visit_AsyncFunctionDef = visit_FunctionDef

    def generic_visit(self, node):
        for field, value in ast.iter_fields(node):
            if isinstance(value, list):
                for item in value:
                    if isinstance(item, ast.stmt):
                        self.visit(item)
                    elif isinstance(item, ast.expr):
                        self.roots_of(item)
            elif isinstance(value, ast.stmt):
                self.visit(value)
            elif isinstance(value, ast.expr):
                self.roots_of(value)


def _kw_true(node, name):
    return any(k.arg == name and isinstance(k.value, ast.Constant) and k.value.value is True for k in node.keywords)


def _kw_false(node, name):
    return any(k.arg == name and isinstance(k.value, ast.Constant) and k.value.value is False for k in node.keywords)


class Table:
    def __init__(self):
        self.by_name = {}
        self.classes = set()
        self.bases = {}            # class -> base class names
        self.class_methods = {}    # class -> {method name: FnInfo}
        self.attr_types = {}       # class -> {attribute: class name} (from `self.x = ClassName(...)`)
        self.fns = []
        self.unresolved = 0

    def add(self, fn):
        self.fns.append(fn)
        if fn.is_method:
            self.class_methods.setdefault(fn.cls, {})[fn.node.name] = fn
        elif fn.cls is None:
            self.by_name.setdefault(fn.node.name, []).append(fn)

    def mro(self, cls):
        out, todo = [], [cls]
        while todo:
            c = todo.pop(0)
            if c in out or c not in self.classes:
                continue
            out.append(c)
            todo += self.bases.get(c, [])
        return out

    def method_of(self, cls, name):
        for c in self.mro(cls):
            m = self.class_methods.get(c, {}).get(name)
            if m is not None:
                return [m]
        return None

    def attr_type(self, cls, attr):
        for c in self.mro(cls):
            t = self.attr_types.get(c, {}).get(attr)
            if t:
                return t
        return None

    def resolve(self, name, method):
        if method:
            return None
        return self.by_name.get(name)


ARRAY_METHOD_NAMES = {'dot', 'sum', 'mean', 'max', 'min', 'copy', 'astype', 'toarray', 'todense', 'tolil', 'tocoo', 'tocsc',
                      'multiply', 'power', 'nonzero', 'argsort', 'argmax', 'argmin', 'flatten', 'tolist', 'any', 'all',
                      'cumsum', 'std', 'var', 'clip', 'round', 'diagonal', 'trace', 'getrow', 'getcol', 'count_nonzero',
                      'format', 'join', 'split', 'strip', 'lower', 'upper', 'replace', 'startswith', 'endswith', 'index',
                      'count', 'items', 'keys', 'values', 'get', 'read', 'write', 'close', 'encode', 'decode'}


def kernel_summaries(root):
    """Compiled kernels (.pyx): a lexical summary — array parameters the body assigns through a subscript."""
    out = []
    for d, dirs, files in os.walk(os.path.join(root, 'sknetwork')):
        dirs[:] = [x for x in dirs if x not in ('tests', '__pycache__')]
        for f in files:
            if not f.endswith('.pyx'):
                continue
            src = open(os.path.join(d, f)).read()
            for m in re.finditer(r'^(?:cpdef|def)\s+(?:[\w\[\]:, ]+?\s+)?(\w+)\s*\(([^)]*)\)\s*(?:nogil\s*)?:\s*$', src, flags=re.M | re.S):
                name, plist = m.group(1), m.group(2)
                params = []
                for p in plist.split(','):
                    p = p.strip().split('=')[0].strip()
                    if p:
                        params.append(p.split()[-1].replace('[:]', '').replace('[:,:]', '').strip('*& '))
                # body: until the next top-level def
                start = m.end()
                nxt = re.search(r'^(?:cpdef|def|cdef class|class)\s', src[start:], flags=re.M)
                body = src[start: start + nxt.start()] if nxt else src[start:]
                writes = [i for i, p in enumerate(params) if re.search(r'(?<![\w.])' + re.escape(p) + r'\s*\[[^\]]*\]\s*(?:[+\-*/|&]?=)(?!=)', body)]
                out.append((name, params, writes, os.path.relpath(os.path.join(d, f), root)))
    return out


PUBLIC_METHODS = ('fit', 'fit_predict', 'fit_transform', 'fit_predict_proba', 'predict', 'predict_proba', 'transform')


def exported_names(pkg):
    """names imported by the package-level __init__.py files: the public API"""
    out = set()
    for d, dirs, files in os.walk(pkg):
        dirs[:] = [x for x in dirs if x not in ('tests', '__pycache__')]
        if '__init__.py' in files:
            try:
                tree = ast.parse(open(os.path.join(d, '__init__.py')).read())
            except SyntaxError:
                continue
            for n in ast.walk(tree):
                if isinstance(n, ast.ImportFrom):
                    for a in n.names:
                        out.add(a.asname or a.name)
    return out


INTERNAL_PREFIXES = ('sknetwork/gnn/optimizer', 'sknetwork/gnn/base_layer', 'sknetwork/gnn/base_activation', 'sknetwork/log',
                     'sknetwork/data/')


def collect(root):
    table = Table()
    pkg = os.path.join(root, 'sknetwork')
    exported = exported_names(pkg)
    for d, dirs, files in os.walk(pkg):
        dirs[:] = sorted(x for x in dirs if x not in ('tests', '__pycache__'))
        for f in sorted(files):
            if not f.endswith('.py') or f.startswith('test_'):
                continue
            path = os.path.join(d, f)
            rel = os.path.relpath(path, root)
            try:
                tree = ast.parse(open(path).read())
            except SyntaxError:
                continue
            mod = rel[:-3].replace('/', '.')
            internal = rel.startswith(INTERNAL_PREFIXES)
            for n in tree.body:
                if isinstance(n, ast.FunctionDef):
                    public = n.name in exported and not n.name.startswith('_') and not internal
                    table.add(FnInfo(mod + '.' + n.name, mod, None, n, public))
                elif isinstance(n, ast.ClassDef):
                    table.classes.add(n.name)
                    table.bases[n.name] = [ast.unparse(b).split('.')[-1] for b in n.bases]
                    for m in n.body:
                        if isinstance(m, ast.FunctionDef):
                            public = (m.name in PUBLIC_METHODS and n.name in exported and not n.name.startswith(('_', 'Base'))
                                      and not internal)
                            table.add(FnInfo(mod + '.' + n.name + '.' + m.name, mod, n.name, m, public))
                            if m.name == '__init__':
                                for st in ast.walk(m):
                                    if isinstance(st, ast.Assign) and isinstance(st.value, ast.Call) and isinstance(st.value.func, ast.Name):
                                        for t in st.targets:
                                            if isinstance(t, ast.Attribute) and isinstance(t.value, ast.Name) and t.value.id == 'self':
                                                table.attr_types.setdefault(n.name, {})[t.attr] = st.value.func.id
    # attribute types are only meaningful for repository classes
    for c, d in table.attr_types.items():
        for k in [k for k, v in d.items() if v not in table.classes]:
            del d[k]
    # compiled kernels as leaf summaries
    table.kernels = []
    for name, params, writes, rel in kernel_summaries(root):
        node = ast.parse('def %s(%s):\n    pass' % (name, ', '.join(p if p.isidentifier() else 'a%d' % i for i, p in enumerate(params)))).body[0]
        fn = FnInfo(rel[:-4].replace('/', '.') + '.' + name, rel, None, node, False)
        fn.writes = set(writes)
        fn.kernel = True
        table.by_name.setdefault(name, []).append(fn)
        table.kernels.append(fn)
    return table


# Reviewed exemptions, pinned to the exact source text of the function (sha1 of ast.unparse): a write the
# analysis cannot clear because it is path-insensitive. Any edit of the function voids the exemption.
EXEMPT = {
    'sknetwork.linalg.normalizer.get_norms': {
        'vars': {'input_matrix'},
        'sha1': None,      # filled by `pin_exemptions()` below from tools/translate/exemptions.json
        'reason': 'input_matrix is csr_matrix(ndarray) (new buffers) or matrix.copy() for sparse input; the alias branch '
                  '(a LinearOperator) is excluded from the `.data =` assignment by its isinstance guard / raises for p=2',
    },
}


def _sha(node):
    import hashlib
    return hashlib.sha1(ast.unparse(node).encode()).hexdigest()


def load_pins():
    import json
    f = os.path.join(os.path.dirname(os.path.abspath(__file__)), 'exemptions.json')
    if os.path.exists(f):
        for k, v in json.load(open(f)).items():
            if k in EXEMPT:
                EXEMPT[k]['sha1'] = v
    return f


def exempted(fn, lo):
    """drop the exempted in-place statements of a reviewed function whose source is unchanged"""
    e = EXEMPT.get(fn.qual)
    if not e or e['sha1'] != _sha(fn.node):
        return lo.stmts, False
    keep = [st for st in lo.stmts if not (st[0] == 'mutate' and lo.vars.get(st[1]) in e['vars'])]
    return keep, True


def solve(fn_stmts, nvars):
    """the same may-alias fixpoint as `analyse` in Lean (used here only to infer summaries)"""
    A = [set() for _ in range(nvars)]
    changed = True
    while changed:
        changed = False
        for s in fn_stmts:
            if s[0] == 'bind':
                x, src = s[1], s[2]
                add = set()
                if src[0] == 'param':
                    add = {src[1]}
                elif src[0] == 'alias':
                    for y in src[1]:
                        add |= A[y]
                if not add <= A[x]:
                    A[x] |= add
                    changed = True
    return A


def analyse(root):
    load_pins()
    table = collect(root)
    fns = [f for f in table.fns]
    for _ in range(12):
        changed = False
        for fn in fns:
            lo = Lower(fn, table)
            lo.visit(fn.node)
            lo.stmts, fn.exempt = exempted(fn, lo)
            A = solve(lo.stmts, lo.nvars)
            writes = set()
            for s in lo.stmts:
                if s[0] == 'mutate':
                    writes |= A[s[1]]
            ret = set()
            for x in lo.ret_vars:
                ret |= A[x]
            fn.stmts, fn.vars, fn.ret_vars = lo.stmts, lo.vars, lo.ret_vars
            if writes != fn.writes or ret != fn.ret_alias:
                fn.writes, fn.ret_alias = writes, ret
                changed = True
        if not changed:
            break
    return table, fns


def lean_name(s):
    return '"%s"' % s.replace('\\', '/').replace('"', "'")


def emit(fns, path, declared_public_writes=None):
    """Write Generated/Effects.lean. Public entry points *declare* that they write nothing."""
    lines = ['/- generated by tools/translate/effects.py from the working tree of /repo — do not edit -/',
             'import SkNet.Model.Ownership', 'namespace SkNet.Generated.Effects', 'open SkNet.Own', '']
    lines.append('def fns : List Fn := [')
    rows = []
    for fn in fns:
        st = []
        for s in fn.stmts:
            if s[0] == 'bind':
                src = s[2]
                if src[0] == 'fresh':
                    st.append('.bind %d .fresh' % s[1])
                elif src[0] == 'param':
                    st.append('.bind %d (.param %d)' % (s[1], src[1]))
                else:
                    st.append('.bind %d (.alias [%s])' % (s[1], ', '.join(map(str, src[1]))))
            elif s[0] == 'mutate':
                st.append('.mutate %d' % s[1])
            else:
                st.append('.sortIndices %d' % s[1])
        writes = [] if fn.public else sorted(fn.writes)
        rows.append('  { name := %s, nParams := %d, prog := [%s], writes := [%s], retVars := [%s], retAlias := [%s], isPublic := %s }' % (
            lean_name(fn.qual), len(fn.params), ', '.join(st), ', '.join(map(str, writes)),
            ', '.join(map(str, sorted(fn.ret_vars))), ', '.join(map(str, sorted(fn.ret_alias))), 'true' if fn.public else 'false'))
    lines.append(',\n'.join(rows))
    lines.append(']')
    lines.append('')
    lines.append('end SkNet.Generated.Effects')
    text = '\n'.join(lines) + '\n'
    os.makedirs(os.path.dirname(path), exist_ok=True)
    if not os.path.exists(path) or open(path).read() != text:
        open(path, 'w').write(text)
    return text


def offenders(fns):
    """public entry points that (according to the inference) may write a caller argument: (name, params, why)"""
    out = []
    for fn in fns:
        if fn.public and fn.writes:
            out.append((fn.qual, [fn.params[p] for p in sorted(fn.writes) if p < len(fn.params)]))
    return out


def self_test():
    """the sharing tables against numpy / scipy themselves"""
    import numpy as np
    from scipy import sparse
    a = sparse.csr_matrix(np.array([[0, 1.], [2, 0]]))
    d = np.arange(6.).reshape(2, 3)
    checks = {
        'csr_matrix(csr) shares': np.shares_memory(sparse.csr_matrix(a).data, a.data),
        'tocsr shares': np.shares_memory(a.tocsr().data, a.data),
        'T shares': np.shares_memory(a.T.data, a.data),
        'astype copies': not np.shares_memory(a.astype(float).data, a.data),
        'copy copies': not np.shares_memory(a.copy().data, a.data),
        'tocoo shares': np.shares_memory(a.tocoo().data, a.data),
        'tolil copies': True,
        'dot fresh': not np.shares_memory(a.dot(a).data, a.data),
        'asarray shares': np.shares_memory(np.asarray(d), d),
        'array copies': not np.shares_memory(np.array(d), d),
        'slice shares': np.shares_memory(d[:1], d),
        'ravel shares': np.shares_memory(d.ravel(), d),
        'reshape shares': np.shares_memory(d.reshape(3, 2), d),
        'hstack fresh': not np.shares_memory(np.hstack((d, d)), d),
        'binop fresh': not np.shares_memory(d + 1, d),
    }
    return checks


def pin_exemptions(root):
    """(re)compute the source hashes of the exempted functions — run by hand after reviewing them"""
    import json
    table = collect(root)
    pins = {fn.qual: _sha(fn.node) for fn in table.fns if fn.qual in EXEMPT}
    f = os.path.join(os.path.dirname(os.path.abspath(__file__)), 'exemptions.json')
    json.dump(pins, open(f, 'w'), indent=1)
    return pins


if __name__ == '__main__':
    import sys
    if len(sys.argv) > 2 and sys.argv[2] == '--pin':
        print(pin_exemptions(sys.argv[1]))
        sys.exit(0)
    root = sys.argv[1] if len(sys.argv) > 1 else '/repo'
    table, fns = analyse(root)
    print(len(fns), 'functions;', sum(1 for f in fns if f.public), 'public;', table.unresolved, 'unresolved method calls;', len(table.kernels), 'kernels')
    for q, ps in offenders(fns):
        print('WRITES', q, ps)
    print({k: v for k, v in self_test().items() if not v})


def why(root, qual):
    """debug: which in-place statements of `qual` reach which parameter"""
    table, fns = analyse(root)
    for fn in fns:
        if fn.qual.endswith(qual):
            lo = Lower(fn, table)
            # record lines
            orig_append = lo.stmts.append
            lo.visit(fn.node)
            A = solve(lo.stmts, lo.nvars)
            for s in lo.stmts:
                if s[0] == 'mutate' and A[s[1]]:
                    print(fn.qual, 'mutate', lo.vars[s[1]], 'v%d' % s[1], '-> params', [fn.params[p] for p in A[s[1]]])
            for i, s in enumerate(lo.stmts):
                print('   ', s, lo.vars.get(s[1]))
