"""Translator: every `prange` loop of the Cython sources -> Lean descriptors (SkNet/Generated/Prange.lean).

Front end: Cython's own parser (`Cython.Compiler.TreeFragment.parse_from_strings`), i.e. the raw parse tree
before any transform.  For each `for <var> in prange(...)` loop the body is scanned for

  * array accesses  `a[e]`  (load / store / in-place = load then store) with the index classified as
        own k     : e is `<var>` or `<var> + k`
        fixed     : e only mentions variables that the loop body never assigns (same element in every iteration)
        indirect  : anything else
  * scalar assignments          -> `priv v`           (Cython: lastprivate)
  * scalar in-place operators   -> `reduction v op`   (Cython: OpenMP reduction), exact iff the C type is integral
  * method calls on a variable that the body does not assign (shared object, e.g. `worklist.push`)
  * function calls: pure iff a C function of the allow-list or a cdef/def function of the same module whose own
    body stores to no array / attribute, calls only pure functions and uses no `global`; every array passed to
    a call is recorded as an `indirect` load of that array.

The output is data only; `SkNet.ParFor.Loop.raceFree` (Lean) decides, `SkNet.C16.desc_raceFree_sound` proves
what the decision means.  Run as a script to print the descriptors of a tree: prange.py <repo root>.
"""
import json
import os
import sys

PURE_BUILTINS = {'range', 'abs', 'min', 'max', 'len', 'int', 'float', 'sqrt', 'exp', 'log', 'pow', 'fabs',
                 'floor', 'ceil', 'sqrtf', 'expf', 'logf', 'powf', 'fabsf'}
IMPURE_BUILTINS = {'rand', 'srand', 'print', 'malloc', 'free', 'rand_r', 'random'}
READONLY_METHODS = {'size', 'empty', 'front', 'back', 'top', 'count', 'find', 'begin', 'end', 'at'}
INTEGRAL_CTYPES = {'int', 'long', 'short', 'char', 'bint', 'Py_ssize_t', 'size_t', 'unsigned', 'longlong',
                   'int_or_long', 'int32_t', 'int64_t', 'unsigned int', 'long long'}


def _cy():
    from Cython.Compiler.TreeFragment import parse_from_strings
    from Cython.Compiler import Nodes, ExprNodes
    return parse_from_strings, Nodes, ExprNodes


def _children(n):
    for cattr in getattr(n, 'child_attrs', None) or []:
        c = getattr(n, cattr, None)
        if c is None:
            continue
        if isinstance(c, list):
            for x in c:
                if hasattr(x, 'child_attrs'):
                    yield x
        elif hasattr(c, 'child_attrs'):
            yield c


def _walk(n):
    yield n
    for c in _children(n):
        yield from _walk(c)


def _tname(n):
    return type(n).__name__


def _src(n):
    """Compact rendering of an expression (for reports only)."""
    t = _tname(n)
    if t == 'NameNode':
        return str(n.name)
    if t in ('IntNode', 'FloatNode'):
        return str(n.value)
    if t == 'IndexNode':
        return '%s[%s]' % (_src(n.base), _src(n.index))
    if t == 'AttributeNode':
        return '%s.%s' % (_src(n.obj), n.attribute)
    if hasattr(n, 'operator') and hasattr(n, 'operand1') and hasattr(n, 'operand2'):
        return '(%s%s%s)' % (_src(n.operand1), n.operator, _src(n.operand2))
    if hasattr(n, 'operator') and hasattr(n, 'operand'):
        return '(%s%s)' % (n.operator, _src(n.operand))
    if t in ('SimpleCallNode', 'GeneralCallNode'):
        return '%s(..)' % _src(n.function)
    return t


def _names(n):
    return {str(x.name) for x in _walk(n) if _tname(x) == 'NameNode'}


def _is_prange_call(seq):
    if _tname(seq) not in ('SimpleCallNode', 'GeneralCallNode'):
        return False
    f = seq.function
    if _tname(f) == 'NameNode' and str(f.name) == 'prange':
        return True
    if _tname(f) == 'AttributeNode' and str(f.attribute) == 'prange':
        return True
    return False


def _prange_kwargs(seq):
    out = {}
    kw = getattr(seq, 'keyword_args', None)
    if kw is not None and _tname(kw) == 'DictNode':
        for it in kw.key_value_pairs:
            v = it.value
            out[str(it.key.value)] = getattr(v, 'value', _tname(v))
    return out


def _declared_types(func):
    """name -> C type string for cdef declarations and typed arguments of a function."""
    types = {}
    for n in _walk(func):
        t = _tname(n)
        if t == 'CVarDefNode':
            bt = n.base_type
            base = getattr(bt, 'name', None)
            kind = _tname(bt)
            for d in n.declarators:
                nm = getattr(d, 'name', None)
                if nm:
                    types[str(nm)] = (str(base) if base else kind, kind)
        elif t == 'CArgDeclNode':
            bt = n.base_type
            d = n.declarator
            nm = getattr(d, 'name', None)
            if not nm and hasattr(d, 'base'):
                nm = getattr(d.base, 'name', None)
            if nm:
                types[str(nm)] = (str(getattr(bt, 'name', '') or _tname(bt)), _tname(bt))
    return types


class _Body:
    """Scan of one prange body."""

    def __init__(self, var, body, types, module_funcs):
        self.var = var
        self.types = types
        self.module_funcs = module_funcs
        self.accs = []
        self.assigned = set()
        self.inplace = {}
        # first pass: which scalars does the body assign?
        for n in _walk(body):
            t = _tname(n)
            if t == 'SingleAssignmentNode' and _tname(n.lhs) == 'NameNode':
                self.assigned.add(str(n.lhs.name))
            elif t == 'CascadedAssignmentNode':
                for l in n.lhs_list:
                    if _tname(l) == 'NameNode':
                        self.assigned.add(str(l.name))
            elif t == 'InPlaceAssignmentNode' and _tname(n.lhs) == 'NameNode':
                self.inplace[str(n.lhs.name)] = str(n.operator)
            elif t in ('ForInStatNode', 'ForFromStatNode') and _tname(getattr(n, 'target', None)) == 'NameNode':
                self.assigned.add(str(n.target.name))
        self.stmt(body)
        seen = set()
        for v in sorted(self.assigned):
            self.accs.append(('priv', v))
        for v, op in sorted(self.inplace.items()):
            ctype = self.types.get(v, ('?', '?'))[0]
            self.accs.append(('reduction', v, op, ctype in INTEGRAL_CTYPES))
            if v in self.assigned:
                self.accs.append(('unknown', 'scalar %s both assigned and updated in place' % v))

    # -- index classification ------------------------------------------------------------------
    def idx(self, e):
        t = _tname(e)
        if t == 'NameNode' and str(e.name) == self.var:
            return ('own', 0)
        if t == 'AddNode':
            a, b = e.operand1, e.operand2
            for x, y in ((a, b), (b, a)):
                if _tname(x) == 'NameNode' and str(x.name) == self.var and _tname(y) == 'IntNode':
                    try:
                        k = int(str(y.value))
                        if k >= 0:
                            return ('own', k)
                    except ValueError:
                        pass
        free = _names(e)
        has_index = any(_tname(x) == 'IndexNode' for x in _walk(e))
        has_call = any(_tname(x) in ('SimpleCallNode', 'GeneralCallNode') for x in _walk(e))
        if self.var not in free and not (free & self.assigned) and not (free & set(self.inplace)) \
                and not has_index and not has_call:
            return ('fixed', _src(e))
        return ('indirect', _src(e))

    # -- expressions (loads) -------------------------------------------------------------------
    def expr(self, e):
        if e is None:
            return
        t = _tname(e)
        if t == 'IndexNode':
            self.expr(e.index)
            if _tname(e.base) == 'NameNode':
                self.accs.append(('load', str(e.base.name), self.idx(e.index)))
            else:
                self.expr(e.base)
                self.accs.append(('unknown', 'indexing of %s' % _src(e.base)))
            return
        if t in ('SimpleCallNode', 'GeneralCallNode'):
            self.call(e)
            return
        if t == 'NameNode':
            if str(e.name) in self.inplace:
                self.accs.append(('unknown', 'reduction variable %s read in the loop' % e.name))
            return
        for c in _children(e):
            self.expr(c)

    def call(self, e):
        f = e.function
        args = list(getattr(e, 'args', None) or [])
        if _tname(e) == 'GeneralCallNode':
            pa = getattr(e, 'positional_args', None)
            if pa is not None:
                args = list(getattr(pa, 'args', []))
            self.accs.append(('unknown', 'keyword call %s' % _src(f)))
        for a in args:
            if _tname(a) == 'NameNode' and self.is_array(str(a.name)):
                self.accs.append(('load', str(a.name), ('indirect', 'argument of %s' % _src(f))))
            else:
                self.expr(a)
        if _tname(f) == 'AttributeNode':
            obj = f.obj
            meth = str(f.attribute)
            if _tname(obj) == 'NameNode':
                o = str(obj.name)
                if o in self.assigned:
                    self.accs.append(('unknown', 'method %s of private object %s' % (meth, o)))
                else:
                    self.accs.append(('method', o, meth, meth not in READONLY_METHODS))
            else:
                self.accs.append(('unknown', 'method call on %s' % _src(obj)))
            return
        if _tname(f) == 'NameNode':
            nm = str(f.name)
            if nm in PURE_BUILTINS:
                self.accs.append(('call', nm, True))
            elif nm in IMPURE_BUILTINS:
                self.accs.append(('call', nm, False))
            elif nm in self.module_funcs:
                self.accs.append(('call', nm, bool(self.module_funcs[nm])))
            else:
                self.accs.append(('call', nm, False))
            return
        self.accs.append(('unknown', 'call of %s' % _src(f)))

    def is_array(self, name):
        base, kind = self.types.get(name, ('?', '?'))
        return kind in ('MemoryViewSliceTypeNode', 'TemplatedTypeNode', 'CBufferAccessTypeNode') or \
            base in ('vector', 'memoryview', 'ndarray')

    # -- statements ----------------------------------------------------------------------------
    def store_target(self, lhs, inplace):
        t = _tname(lhs)
        if t == 'NameNode':
            return
        if t == 'IndexNode' and _tname(lhs.base) == 'NameNode':
            self.expr(lhs.index)
            ix = self.idx(lhs.index)
            if inplace:
                self.accs.append(('load', str(lhs.base.name), ix))
            self.accs.append(('store', str(lhs.base.name), ix))
            return
        self.accs.append(('unknown', 'store to %s' % _src(lhs)))

    def stmt(self, s):
        if s is None:
            return
        t = _tname(s)
        if t == 'StatListNode':
            for x in s.stats:
                self.stmt(x)
        elif t == 'SingleAssignmentNode':
            self.expr(s.rhs)
            self.store_target(s.lhs, False)
        elif t == 'CascadedAssignmentNode':
            self.expr(s.rhs)
            for l in s.lhs_list:
                self.store_target(l, False)
        elif t == 'InPlaceAssignmentNode':
            self.expr(s.rhs)
            self.store_target(s.lhs, True)
        elif t == 'IfStatNode':
            for c in s.if_clauses:
                self.expr(c.condition)
                self.stmt(c.body)
            self.stmt(s.else_clause)
        elif t == 'ForInStatNode':
            seq = s.iterator.sequence if hasattr(s.iterator, 'sequence') else s.iterator
            if _is_prange_call(seq):
                self.accs.append(('unknown', 'nested prange'))
            self.expr(seq)
            self.stmt(s.body)
            self.stmt(getattr(s, 'else_clause', None))
        elif t == 'ForFromStatNode':
            for a in ('bound1', 'bound2', 'step'):
                self.expr(getattr(s, a, None))
            self.stmt(s.body)
        elif t == 'WhileStatNode':
            self.expr(s.condition)
            self.stmt(s.body)
            self.stmt(getattr(s, 'else_clause', None))
        elif t == 'ExprStatNode':
            self.expr(s.expr)
        elif t in ('PassStatNode', 'BreakStatNode', 'ContinueStatNode', 'CVarDefNode'):
            pass
        elif t == 'ReturnStatNode':
            self.accs.append(('unknown', 'return inside prange'))
        elif t in ('GILStatNode', 'WithStatNode', 'TryExceptStatNode', 'TryFinallyStatNode', 'RaiseStatNode'):
            self.accs.append(('unknown', t))
            for c in _children(s):
                if _tname(c).endswith('StatNode') or _tname(c) == 'StatListNode':
                    self.stmt(c)
        else:
            self.accs.append(('unknown', t))


def _func_is_pure(func, module_funcs, types):
    """A module function is pure when it stores only to its own local scalars and calls only pure functions."""
    local_arrays_by_value = set()
    for nm, (base, kind) in types.items():
        if kind == 'TemplatedTypeNode' or base == 'vector':
            local_arrays_by_value.add(nm)       # C++ containers are passed by value: a private copy
    for n in _walk(func.body):
        t = _tname(n)
        if t in ('SingleAssignmentNode', 'InPlaceAssignmentNode'):
            l = n.lhs
            if _tname(l) == 'NameNode':
                continue
            if _tname(l) == 'IndexNode' and _tname(l.base) == 'NameNode' and str(l.base.name) in local_arrays_by_value:
                continue
            return False
        if t == 'CascadedAssignmentNode':
            if any(_tname(l) != 'NameNode' for l in n.lhs_list):
                return False
        if t in ('GlobalNode', 'NonlocalNode'):
            return False
        if t in ('SimpleCallNode', 'GeneralCallNode'):
            f = n.function
            if _tname(f) == 'NameNode':
                nm = str(f.name)
                if nm in PURE_BUILTINS:
                    continue
                if nm in module_funcs and module_funcs[nm]:
                    continue
                return False
            if _tname(f) == 'AttributeNode' and str(f.attribute) in READONLY_METHODS:
                continue
            return False
    return True


def extract_file(path, rel):
    """-> list of loop dicts for one .pyx file."""
    parse_from_strings, Nodes, ExprNodes = _cy()
    src = open(path, encoding='utf-8').read()
    tree = parse_from_strings(rel.replace('/', '_').replace('.pyx', ''), src)
    funcs = [n for n in _walk(tree) if _tname(n) in ('DefNode', 'CFuncDefNode')]

    def fname(f):
        if _tname(f) == 'DefNode':
            return str(f.name)
        d = f.declarator
        while hasattr(d, 'base') and not getattr(d, 'name', None):
            d = d.base
        return str(getattr(d, 'name', '?'))
    # purity of module functions: iterate to a fixed point (optimistic start = False)
    module_funcs = {fname(f): False for f in funcs}
    ftypes = {fname(f): _declared_types(f) for f in funcs}
    for _ in range(len(funcs) + 1):
        changed = False
        for f in funcs:
            nm = fname(f)
            has_prange = any(_tname(x) == 'ForInStatNode' and hasattr(x.iterator, 'sequence')
                             and _is_prange_call(x.iterator.sequence) for x in _walk(f.body))
            p = (not has_prange) and _func_is_pure(f, module_funcs, ftypes[nm])
            if p != module_funcs[nm]:
                module_funcs[nm] = p
                changed = True
        if not changed:
            break
    loops = []
    for f in funcs:
        nm = fname(f)
        k = 0
        for n in _walk(f.body):
            if _tname(n) == 'ForInStatNode' and hasattr(n.iterator, 'sequence') and _is_prange_call(n.iterator.sequence):
                seq = n.iterator.sequence
                kw = _prange_kwargs(seq)
                var = str(n.target.name) if _tname(n.target) == 'NameNode' else '?'
                b = _Body(var, n.body, ftypes[nm], module_funcs)
                accs = list(b.accs)
                if var == '?':
                    accs.append(('unknown', 'loop target is not a name'))
                # bounds of the prange are evaluated once, outside the parallel region
                loops.append({'name': '%s:%s#%d' % (rel, nm, k), 'file': rel, 'func': nm, 'line': n.pos[1],
                              'var': var, 'schedule': str(kw.get('schedule', 'static-default')),
                              'nogil': bool(kw.get('nogil', False)), 'accs': accs})
                k += 1
    return loops


def extract_tree(root):
    """All prange loops under <root>/sknetwork (root = overlay root or a repository)."""
    base = os.path.join(root, 'sknetwork')
    loops = []
    for d, dirs, files in sorted(os.walk(base)):
        dirs.sort()
        dirs[:] = [x for x in dirs if x not in ('__pycache__', 'tests')]
        for f in sorted(files):
            if f.endswith('.pyx'):
                p = os.path.join(d, f)
                rel = os.path.relpath(p, base)
                text = open(p, encoding='utf-8').read()
                if 'prange' not in text:
                    continue
                loops += extract_file(p, rel)
    return loops


def omp_flags(repo):
    """Does setup.py compile and link the extensions with -fopenmp (default platform branch)?"""
    import ast
    p = os.path.join(repo, 'setup.py')
    out = {'compile': None, 'link': None}
    if not os.path.exists(p):
        return out
    tree = ast.parse(open(p).read())
    for node in tree.body:          # top-level assignments only: the default (Linux) branch
        if isinstance(node, ast.Assign) and len(node.targets) == 1 and isinstance(node.targets[0], ast.Name):
            nm = node.targets[0].id
            if nm in ('EXTRA_COMPILE_ARGS', 'EXTRA_LINK_ARGS'):
                try:
                    v = ast.literal_eval(node.value)
                except Exception:
                    v = None
                out['compile' if nm == 'EXTRA_COMPILE_ARGS' else 'link'] = bool(v and '-fopenmp' in v)
    return out


# -- Lean emission ---------------------------------------------------------------------------
def _lstr(s):
    return '"' + str(s).replace('\\', '\\\\').replace('"', '\\"').replace('\n', ' ') + '"'


def _lidx(ix):
    if ix[0] == 'own':
        return '(.own %d)' % ix[1]
    return '(.%s %s)' % (ix[0], _lstr(ix[1]))


def _lacc(a):
    k = a[0]
    if k in ('load', 'store'):
        return '.%s %s %s' % (k, _lstr(a[1]), _lidx(a[2]))
    if k == 'priv':
        return '.priv %s' % _lstr(a[1])
    if k == 'reduction':
        return '.reduction %s %s %s' % (_lstr(a[1]), _lstr(a[2]), 'true' if a[3] else 'false')
    if k == 'method':
        return '.method %s %s %s' % (_lstr(a[1]), _lstr(a[2]), 'true' if a[3] else 'false')
    if k == 'call':
        return '.call %s %s' % (_lstr(a[1]), 'true' if a[2] else 'false')
    return '.unknown %s' % _lstr(a[1])


def lean_ident(name):
    s = ''.join(c if c.isalnum() else '_' for c in name)
    return 'l_' + s


def emit_lean(loops, flags, namespace='SkNet.Generated.Prange', header=True):
    out = (['/- generated by tools/translate/prange.py from the working tree; do not edit -/',
            'import SkNet.Model.ParFor'] if header else []) + ['namespace ' + namespace, 'open SkNet.ParFor', '']
    for l in loops:
        out.append('/-- %s line %d -/' % (l['name'], l['line']))
        out.append('def %s : Loop :=' % lean_ident(l['name']))
        out.append('  { name := %s, var := %s, schedule := %s,' % (_lstr(l['name']), _lstr(l['var']), _lstr(l['schedule'])))
        out.append('    accs := [' + (',\n      '.join(_lacc(a) for a in l['accs'])) + '] }')
        out.append('')
    out.append('def loops : List Loop := [' + ', '.join(lean_ident(l['name']) for l in loops) + ']')
    out.append('/-- setup.py passes -fopenmp to the compiler / to the linker (default platform branch) -/')
    out.append('def ompCompile : Bool := %s' % ('true' if flags.get('compile') else 'false'))
    out.append('def ompLink : Bool := %s' % ('true' if flags.get('link') else 'false'))
    out.append('end ' + namespace)
    return '\n'.join(out) + '\n'


def main(argv):
    root = argv[1] if len(argv) > 1 else '/repo'
    loops = extract_tree(root)
    print(json.dumps({'loops': loops, 'omp': omp_flags(root)}, indent=1, default=str))
    if len(argv) > 2:
        with open(argv[2], 'w') as fh:
            fh.write(emit_lean(loops, omp_flags(root)))


if __name__ == '__main__':
    main(sys.argv)
