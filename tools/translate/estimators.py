"""Translator: every estimator class of sknetwork -> a state-machine description (SkNet/Generated/EstimatorState.lean).

Front end: Python's `ast` on the .py sources of the tree (no import, no execution).  For every class that has
`sknetwork.base.Algorithm` in its (statically computed, C3) MRO and a concrete `fit`:

  params      parameters of its `__init__`
  init        attributes written by the `__init__` chain (super().__init__ / Base.__init__(self,…) / self._init_vars()
              are followed with the arguments bound), each with the kind of value it receives:
                param p   exactly the constructor argument p            derived   computed from arguments
                const     a literal / None / empty container            obj C     a new object of estimator class C
                rng p     check_random_state(p): a generator created at construction time        other
  readsFirst  attributes that `fit` (methods of `self` are followed through the MRO) may read before it has
              assigned them in the same call  (flow-sensitive definite-assignment analysis)
  mayWrite    attributes assigned somewhere on the fit path          mustWrite  assigned on every normal exit
  deep        attributes whose *object* is modified on the fit path (method of a mutable object called, item or
              attribute stored) while not freshly assigned in this call; with the class of the object when known
  logs        append-only text logs (`self.log += …`)
  normalised  `if isinstance(self.x, str): self.x = C()` : idempotent normalisation of a parameter
  rng         random sources on the fit path: own generator created at construction (`atInit a`), generator
              re-created from the parameter at each fit (`atFit a`), numpy's global generator (`npGlobal f`),
              np.random.seed (`npSeed`), the C library's rand() behind a compiled kernel (`cRand f`)
  subs        estimator classes instantiated on the fit path (local helpers)
  opaque      reasons why the description is incomplete (self handed to foreign code, …)

The Lean predicate `SkNet.Estimator.Est.historyOK` decides on this data; `SkNet.C16.history_independent` proves
what the decision means.  Run as a script to print the descriptions: estimators.py <root containing sknetwork/>.
"""
import ast
import json
import os
import sys

PURE_METHODS = {
    'copy', 'astype', 'dot', 'sum', 'mean', 'max', 'min', 'argmax', 'argmin', 'tocsr', 'tocsc', 'tocoo', 'toarray',
    'todense', 'transpose', 'lower', 'upper', 'get', 'items', 'keys', 'values', 'reshape', 'ravel', 'flatten',
    'diagonal', 'multiply', 'power', 'nonzero', 'tolist', 'index', 'count', 'format', 'startswith', 'endswith',
    'any', 'all', 'cumsum', 'argsort', 'round', 'clip', 'conj', 'getrow', 'getcol', 'maximum', 'minimum', 'asfptype',
    'tolil', 'todia', 'std', 'var', 'prod', 'squeeze', 'take', 'repeat', 'searchsorted', 'join', 'split', 'strip',
    'loss', 'loss_gradient', 'gradient', 'activation', 'forward', 'predict', 'predict_proba', 'transform',
    '__call__', 'matvec', 'rmatvec', 'matmat', 'issubset', 'union', 'intersection', 'isin',
}
MUTATING_METHODS = {
    'fit', 'fit_predict', 'fit_transform', 'fit_predict_proba', 'step', 'append', 'extend', 'update', 'pop', 'clear',
    'sort', 'shuffle', 'permutation', 'choice', 'rand', 'randn', 'randint', 'random', 'random_sample', 'normal',
    'uniform', 'seed', 'add', 'remove', 'insert', 'setdefault', 'eliminate_zeros', 'sort_indices', 'sum_duplicates',
    'setdiag', 'resize', 'fill', 'put', 'partition', 'discard', 'popitem', 'reverse', 'backward', 'set_params',
    'binomial', 'poisson', 'exponential', 'standard_normal', 'bytes', 'set_state', 'reset',
}
FIT_METHODS = {'fit', 'fit_predict', 'fit_transform', 'fit_predict_proba'}
MAX_DEPTH = 8


def _attr_chain(node):
    """a.b.c -> ['a','b','c'] or None"""
    out = []
    while isinstance(node, ast.Attribute):
        out.append(node.attr)
        node = node.value
    if isinstance(node, ast.Name):
        out.append(node.id)
        return list(reversed(out))
    return None


class ClassInfo:
    def __init__(self, name, module, node):
        self.name, self.module, self.node = name, module, node
        self.bases = []
        for b in node.bases:
            ch = _attr_chain(b)
            if ch:
                self.bases.append(ch[-1])
        self.methods = {}
        self.static = set()
        for st in node.body:
            if isinstance(st, (ast.FunctionDef, ast.AsyncFunctionDef)):
                self.methods[st.name] = st
                for d in st.decorator_list:
                    ch = _attr_chain(d)
                    if ch and ch[-1] in ('staticmethod', 'classmethod'):
                        self.static.add(st.name)


class Tree:
    """All modules of <root>/sknetwork (tests excluded)."""

    def __init__(self, root):
        self.root = root
        self.modules = {}       # dotted module name -> ast.Module
        self.sources = {}
        self.classes = {}       # class name -> ClassInfo (first definition wins; duplicates recorded)
        self.duplicates = set()
        self.functions = {}     # (module, fname) -> FunctionDef
        self.imports = {}       # module -> {local name: (source module, original name)}
        self.pyx = {}           # dotted module -> source text
        self.module_names = {}  # module -> names assigned at module level
        base = os.path.join(root, 'sknetwork')
        for d, dirs, files in sorted(os.walk(base)):
            dirs.sort()
            dirs[:] = [x for x in dirs if x not in ('__pycache__', 'tests')]
            for f in sorted(files):
                p = os.path.join(d, f)
                rel = os.path.relpath(p, root)
                mod = rel[:-3].replace(os.sep, '.') if f.endswith('.py') else rel[:-4].replace(os.sep, '.')
                if f.endswith('.py') and not f.startswith('test_'):
                    if mod.endswith('.__init__'):
                        mod = mod[:-9]
                    src = open(p, encoding='utf-8').read()
                    try:
                        self.modules[mod] = ast.parse(src)
                        self.sources[mod] = src
                    except SyntaxError:
                        continue
                elif f.endswith('.pyx'):
                    self.pyx[mod] = open(p, encoding='utf-8').read()
                    py = _python_classes_of_pyx(self.pyx[mod])
                    if py and mod not in self.modules:
                        try:
                            self.modules[mod] = ast.parse(py)
                            self.sources[mod] = py
                        except SyntaxError:
                            pass
        for mod, tree in self.modules.items():
            imps = {}
            for st in ast.walk(tree):
                if isinstance(st, ast.ImportFrom) and st.module:
                    src_mod = st.module
                    if st.level:
                        parts = mod.split('.')
                        src_mod = '.'.join(parts[:len(parts) - st.level] + ([st.module] if st.module else []))
                    for a in st.names:
                        imps[a.asname or a.name] = (src_mod, a.name)
                elif isinstance(st, ast.Import):
                    for a in st.names:
                        # `import numpy.random as npr` binds npr to numpy.random; `import numpy.random` binds numpy
                        imps[a.asname or a.name.split('.')[0]] = (a.name if a.asname else a.name.split('.')[0], None)
            self.imports[mod] = imps
            # names bound at module level (mutable module state when a method stores into them)
            glob = set()
            for st in tree.body:
                for tg in (st.targets if isinstance(st, ast.Assign) else [st.target] if isinstance(st, (ast.AnnAssign, ast.AugAssign)) else []):
                    for n in ast.walk(tg):
                        if isinstance(n, ast.Name):
                            glob.add(n.id)
            self.module_names[mod] = glob
            for st in tree.body:
                if isinstance(st, ast.ClassDef):
                    if st.name in self.classes:
                        self.duplicates.add(st.name)
                    else:
                        self.classes[st.name] = ClassInfo(st.name, mod, st)
                elif isinstance(st, ast.FunctionDef):
                    self.functions[(mod, st.name)] = st

    # C3 linearisation over the classes we know (foreign bases are dropped)
    def mro(self, name, _seen=()):
        if name not in self.classes or name in _seen:
            return []
        ci = self.classes[name]
        seqs = [self.mro(b, _seen + (name,)) for b in ci.bases if b in self.classes]
        seqs = [s for s in seqs if s] + [[b for b in ci.bases if b in self.classes]]
        res = [name]
        seqs = [list(s) for s in seqs if s]
        while seqs:
            for s in seqs:
                h = s[0]
                if not any(h in t[1:] for t in seqs):
                    break
            else:
                h = seqs[0][0]      # inconsistent hierarchy: fall back to depth first
            res.append(h)
            seqs = [[x for x in s if x != h] for s in seqs]
            seqs = [s for s in seqs if s]
        return res

    def resolve(self, mro, meth, after=None):
        """(defining class, FunctionDef) of `meth` along the MRO (after class `after` if given)."""
        start = 0
        if after is not None and after in mro:
            start = mro.index(after) + 1
        for c in mro[start:]:
            ci = self.classes[c]
            if meth in ci.methods:
                return c, ci.methods[meth]
        return None, None

    def resolve_function(self, mod, name, depth=0):
        """Follow imports to a module-level function of the tree: -> (module, FunctionDef) or None."""
        if depth > 4:
            return None
        if (mod, name) in self.functions:
            return mod, self.functions[(mod, name)]
        imp = self.imports.get(mod, {}).get(name)
        if imp:
            src_mod, orig = imp
            if (src_mod, orig) in self.functions:
                return src_mod, self.functions[(src_mod, orig)]
            if src_mod in self.modules:      # package __init__ re-export
                return self.resolve_function(src_mod, orig, depth + 1)
        return None

    def pyx_of(self, mod, name):
        imp = self.imports.get(mod, {}).get(name)
        if imp and imp[0] in self.pyx:
            return imp[0]
        return None


def _python_classes_of_pyx(src):
    """The Python-level classes (`class X(Base):`, not `cdef class`) of a Cython source as Python text: the module's
    plain imports, then each class block with its `cdef` declarations turned into assignments / dropped.  Best effort:
    the caller discards the result if it does not parse."""
    import re
    lines = src.split('\n')
    out = []
    i = 0
    found = False
    while i < len(lines):
        ln = lines[i]
        if re.match(r'^(from\s+\S+\s+import\s|import\s)', ln) and 'cimport' not in ln:
            out.append(ln)
            # continuation lines of a parenthesised import
            while ln.count('(') > ln.count(')') and i + 1 < len(lines):
                i += 1
                ln = lines[i]
                out.append(ln)
        elif re.match(r'^class\s+\w+', ln):
            found = True
            out.append(ln)
            i += 1
            while i < len(lines) and (lines[i].strip() == '' or lines[i].startswith((' ', '\t'))):
                b = lines[i]
                m = re.match(r'^(\s*)cdef\s+(.+?)\s+(\w+)\s*=\s*(.*)$', b)
                if m:
                    b = '%s%s = %s' % (m.group(1), m.group(3), m.group(4))
                elif re.match(r'^\s*cdef\s', b):
                    b = re.match(r'^(\s*)', b).group(1) + 'pass'
                b = re.sub(r'<[\w\[\] ,.*]+>\s*', '', b) if '<' in b and '>' in b and 'cdef' not in b and ' < ' not in b and ' > ' not in b else b
                out.append(b)
                i += 1
            continue
        i += 1
    return '\n'.join(out) + '\n' if found else None


def _is_self_attr(node):
    return isinstance(node, ast.Attribute) and isinstance(node.value, ast.Name) and node.value.id == 'self'


def _raises_not_implemented(fn):
    body = [s for s in fn.body if not (isinstance(s, ast.Expr) and isinstance(s.value, ast.Constant))]
    if len(body) == 1 and isinstance(body[0], ast.Raise):
        return True
    return False


class Analysis:
    """Analysis of one estimator class."""

    def __init__(self, tree, cname):
        self.t = tree
        self.cname = cname
        self.mro = tree.mro(cname)
        self.params = []
        self.init = {}          # attr -> kind tuple
        self.init_order = []
        self.reads_first = []
        self.may_write = []
        self.must_write = []
        self.deep_always = []
        self.inner_unfitted = set()
        self.deep = {}          # attr -> set of reasons
        self.logs = set()
        self.normalised = {}    # attr -> class name
        self.rng = []
        self.subs = []
        self.opaque = []
        self.notes = []
        self._func_rng_memo = {}
        self._stack = []
        self._fn_stack = []
        self._locals_memo = {}

    # ---------------------------------------------------------------------------------------
    def run(self):
        c, init = self.t.resolve(self.mro, '__init__')
        if init is not None:
            args = init.args
            self.params = [a.arg for a in args.args[1:]] + [a.arg for a in args.kwonlyargs]
            env = {p: ('param', p) for p in self.params}
            self._init_fn(c, init, env, 0)
        c, fit = self.t.resolve(self.mro, 'fit')
        self.fit_params = [a.arg for a in fit.args.args[1:]] if fit is not None else []
        if fit is not None:
            exits = []
            self._fn_stack.append(fit)
            self._stack.append((c, 'fit'))
            d = self._block(fit.body, frozenset(), c, exits, 0, {})
            if d is not None:
                exits.append(d)
            if exits:
                m = set(exits[0])
                for e in exits[1:]:
                    m &= set(e)
                self.must_write = sorted(a for a in m if not a.startswith('<fit:'))
                self.deep_always = sorted(a[5:-1] for a in m if a.startswith('<fit:'))
            else:
                self.must_write = []
                self.notes.append('fit has no normal exit')
        # post-processing: generator objects created at construction and used at fit
        for a, kinds in list(self.deep.items()):
            k = self.init.get(a)
            if k and k[0] == 'rng':
                self._add_rng(('atInit', a))
        # a class that takes an explicit seed must not draw from numpy's global generator (unless it seeds it from that
        # seed): the seed would no longer determine the result
        seeded = 'random_state' in self.params or 'random_state' in self.fit_params or 'seed' in self.params
        if seeded and not any(k == 'npSeed' for k, _ in self.rng):
            self.rng = [(('entropy', 'numpy global generator (%s) although the class takes a seed' % a) if k == 'npGlobal' else (k, a))
                        for k, a in self.rng]
        return self

    # -- __init__ chain --------------------------------------------------------------------
    def _absval(self, e, env):
        if isinstance(e, ast.Name):
            return env.get(e.id, ('other',))
        if isinstance(e, ast.Constant):
            return ('const',)
        if isinstance(e, (ast.List, ast.Tuple, ast.Dict, ast.Set)) and not ast.dump(e).count('Name('):
            return ('const',)
        if isinstance(e, ast.Call):
            ch = _attr_chain(e.func)
            if ch and ch[-1] == 'check_random_state' and e.args:
                v = self._absval(e.args[0], env)
                return ('rng', v[1] if v[0] == 'param' else '?')
            if ch and ch[-1] in self.t.classes and 'Algorithm' in self.t.mro(ch[-1]):
                shared = []
                for kw in e.keywords:
                    v = self._absval(kw.value, env)
                    if v[0] == 'rng':
                        shared.append(kw.arg)
                return ('obj', ch[-1])
            if ch and ch[-1] in ('defaultdict', 'dict', 'list', 'set') and not e.args or \
                    (ch and ch[-1] == 'defaultdict' and all(isinstance(a, ast.Name) for a in e.args)):
                return ('const',)
            names = {n.id for n in ast.walk(e) if isinstance(n, ast.Name)}
            if names & set(k for k, v in env.items() if v[0] in ('param', 'derived')):
                return ('derived',)
            return ('other',)
        names = {n.id for n in ast.walk(e) if isinstance(n, ast.Name)}
        if names & set(k for k, v in env.items() if v[0] in ('param', 'derived')):
            return ('derived',)
        if not names:
            return ('const',)
        return ('other',)

    def _set_init(self, attr, val):
        if attr not in self.init:
            self.init_order.append(attr)
            self.init[attr] = val
        else:
            old = self.init[attr]
            # a later assignment wins, except that const-then-param keeps the param
            if old != val:
                self.init[attr] = val if val[0] != 'const' or old[0] == 'const' else \
                    (val if old[0] == 'const' else ('derived',) if old[0] in ('param', 'derived') else val)

    def _bind(self, fn, call, env, skip_self_arg):
        """Environment of the callee from the abstract values of the call's arguments."""
        names = [a.arg for a in fn.args.args]
        if names and names[0] in ('self', 'cls'):
            names = names[1:]
        new = {}
        defaults = fn.args.defaults
        for i, nm in enumerate(names):
            new[nm] = ('const',)
        pos = list(call.args)
        if skip_self_arg and pos:
            pos = pos[1:]
        for nm, a in zip(names, pos):
            new[nm] = self._absval(a, env)
        for kw in call.keywords:
            if kw.arg:
                new[kw.arg] = self._absval(kw.value, env)
        return new

    def _init_fn(self, cls, fn, env, depth):
        if depth > MAX_DEPTH:
            self.opaque.append('__init__ chain too deep')
            return
        self._init_block(fn.body, cls, env, depth)

    def _init_block(self, stmts, cls, env, depth):
        for st in stmts:
            if isinstance(st, (ast.Assign, ast.AnnAssign)):
                value = st.value
                targets = st.targets if isinstance(st, ast.Assign) else [st.target]
                if value is None:
                    continue
                v = self._absval(value, env)
                for tg in targets:
                    for leaf in ([tg] if not isinstance(tg, (ast.Tuple, ast.List)) else tg.elts):
                        if _is_self_attr(leaf):
                            self._set_init(leaf.attr, v if not isinstance(tg, (ast.Tuple, ast.List)) else
                                           (('const',) if v[0] == 'const' else ('derived',) if v[0] in ('param', 'derived') else ('other',)))
                        elif isinstance(leaf, ast.Name):
                            env[leaf.id] = v if not isinstance(tg, (ast.Tuple, ast.List)) else ('derived',) if v[0] in ('param', 'derived') else v
            elif isinstance(st, ast.Expr) and isinstance(st.value, ast.Call):
                self._init_call(st.value, cls, env, depth)
            elif isinstance(st, ast.If):
                # both branches; an attribute assigned differently in the branches becomes `derived`
                before = dict(self.init)
                e1 = dict(env)
                self._init_block(st.body, cls, e1, depth)
                after1 = dict(self.init)
                self.init = dict(before)
                e2 = dict(env)
                self._init_block(st.orelse, cls, e2, depth)
                after2 = dict(self.init)
                # a branch that ends in `raise` validates and constructs nothing: the other branch decides
                r1 = bool(st.body) and isinstance(st.body[-1], ast.Raise)
                r2 = bool(st.orelse) and isinstance(st.orelse[-1], ast.Raise)
                if r1 != r2:
                    keep, ekeep = (after2, e2) if r1 else (after1, e1)
                    for a in keep:
                        if a not in self.init_order:
                            self.init_order.append(a)
                    self.init = dict(keep)
                    env.update(ekeep)
                    continue
                merged = dict(before)
                for a in set(after1) | set(after2):
                    v1, v2 = after1.get(a), after2.get(a)
                    if v1 == v2:
                        merged[a] = v1
                    elif v1 is None or v2 is None:
                        merged[a] = ('derived',)
                    else:
                        objs = [v for v in (v1, v2) if v[0] == 'obj']
                        merged[a] = ('normal', objs[0][1]) if objs and any(v[0] == 'param' for v in (v1, v2)) else ('derived',)
                    if a not in self.init_order:
                        self.init_order.append(a)
                self.init = merged
                for k in set(e1) | set(e2):
                    env[k] = e1.get(k) if e1.get(k) == e2.get(k) else ('derived',)
            elif isinstance(st, (ast.For, ast.While, ast.With, ast.Try)):
                for sub in ast.walk(st):
                    if isinstance(sub, ast.Assign):
                        for tg in sub.targets:
                            if _is_self_attr(tg):
                                self._set_init(tg.attr, ('other',))

    def _init_call(self, call, cls, env, depth):
        f = call.func
        # super().__init__(…) / super(C, self).__init__(…)
        if isinstance(f, ast.Attribute) and isinstance(f.value, ast.Call) and isinstance(f.value.func, ast.Name) \
                and f.value.func.id == 'super':
            after = cls
            if f.value.args and isinstance(f.value.args[0], ast.Name):
                after = f.value.args[0].id
            c2, fn = self.t.resolve(self.mro, f.attr, after=after)
            if fn is not None:
                self._init_fn(c2, fn, self._bind(fn, call, env, False), depth + 1)
            return
        # Base.__init__(self, …)
        if isinstance(f, ast.Attribute) and isinstance(f.value, ast.Name) and f.value.id in self.t.classes \
                and call.args and isinstance(call.args[0], ast.Name) and call.args[0].id == 'self':
            ci = self.t.classes[f.value.id]
            c2, fn = self.t.resolve(self.t.mro(ci.name), f.attr)
            if fn is not None:
                self._init_fn(c2, fn, self._bind(fn, call, env, True), depth + 1)
            return
        # self.method(…)
        if _is_self_attr(f):
            c2, fn = self.t.resolve(self.mro, f.attr)
            if fn is not None:
                self._init_fn(c2, fn, self._bind(fn, call, env, False), depth + 1)

    # -- fit path ----------------------------------------------------------------------------
    def _add(self, lst, x):
        if x not in lst:
            lst.append(x)

    def _add_rng(self, r):
        if r not in self.rng:
            self.rng.append(r)

    def _read(self, attr, D):
        if attr not in D:
            self._add(self.reads_first, attr)

    def _inner_read(self, attr, D):
        """`self.<attr>.<something>` is read: before or after the object has been refitted in this call?"""
        if ('<fit:%s>' % attr) not in D and attr not in D:
            self.inner_unfitted.add(attr)

    def _deep(self, attr, why, D):
        if attr in D:
            return      # freshly assigned in this call: a new object
        self.deep.setdefault(attr, set()).add(why)

    def _write(self, attr):
        self._add(self.may_write, attr)

    def _block(self, stmts, D, cls, exits, depth, alias):
        """Returns the definitely-assigned set after the block, or None when the block never falls through."""
        D = frozenset(D)
        for st in stmts:
            D = self._stmt(st, D, cls, exits, depth, alias)
            if D is None:
                return None
        return D

    def _targets(self, tg, D, cls, exits, depth, alias):
        """Process an assignment target; returns the set of attributes definitely assigned by it."""
        got = set()
        if isinstance(tg, (ast.Tuple, ast.List)):
            for e in tg.elts:
                got |= self._targets(e, D, cls, exits, depth, alias)
        elif isinstance(tg, ast.Starred):
            got |= self._targets(tg.value, D, cls, exits, depth, alias)
        elif _is_self_attr(tg):
            self._write(tg.attr)
            got.add(tg.attr)
        elif isinstance(tg, (ast.Attribute, ast.Subscript)):
            # store into an object: self.x.attr = … / self.x[i] = … / alias.attr = …
            base = tg.value
            while isinstance(base, (ast.Attribute, ast.Subscript)) and not _is_self_attr(base):
                base = base.value
            if _is_self_attr(base):
                self._read(base.attr, D)
                self._deep(base.attr, 'store', D)
            elif isinstance(base, ast.Name) and base.id in alias:
                self._deep(alias[base.id], 'store-through-alias', D)
            else:
                out = self._outer_state(base, cls)
                if out:
                    self.opaque.append('store into ' + out)
            if isinstance(tg, ast.Subscript):
                self._expr(tg.slice, D, cls, exits, depth, alias)
        return got

    def _stmt(self, st, D, cls, exits, depth, alias):
        E = lambda e: self._expr(e, D, cls, exits, depth, alias)
        if isinstance(st, ast.Assign):
            D2 = E(st.value)
            # alias tracking: v = self.x
            if len(st.targets) == 1 and isinstance(st.targets[0], ast.Name):
                if _is_self_attr(st.value):
                    alias[st.targets[0].id] = st.value.attr
                else:
                    alias.pop(st.targets[0].id, None)
            got = set()
            for tg in st.targets:
                got |= self._targets(tg, D2, cls, exits, depth, alias)
            return frozenset(D2 | got)
        if isinstance(st, ast.AnnAssign):
            D2 = E(st.value) if st.value is not None else D
            got = self._targets(st.target, D2, cls, exits, depth, alias) if st.value is not None else set()
            return frozenset(D2 | got)
        if isinstance(st, ast.AugAssign):
            D2 = E(st.value)
            tg = st.target
            if _is_self_attr(tg):
                if tg.attr == 'log':
                    self.logs.add('log')
                else:
                    self._read(tg.attr, D2)
                self._write(tg.attr)
                return frozenset(D2 | {tg.attr})
            self._expr(tg, D2, cls, exits, depth, alias)
            self._targets(tg, D2, cls, exits, depth, alias)
            if isinstance(tg, ast.Name):
                out = self._outer_state(tg, cls)
                if out:
                    self.opaque.append('store into ' + out)
            return D2
        if isinstance(st, ast.Expr):
            return E(st.value)
        if isinstance(st, ast.Return):
            D2 = E(st.value) if st.value is not None else D
            exits.append(D2)
            return None
        if isinstance(st, ast.Raise):
            if st.exc is not None:
                E(st.exc)
            return None
        if isinstance(st, ast.If):
            D0 = E(st.test)
            norm = self._normalisation(st, D0)
            a1, a2 = dict(alias), dict(alias)
            if norm:
                # the rebinding `self.x = C()` is the normalisation itself: recorded in `normalised`, not in mayWrite
                self._expr(st.body[0].value, D0, cls, exits, depth, a1)
                return D0
            d1 = self._block(st.body, D0, cls, exits, depth, a1)
            d2 = self._block(st.orelse, D0, cls, exits, depth, a2)
            if norm:
                # `if isinstance(self.x, str): self.x = C()`: afterwards x holds a solver object in either case;
                # it is not a *fresh* value on the else path, so it does not enter D
                return D0 if d1 is not None or d2 is not None else None
            if d1 is None and d2 is None:
                return None
            if d1 is None:
                return d2
            if d2 is None:
                return d1
            return frozenset(d1 & d2)
        if isinstance(st, (ast.For, ast.AsyncFor)):
            D0 = E(st.iter)
            a = dict(alias)
            it = st.iter
            if isinstance(it, ast.Call) and isinstance(it.func, ast.Name) and it.func.id in ('enumerate', 'reversed', 'list') and it.args:
                it = it.args[0]
            tgt_names = [n.id for n in ast.walk(st.target) if isinstance(n, ast.Name)]
            if _is_self_attr(it):
                for n in tgt_names:
                    a[n] = it.attr
            self._targets(st.target, D0, cls, exits, depth, a)
            body_exits = []
            self._block(st.body, D0, cls, exits, depth, a)
            # second pass is not needed: reads inside the body are judged against D0 plus what the body itself
            # assigned earlier in the same iteration (handled by _block); values of a previous iteration are
            # values of *this* fit.
            self._block(st.orelse, D0, cls, exits, depth, a)
            return D0
        if isinstance(st, ast.While):
            D0 = E(st.test)
            a = dict(alias)
            self._block(st.body, D0, cls, exits, depth, a)
            self._block(st.orelse, D0, cls, exits, depth, a)
            return D0
        if isinstance(st, (ast.With, ast.AsyncWith)):
            D2 = D
            for it in st.items:
                D2 = self._expr(it.context_expr, D2, cls, exits, depth, alias)
                if it.optional_vars is not None:
                    self._targets(it.optional_vars, D2, cls, exits, depth, alias)
            return self._block(st.body, D2, cls, exits, depth, alias)
        if isinstance(st, ast.Try):
            d = self._block(st.body, D, cls, exits, depth, dict(alias))
            for h in st.handlers:
                self._block(h.body, D, cls, exits, depth, dict(alias))
            self._block(st.orelse, D if d is None else d, cls, exits, depth, dict(alias))
            df = self._block(st.finalbody, D, cls, exits, depth, dict(alias))
            return D if df is None else frozenset(D | (df - D))
        if isinstance(st, (ast.FunctionDef, ast.ClassDef, ast.Lambda)):
            # nested definitions: their reads happen when called; scan conservatively as reads now
            for n in ast.walk(st):
                if _is_self_attr(n) and isinstance(n.ctx, ast.Load):
                    self._read(n.attr, D)
            return D
        if isinstance(st, (ast.Global, ast.Nonlocal)):
            self.opaque.append('%s %s' % ('global' if isinstance(st, ast.Global) else 'nonlocal', ','.join(st.names)))
            return D
        if isinstance(st, (ast.Pass, ast.Break, ast.Continue, ast.Import, ast.ImportFrom)):
            return D
        if isinstance(st, ast.Assert):
            return E(st.test)
        if isinstance(st, ast.Delete):
            for tg in st.targets:
                if _is_self_attr(tg):
                    self._write(tg.attr)
            return D
        self.opaque.append('statement ' + type(st).__name__)
        return D

    def _normalisation(self, st, D):
        """`if isinstance(self.x, str): self.x = C(…)` (no else, or else-branches that also only rebind x)."""
        t = st.test
        if not (isinstance(t, ast.Call) and isinstance(t.func, ast.Name) and t.func.id == 'isinstance' and len(t.args) == 2
                and _is_self_attr(t.args[0])):
            return False
        x = t.args[0].attr
        if len(st.body) != 1 or st.orelse:
            return False
        s = st.body[0]
        if isinstance(s, ast.Assign) and len(s.targets) == 1 and _is_self_attr(s.targets[0]) and s.targets[0].attr == x \
                and isinstance(s.value, ast.Call):
            ch = _attr_chain(s.value.func)
            if ch and ch[-1] in self.t.classes:
                self.normalised[x] = ch[-1]
                return True
        return False

    # -- expressions ---------------------------------------------------------------------------
    def _expr(self, e, D, cls, exits, depth, alias):
        """Scan an expression (evaluation order approximated left to right); returns D after it."""
        if e is None:
            return D
        if isinstance(e, ast.Call):
            return self._call(e, D, cls, exits, depth, alias)
        if _is_self_attr(e):
            if isinstance(e.ctx, ast.Load):
                c2, fn = self.t.resolve(self.mro, e.attr)
                if fn is None:
                    self._read(e.attr, D)
            return D
        if isinstance(e, ast.Attribute) and isinstance(e.ctx, ast.Load) and _is_self_attr(e.value) \
                and e.attr not in MUTATING_METHODS:
            self._inner_read(e.value.attr, D)
        if isinstance(e, ast.Attribute) and isinstance(e.ctx, ast.Load) and _is_self_attr(e.value) \
                and e.attr in MUTATING_METHODS:
            # `self.x.fit_predict` handed somewhere as a bound method (partial, map, …): it will be called on self.x
            self._read(e.value.attr, D)
            self._deep(e.value.attr, e.attr + '-reference', D)
            return D
        if isinstance(e, (ast.Lambda,)):
            for n in ast.walk(e):
                if _is_self_attr(n):
                    self._read(n.attr, D)
            return D
        if isinstance(e, (ast.ListComp, ast.SetComp, ast.DictComp, ast.GeneratorExp)):
            a = dict(alias)
            for g in e.generators:
                D = self._expr(g.iter, D, cls, exits, depth, a)
                if _is_self_attr(g.iter):
                    for n in ast.walk(g.target):
                        if isinstance(n, ast.Name):
                            a[n.id] = g.iter.attr
                for c in g.ifs:
                    D = self._expr(c, D, cls, exits, depth, a)
            for part in ([e.elt] if hasattr(e, 'elt') else [e.key, e.value]):
                D = self._expr(part, D, cls, exits, depth, a)
            return D
        if isinstance(e, ast.NamedExpr):
            return self._expr(e.value, D, cls, exits, depth, alias)
        for c in ast.iter_child_nodes(e):
            if isinstance(c, ast.expr):
                D = self._expr(c, D, cls, exits, depth, alias)
            elif isinstance(c, (ast.keyword,)):
                D = self._expr(c.value, D, cls, exits, depth, alias)
            elif isinstance(c, ast.comprehension):
                D = self._expr(c.iter, D, cls, exits, depth, alias)
        return D

    def _inline(self, c2, fn, D, depth, alias_self=True):
        key = (c2, fn.name)
        if key in self._stack:
            return D            # recursive call: its effects are those of the activation already being analysed
        if depth > MAX_DEPTH:
            self.opaque.append('call depth')
            return D
        self._stack.append(key)
        self._fn_stack.append(fn)
        try:
            return self._inline2(c2, fn, D, depth)
        finally:
            self._stack.pop()
            self._fn_stack.pop()

    def _inline2(self, c2, fn, D, depth):
        exits = []
        d = self._block(fn.body, D, c2, exits, depth + 1, {})
        if d is not None:
            exits.append(d)
        if not exits:
            return None
        m = set(exits[0])
        for x in exits[1:]:
            m &= set(x)
        return frozenset(m)

    def _call(self, e, D, cls, exits, depth, alias):
        f = e.func
        # arguments first
        for a in e.args:
            if isinstance(a, ast.Name) and a.id == 'self' and not (isinstance(f, ast.Attribute) and isinstance(f.value, ast.Name)
                                                                  and f.value.id in self.t.classes):
                self.opaque.append('self passed to ' + (ast.unparse(f) if hasattr(ast, 'unparse') else 'a call'))
            D = self._expr(a, D, cls, exits, depth, alias)
        for kw in e.keywords:
            D = self._expr(kw.value, D, cls, exits, depth, alias)
        ch = _attr_chain(f)
        # --- random sources ------------------------------------------------------------------
        dotted = self._dotted(f, cls)
        if dotted is None and ch and len(ch) >= 3 and ch[-3] in ('np', 'numpy') and ch[-2] == 'random':
            dotted = 'numpy.random.' + ch[-1]
        if dotted:
            if dotted.startswith('numpy.random.') and dotted.count('.') == 2:
                fn_name = dotted.split('.')[-1]
                none_arg = (not e.args and not e.keywords) or \
                    (e.args and isinstance(e.args[0], ast.Constant) and e.args[0].value is None)
                if fn_name == 'seed':
                    # np.random.seed() / seed(None) re-seeds from the operating system
                    self._add_rng(('entropy', 'np.random.seed() without a seed') if none_arg else ('npSeed', ''))
                elif fn_name in ('RandomState', 'default_rng', 'Generator'):
                    self._add_rng(('entropy', fn_name + ' without a seed') if none_arg else ('fresh', fn_name))
                else:
                    self._add_rng(('npGlobal', fn_name))
            elif dotted.startswith('random.') and dotted.count('.') == 1:
                # the standard library's global generator: seeded by the operating system, no seed of the library reaches it
                self._add_rng(('entropy', 'stdlib ' + dotted))
            elif dotted in ('os.urandom', 'os.getrandom') or dotted.split('.')[0] in ('secrets', 'uuid') or \
                    dotted in ('time.time', 'time.time_ns', 'time.perf_counter', 'time.perf_counter_ns', 'time.monotonic',
                               'time.process_time', 'datetime.datetime.now', 'datetime.datetime.utcnow', 'os.getpid'):
                self._add_rng(('entropy', dotted))
        if isinstance(f, ast.Name) and f.id in ('id', 'hash') and f.id not in self._locals():
            self._add_rng(('entropy', 'builtin %s() (address / per-process string hashing)' % f.id))
        if ch:
            if ch[-1] == 'svds':
                # scipy's svds(solver='arpack') calls eigsh without its rng: the restarts of ARPACK stay OS-seeded whatever
                # arguments it is given
                self._add_rng(('entropy', 'svds does not forward rng to eigsh'))
            elif ch[-1] in ('eigsh', 'eigs', 'lobpcg'):
                # ARPACK: the start vector and (recent SciPy) the generator of the restart vectors must both be given
                v0 = [kw for kw in e.keywords if kw.arg in ('v0', 'X')]
                seeded = any(kw.arg in ('rng', 'random_state') for kw in e.keywords) or \
                    any(kw.arg is None and isinstance(kw.value, ast.Call) and 'seed' in ast.unparse(kw.value.func)
                        for kw in e.keywords)
                if not v0 or (isinstance(v0[0].value, ast.Constant) and v0[0].value.value is None) or \
                        self._is_none_default_param(v0[0].value):
                    self._add_rng(('entropy', ch[-1] + ' without v0'))
                elif not seeded:
                    self._add_rng(('entropy', ch[-1] + ' restarts unseeded'))
                else:
                    self._add_rng(('fresh', ch[-1] + ' v0 and rng'))
            if ch[-1] == 'check_random_state' and e.args:
                a0 = e.args[0]
                if _is_self_attr(a0):
                    k = self.init.get(a0.attr, ('?',))
                    if k[0] == 'rng':
                        self._add_rng(('atInit', a0.attr))      # returns the very object created at construction
                        self._deep(a0.attr, 'generator', D)
                    else:
                        self._add_rng(('atFit', a0.attr))
                else:
                    self._add_rng(('atFit', ast.unparse(a0) if hasattr(ast, 'unparse') else '?'))
        # --- self.method(…) ------------------------------------------------------------------
        if _is_self_attr(f):
            c2, fn = self.t.resolve(self.mro, f.attr)
            if fn is not None:
                r = self._inline(c2, fn, D, depth)
                return D if r is None else r      # a callee that always raises: keep D (conservative)
            self._read(f.attr, D)                 # a callable attribute
            self._deep(f.attr, 'called', D)
            return D
        # --- super().m(…) ---------------------------------------------------------------------
        if isinstance(f, ast.Attribute) and isinstance(f.value, ast.Call) and isinstance(f.value.func, ast.Name) \
                and f.value.func.id == 'super':
            after = cls
            if f.value.args and isinstance(f.value.args[0], ast.Name):
                after = f.value.args[0].id
            c2, fn = self.t.resolve(self.mro, f.attr, after=after)
            if fn is not None:
                r = self._inline(c2, fn, D, depth)
                return D if r is None else r
            return D
        # --- Base.m(self, …) ------------------------------------------------------------------
        if isinstance(f, ast.Attribute) and isinstance(f.value, ast.Name) and f.value.id in self.t.classes \
                and e.args and isinstance(e.args[0], ast.Name) and e.args[0].id == 'self':
            c2, fn = self.t.resolve(self.t.mro(f.value.id), f.attr)
            if fn is not None:
                r = self._inline(c2, fn, D, depth)
                return D if r is None else r
            return D
        # --- self.x.meth(…) / alias.meth(…) -----------------------------------------------------
        if isinstance(f, ast.Attribute):
            base = f.value
            meth = f.attr
            root = base
            while isinstance(root, (ast.Attribute, ast.Subscript)) and not _is_self_attr(root):
                root = root.value
            if _is_self_attr(root):
                self._read(root.attr, D)
                if root is not base:
                    self._inner_read(root.attr, D)      # self.x.attr.method(…): reads a fitted attribute of x
                if meth in MUTATING_METHODS:
                    self._deep(root.attr, meth, D)
                    if meth in FIT_METHODS and root is base:
                        # the attribute object is (re)fitted here: remembered as a pseudo-attribute of the
                        # definite-assignment analysis, so that "on every path" is decided like for attributes
                        D = frozenset(D | {'<fit:%s>' % root.attr})
                elif meth not in PURE_METHODS:
                    self._deep(root.attr, '?' + meth, D)
            elif isinstance(root, ast.Name) and root.id in alias:
                if meth in MUTATING_METHODS:
                    self._deep(alias[root.id], meth + '-through-alias', D)
                    if meth in FIT_METHODS and root is base:
                        D = frozenset(D | {'<fit:%s>' % alias[root.id]})
            else:
                out = self._outer_state(root, cls)
                if out and meth in MUTATING_METHODS and not (dotted or '').startswith(('numpy.', 'random.')):
                    self.opaque.append('%s() on %s' % (meth, out))
                D = self._expr(base, D, cls, exits, depth, alias)
            if isinstance(base, ast.expr) and _is_self_attr(root) and root is not base:
                pass
        elif isinstance(f, ast.Name):
            nm = f.id
            # construction of another estimator
            if nm in self.t.classes and 'Algorithm' in self.t.mro(nm):
                self._add(self.subs, nm)
                for kw in e.keywords:
                    if _is_self_attr(kw.value):
                        k = self.init.get(kw.value.attr, ('?',))
                        if k[0] == 'rng':
                            self._add_rng(('atInit', kw.value.attr))
                            self._deep(kw.value.attr, 'generator-shared-with-' + nm, D)
            else:
                mod = self.t.classes[cls].module if cls in self.t.classes else None
                px = self.t.pyx_of(mod, nm) if mod else None
                if px:
                    kind = _pyx_rand_kind(self.t.pyx[px], self.t.imports[mod][nm][1], e)
                    if kind == 'cRand':
                        self._add_rng(('cRand', px.split('.')[-1] + '.' + nm))
                    elif kind == 'seeded':
                        self._add_rng(('fresh', 'srand(seed) in ' + px.split('.')[-1] + '.' + nm))
                elif mod:
                    r = self.t.resolve_function(mod, nm)
                    if r:
                        for g in self._func_rng(r[0], r[1], 0):
                            self._add_rng(g)
        else:
            D = self._expr(f, D, cls, exits, depth, alias)
        return D

    def _module_of(self, cls):
        return self.t.classes[cls].module if cls in self.t.classes else None

    def _dotted(self, f, cls):
        """Fully qualified dotted name of a call target, resolved through the imports of the module that defines the
        code being analysed: `np.random.rand` -> numpy.random.rand, `_perm` (from numpy.random import permutation as
        _perm) -> numpy.random.permutation, `random.shuffle` (import random) -> random.shuffle.  None if unknown."""
        ch = _attr_chain(f)
        if not ch:
            return None
        mod = self._module_of(cls)
        imp = self.t.imports.get(mod, {}).get(ch[0]) if mod else None
        if imp is None:
            return None
        src, orig = imp
        head = src if orig is None else src + '.' + orig
        return '.'.join([head] + ch[1:])

    def _locals(self):
        """names bound inside the function being analysed (arguments, assignment / loop / with / comprehension targets)"""
        if not self._fn_stack:
            return set()
        fn = self._fn_stack[-1]
        key = id(fn)
        if key not in self._locals_memo:
            names = {a.arg for a in fn.args.args + fn.args.kwonlyargs}
            if fn.args.vararg:
                names.add(fn.args.vararg.arg)
            if fn.args.kwarg:
                names.add(fn.args.kwarg.arg)
            declared_global = set()
            for n in ast.walk(fn):
                if isinstance(n, ast.Name) and isinstance(n.ctx, ast.Store):
                    names.add(n.id)
                elif isinstance(n, (ast.Global, ast.Nonlocal)):
                    declared_global |= set(n.names)
            self._locals_memo[key] = names - declared_global
        return self._locals_memo[key]

    def _outer_state(self, root, cls):
        """Is the name `root` (not a local of the function) module-level state of the defining module, a class of the
        tree, or `type(self)` / `self.__class__`?  -> description or None"""
        if isinstance(root, ast.Name):
            nm = root.id
            if nm in self._locals() or nm == 'self':
                return None
            mod = self._module_of(cls)
            if nm in self.t.classes:
                return 'class attribute of ' + nm
            if mod and nm in self.t.module_names.get(mod, ()):
                return 'module-level name ' + nm
            return None
        if isinstance(root, ast.Call) and isinstance(root.func, ast.Name) and root.func.id == 'type':
            return 'type(self)'
        if isinstance(root, ast.Attribute) and root.attr == '__class__':
            return 'self.__class__'
        return None

    def _is_none_default_param(self, node):
        """`v0=init_vector` where init_vector is a parameter of the enclosing function that defaults to None and is
        never re-assigned: the callee receives None unless the caller supplies a vector."""
        if not isinstance(node, ast.Name) or not self._fn_stack:
            return False
        fn = self._fn_stack[-1]
        args = fn.args.args
        defaults = [None] * (len(args) - len(fn.args.defaults)) + list(fn.args.defaults)
        for a, d in zip(args, defaults):
            if a.arg == node.id:
                if not (isinstance(d, ast.Constant) and d.value is None):
                    return False
                for n in ast.walk(fn):
                    if isinstance(n, ast.Assign) and any(isinstance(t, ast.Name) and t.id == node.id for t in n.targets):
                        return False
                return True
        return False

    def _func_rng(self, mod, fn, depth):
        key = (mod, fn.name)
        if key in self._func_rng_memo:
            return self._func_rng_memo[key]
        self._func_rng_memo[key] = []
        out = []
        if depth <= 3:
            for n in ast.walk(fn):
                if isinstance(n, ast.Call):
                    ch = _attr_chain(n.func)
                    if ch and len(ch) >= 3 and ch[-3] in ('np', 'numpy') and ch[-2] == 'random' and \
                            ch[-1] not in ('RandomState', 'default_rng', 'seed'):
                        out.append(('npGlobal', ch[-1] + '@' + fn.name))
                    elif isinstance(n.func, ast.Name):
                        r = self.t.resolve_function(mod, n.func.id)
                        if r:
                            out += self._func_rng(r[0], r[1], depth + 1)
                        px = self.t.pyx_of(mod, n.func.id)
                        if px and _pyx_rand_kind(self.t.pyx[px], self.t.imports[mod][n.func.id][1], n) == 'cRand':
                            out.append(('cRand', px.split('.')[-1] + '.' + n.func.id))
        self._func_rng_memo[key] = out
        return out

    # ---------------------------------------------------------------------------------------
    def describe(self):
        deep = []
        for a in sorted(self.deep):
            k = self.init.get(a)
            cls = ''
            if k and k[0] in ('obj', 'normal'):
                cls = k[1]
            elif a in self.normalised:
                cls = self.normalised[a]
            deep.append({'attr': a, 'cls': cls, 'why': sorted(self.deep[a]), 'always': a in self.deep_always,
                         'reads_unfitted': a in self.inner_unfitted})
        init = []
        seen_init = set()
        for a in self.init_order:
            k = self.init.get(a)
            if k is None or a in seen_init:
                continue
            seen_init.add(a)
            init.append({'attr': a, 'kind': k[0], 'arg': (k[1] if len(k) > 1 else '')})
        for a, c in self.normalised.items():
            pass
        return {
            'name': self.cname, 'module': self.t.classes[self.cname].module, 'mro': self.mro,
            'params': self.params, 'fit_params': self.fit_params, 'init': init,
            'readsFirst': list(self.reads_first), 'mayWrite': list(self.may_write), 'mustWrite': list(self.must_write),
            'deep': deep, 'logs': sorted(self.logs), 'normalised': [{'attr': a, 'cls': c} for a, c in sorted(self.normalised.items())],
            'rng': [{'kind': k, 'arg': a} for k, a in self.rng], 'subs': list(self.subs),
            'opaque': sorted(set(self.opaque)), 'notes': self.notes,
        }


_PYX_RAND_MEMO = {}


def _pyx_rand_info(src):
    """Per function of a .pyx source: does it (or a function of the module it calls) draw from the C library's rand();
    is the generator re-seeded with srand() *before the first draw on every path*: unconditionally, or under a guard
    `if <p> >= 0` on the very parameter `p` it seeds with (then the call site decides); parameter names.
    (Cython's parser; regex fallback for the whole module under the key '*'.)"""
    key = hash(src)
    if key in _PYX_RAND_MEMO:
        return _PYX_RAND_MEMO[key]
    info = {}
    try:
        from Cython.Compiler.TreeFragment import parse_from_strings
        tree = parse_from_strings('m', src)

        def tn(n):
            return type(n).__name__

        def walk(n):
            yield n
            for cattr in getattr(n, 'child_attrs', None) or []:
                c = getattr(n, cattr, None)
                if c is None:
                    continue
                for x in (c if isinstance(c, list) else [c]):
                    if hasattr(x, 'child_attrs'):
                        yield from walk(x)

        def called(n):
            if tn(n) in ('SimpleCallNode', 'GeneralCallNode') and tn(n.function) == 'NameNode':
                return str(n.function.name)
            return None

        def srand_arg(stat):
            """`srand(p)` as a statement -> name of p ('' when the argument is not a plain name), else None"""
            if tn(stat) == 'ExprStatNode' and called(stat.expr) in ('srand', 'srandom', 'srand48'):
                a = list(getattr(stat.expr, 'args', None) or [])
                return str(a[0].name) if len(a) == 1 and tn(a[0]) == 'NameNode' else ''
            return None
        funcs = {}
        for fn in walk(tree):
            if tn(fn) not in ('DefNode', 'CFuncDefNode'):
                continue
            if tn(fn) == 'DefNode':
                name = str(fn.name)
                params = [str(getattr(a.declarator, 'name', '') or getattr(getattr(a.declarator, 'base', None), 'name', '') or '')
                          for a in fn.args]
            else:
                d = fn.declarator
                args = getattr(d, 'args', []) or []
                params = [str(getattr(a.declarator, 'name', '') or '') for a in args]
                while hasattr(d, 'base') and not getattr(d, 'name', None):
                    d = d.base
                name = str(getattr(d, 'name', '?'))
            funcs[name] = (fn, params)
        for name, (fn, params) in funcs.items():
            calls, draw_pos, seed_pos = set(), [], []
            for n in walk(fn.body):
                c = called(n)
                if c:
                    calls.add(c)
                    if c in ('rand', 'random', 'drand48', 'lrand48', 'rand_r'):
                        draw_pos.append(n.pos[1:])
                    if c in ('srand', 'srandom', 'srand48'):
                        seed_pos.append(n.pos[1:])
            mode, guard_param = None, None
            stats = fn.body.stats if tn(fn.body) == 'StatListNode' else [fn.body]
            for st in stats:
                a = srand_arg(st)
                if a is not None:
                    mode = 'always'
                    break
                if tn(st) == 'IfStatNode' and len(st.if_clauses) == 1 and st.else_clause is None:
                    cl = st.if_clauses[0]
                    cond = cl.condition
                    body = cl.body.stats if tn(cl.body) == 'StatListNode' else [cl.body]
                    if tn(cond) == 'PrimaryCmpNode' and tn(cond.operand1) == 'NameNode' and str(cond.operator) in ('>=', '>') \
                            and tn(cond.operand2) == 'IntNode' and str(cond.operand2.value) == '0' and len(body) == 1:
                        a = srand_arg(body[0])
                        if a and a == str(cond.operand1.name) and a in params:
                            mode, guard_param = 'guarded', a
                            break
            info[name] = {'rand': bool(draw_pos), 'own_draws': draw_pos, 'calls': calls, 'seed_mode': mode,
                          'guard_param': guard_param, 'seed_pos': seed_pos, 'params': params, 'nparams': len(params)}
        # a draw through a helper of the module is a draw (propagate to a fixed point); such a function never counts as
        # seeded-before-first-draw unless its own srand statement comes first in the source
        changed = True
        while changed:
            changed = False
            for name, rec in info.items():
                if not rec['rand'] and any(info.get(c, {}).get('rand') for c in rec['calls'] if c != name):
                    rec['rand'] = True
                    changed = True
        for name, rec in info.items():
            first_seed = min(rec['seed_pos']) if rec['seed_pos'] else None
            helper_draw = any(info.get(c, {}).get('rand') for c in rec['calls'] if c in info and c != name)
            first_draw = min(rec['own_draws']) if rec['own_draws'] else None
            rec['seed_first'] = first_seed is not None and (first_draw is None or first_seed < first_draw) and \
                (not helper_draw or rec['seed_mode'] is not None)
    except Exception:
        import re
        info['*'] = {'rand': bool(re.search(r'(?<![A-Za-z0-9_.])rand\s*\(', src)), 'seed_mode': None, 'seed_first': False,
                     'guard_param': None, 'params': [], 'nparams': 10 ** 6}
    _PYX_RAND_MEMO[key] = info
    return info


def _nonneg_expr(node):
    """Is an argument expression certainly not `None` / negative by its form?  (a plain name, attribute or call; no
    constant that is None or negative, no conditional expression, no unary minus)"""
    for n in ast.walk(node):
        if isinstance(n, ast.IfExp) or (isinstance(n, ast.UnaryOp) and isinstance(n.op, ast.USub)):
            return False
        if isinstance(n, ast.Constant) and (n.value is None or (isinstance(n.value, (int, float)) and not isinstance(n.value, bool)
                                                               and n.value < 0)):
            return False
    return True


def _pyx_rand_kind(src, fname, call):
    """None: no C rand(); 'seeded': srand() dominates every draw — it is the first rand-family call of the function
    and runs unconditionally, or under `if p >= 0` on the parameter it seeds with while the call site passes for `p` an
    expression that cannot be None / negative by its form; 'cRand' otherwise."""
    info = _pyx_rand_info(src)
    rec = info.get(fname) or info.get('*')
    if rec is None:
        # a function we cannot find: be conservative if any function of the module draws from rand()
        return 'cRand' if any(r['rand'] for r in info.values()) else None
    if not rec['rand']:
        return None
    if not rec.get('seed_first'):
        return 'cRand'
    if rec['seed_mode'] == 'always':
        return 'seeded'
    if rec['seed_mode'] == 'guarded':
        p = rec['guard_param']
        idx = rec['params'].index(p)
        arg = None
        if idx < len(call.args):
            arg = call.args[idx]
        for kw in call.keywords:
            if kw.arg == p:
                arg = kw.value
        if arg is not None and _nonneg_expr(arg):
            return 'seeded'
    return 'cRand'


def estimator_classes(tree):
    out = []
    for name, ci in sorted(tree.classes.items()):
        mro = tree.mro(name)
        if 'Algorithm' not in mro or name == 'Algorithm':
            continue
        c, fit = tree.resolve(mro, 'fit')
        if fit is None or c == 'Algorithm' or _raises_not_implemented(fit):
            continue
        out.append(name)
    return out


def extract_tree(root):
    tree = Tree(root)
    descs = []
    for name in estimator_classes(tree):
        try:
            descs.append(Analysis(tree, name).run().describe())
        except Exception as ex:      # a construct the analysis does not know: the class becomes opaque
            descs.append({'name': name, 'module': tree.classes[name].module, 'mro': tree.mro(name), 'params': [],
                          'fit_params': [], 'init': [], 'readsFirst': [], 'mayWrite': [], 'mustWrite': [], 'deep': [],
                          'logs': [], 'normalised': [], 'rng': [], 'subs': [],
                          'opaque': ['translator exception %s: %s' % (type(ex).__name__, ex)], 'notes': []})
    return descs


def check_random_state_desc(root):
    """The branches of utils/check.py:check_random_state as data: [(test kind, result kind)]."""
    p = os.path.join(root, 'sknetwork', 'utils', 'check.py')
    out = []
    if not os.path.exists(p):
        return out
    tree = ast.parse(open(p).read())
    for st in tree.body:
        if isinstance(st, ast.FunctionDef) and st.name == 'check_random_state':
            arg = st.args.args[0].arg
            node = None
            for s in st.body:
                if isinstance(s, ast.If):
                    node = s
                    break
            while node is not None:
                test = ast.unparse(node.test).replace(arg, 'x')
                res = _crs_result(node.body, arg)
                out.append((test, res))
                if len(node.orelse) == 1 and isinstance(node.orelse[0], ast.If):
                    node = node.orelse[0]
                else:
                    out.append(('else', _crs_result(node.orelse, arg)))
                    node = None
    return out


def _crs_result(body, arg):
    if len(body) == 1 and isinstance(body[0], ast.Return):
        v = body[0].value
        if isinstance(v, ast.Name) and v.id == arg:
            return 'same'
        if isinstance(v, ast.Call):
            ch = _attr_chain(v.func)
            if ch and ch[-1] == 'RandomState':
                if not v.args and not v.keywords:
                    return 'entropy'
                if len(v.args) == 1 and isinstance(v.args[0], ast.Name) and v.args[0].id == arg:
                    return 'seeded'
            if ch and len(ch) >= 2 and ch[-2] == 'random' and ch[-1] != 'RandomState':
                return 'other:' + '.'.join(ch)
        if isinstance(v, ast.Attribute):
            ch = _attr_chain(v)
            if ch and ch[-1] in ('random', 'mtrand', '_rand'):
                return 'global'
        return 'other:' + ast.unparse(v)
    if len(body) == 1 and isinstance(body[0], ast.Raise):
        exc = body[0].exc
        if isinstance(exc, ast.Call):
            ch = _attr_chain(exc.func)
            return 'raise:' + (ch[-1] if ch else '?')
        return 'raise:?'
    return 'other:block'


# -- Lean emission ---------------------------------------------------------------------------
def _lstr(s):
    return '"' + str(s).replace('\\', '\\\\').replace('"', '\\"').replace('\n', ' ') + '"'


def _llist(xs, f=_lstr):
    return '[' + ', '.join(f(x) for x in xs) + ']'


def _linit(i):
    k = i['kind']
    if k == 'param':
        v = '.param %s' % _lstr(i['arg'])
    elif k == 'const':
        v = '.const'
    elif k == 'obj':
        v = '.obj %s' % _lstr(i['arg'])
    elif k == 'normal':
        v = '.normal %s' % _lstr(i['arg'])
    elif k == 'rng':
        v = '.rng %s' % _lstr(i['arg'])
    elif k == 'derived':
        v = '.derived'
    else:
        v = '.other'
    return '(%s, %s)' % (_lstr(i['attr']), v)


def _lrng(r):
    k = r['kind']
    m = {'atInit': '.atInit', 'atFit': '.atFit', 'npGlobal': '.npGlobal', 'npSeed': '.npSeed', 'cRand': '.cRand',
         'entropy': '.entropy', 'fresh': '.fresh'}
    return '%s %s' % (m.get(k, '.entropy'), _lstr(r['arg']))


def lean_ident(name):
    return 'e_' + ''.join(c if c.isalnum() else '_' for c in name)


def emit_lean(descs, crs, namespace='SkNet.Generated.EstimatorState', header=True):
    out = (['/- generated by tools/translate/estimators.py from the working tree; do not edit -/',
            'import SkNet.Model.Estimator'] if header else []) + ['namespace ' + namespace, 'open SkNet.Estimator', '']
    for d in descs:
        out.append('def %s : Est :=' % lean_ident(d['name']))
        out.append('  { name := %s,' % _lstr(d['name']))
        out.append('    params := %s,' % _llist(d['params']))
        out.append('    init := %s,' % _llist(d['init'], _linit))
        out.append('    readsFirst := %s,' % _llist(d['readsFirst']))
        out.append('    mayWrite := %s,' % _llist(d['mayWrite']))
        out.append('    mustWrite := %s,' % _llist(d['mustWrite']))
        out.append('    deep := %s,' % _llist(d['deep'], lambda x: '(%s, %s)' % (_lstr(x['attr']), _lstr(x['cls']))))
        out.append('    logs := %s,' % _llist(d['logs']))
        out.append('    normalised := %s,' % _llist(d['normalised'], lambda x: '(%s, %s)' % (_lstr(x['attr']), _lstr(x['cls']))))
        out.append('    rng := %s,' % _llist(d['rng'], _lrng))
        out.append('    subs := %s,' % _llist(d['subs']))
        out.append('    blind := %s,' % _llist(d['opaque']))
        out.append('    deepAlways := %s,' % _llist([x['attr'] for x in d['deep'] if x.get('always')]))
        out.append('    deepReadsUnfitted := %s }' % _llist([x['attr'] for x in d['deep'] if x.get('reads_unfitted')]))
        out.append('')
    out.append('def estimators : List Est := [' + ', '.join(lean_ident(d['name']) for d in descs) + ']')
    out.append('/-- branches of utils/check.py:check_random_state, in order: (test, result) -/')
    out.append('def checkRandomState : List (String × String) := ' + _llist(crs, lambda x: '(%s, %s)' % (_lstr(x[0]), _lstr(x[1]))))
    out.append('end ' + namespace)
    return '\n'.join(out) + '\n'


def main(argv):
    root = argv[1] if len(argv) > 1 else '/repo'
    descs = extract_tree(root)
    print(json.dumps({'estimators': descs, 'check_random_state': check_random_state_desc(root)}, indent=1))
    if len(argv) > 2:
        with open(argv[2], 'w') as fh:
            fh.write(emit_lean(descs, check_random_state_desc(root)))


if __name__ == '__main__':
    main(sys.argv)
