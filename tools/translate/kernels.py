"""Translator: Cython kernels of /repo -> kernel IR (lean/SkNet/Generated/KernelIR.lean), property C17.

Front end: Cython's own parser (`Cython.Compiler.TreeFragment.parse_from_strings`).  Each kernel body is
lowered into the small imperative IR of `SkNet/Model/KernelIR.lean`:

* integer variables, integer arrays (memoryviews, typed ndarrays, `vector[int]` parameters) are interpreted;
* float arrays are *touched* (bounds only), float comparisons are `Cond.nondet`;
* `std::vector` / `queue` / `set` locals are containers (`push`, `pop`, `clear`, `size`); a read from a container
  is a bounds `touch` followed by `pick` (some element), so that sorting, erasing and iteration order need no model;
* anything else (calls into numpy, Python objects, arithmetic other than + and -) is `havoc` (an arbitrary value);
  subscripts of untyped Python objects are checked by the Python runtime itself and are not access sites.

What the translator *declares* (trusted, `SPECS` below): the dimension symbols of each kernel and, for the
arrays it receives, the number of cells and the kind of the stored elements, as established by the Python
wrapper (monitored on every run by the harness on the real arguments).  What it *infers* (untrusted, re-checked
in Lean by `check`): the kinds of the local variables and containers.

Output: Lean source + a JSON description (site names, kernels) for the harness.
"""
import json
import os
import sys

from Cython.Compiler.TreeFragment import parse_from_strings
from Cython.Compiler import Nodes, ExprNodes

INT_TYPES = {'int', 'long', 'short', 'bint', 'Py_ssize_t', 'size_t', 'int_or_long', 'char', 'int32_t', 'int64_t'}
FLOAT_TYPES = {'float', 'double', 'float32_t', 'float64_t'}

# ---- kinds (Python mirror of SkNet.IR.Kind; only used to *infer* declarations, Lean re-checks) ----------
ANY = (None, None)


def lt(d):
    return (0, (d, 0))


def le(d):
    return (0, (d, 1))


def ge(c):
    return (c, None)


NONNEG = (0, None)
F = 'f'   # element marker of float arrays

# ---- what the wrappers establish (dimension symbols; arrays: cells = dim + off, element kind) -------------
CSR = {'indptr': ('n', 1, le('nnz')), 'indices': ('nnz', 0, lt('n'))}

SPECS = [
    dict(name='vote_update', file='classification/vote.pyx', func='vote_update',
         dims=['n', 'nnz', 'm'],
         arrays=dict(CSR, data=('nnz', 0, F), labels=('n', 0, ge(-1)), index=('m', 0, lt('n')))),
    dict(name='optimize_core', file='clustering/louvain_core.pyx', func='optimize_core',
         dims=['n', 'nnz'],
         arrays=dict(CSR, labels=('n', 0, lt('n')), data=('nnz', 0, F), out_weights=('n', 0, F), in_weights=('n', 0, F),
                     out_cluster_weights=('n', 0, F), in_cluster_weights=('n', 0, F), cluster_weights=('n', 0, F),
                     self_loops=('n', 0, F))),
    dict(name='optimize_refine_core', file='clustering/leiden_core.pyx', func='optimize_refine_core',
         dims=['n', 'nnz', 'L'],
         arrays=dict(CSR, labels=('n', 0, ANY), labels_refined=('n', 0, lt('L')), data=('nnz', 0, F),
                     out_weights=('n', 0, F), in_weights=('n', 0, F), out_cluster_weights=('L', 0, F),
                     in_cluster_weights=('L', 0, F), cluster_weights=('L', 0, F), self_loops=('n', 0, F))),
    dict(name='diffusion', file='linalg/diteration.pyx', func='diffusion',
         dims=['n', 'nnz'],
         arrays=dict(CSR, data=('nnz', 0, F), scores=('n', 0, F), fluid=('n', 0, F))),
    dict(name='push_pagerank', file='linalg/push.pyx', func='push_pagerank',
         dims=['n', 'nnz'],
         arrays=dict(CSR, rev_indptr=('n', 1, le('nnz')), rev_indices=('nnz', 0, lt('n')), degrees=('n', 0, ANY),
                     seeds=('n', 0, F), residuals=('n', 0, F), scores=('n', 0, F), indexes=('n', 0, lt('n'))),
         scalars={'n': (0, ('n', 1))}),
    dict(name='count_local_triangles_from_dag', file='topology/triangles.pyx', func='count_local_triangles_from_dag',
         dims=['n', 'nnz'], arrays=dict(CSR), scalars={'node': lt('n')}),
    dict(name='count_triangles_from_dag', file='topology/triangles.pyx', func='count_triangles_from_dag',
         dims=['n', 'nnz'], arrays=dict(CSR)),
    dict(name='weisfeiler_lehman_coloring', file='topology/weisfeiler_lehman_core.pyx', func='weisfeiler_lehman_coloring',
         dims=['n', 'nnz'], arrays=dict(CSR, labels=('n', 0, ANY), powers=('n', 0, F))),
    dict(name='compute_core', file='topology/core.pyx', func='compute_core',
         dims=['n', 'nnz'], arrays=dict(CSR, degrees=('n', 0, ANY), labels=('n', 0, ANY))),
    dict(name='MinHeap.swap', file='topology/minheap.pyx', func='MinHeap.swap', dims=['n'],
         arrays={'self.val': ('n', 0, lt('n')), 'self.pos': ('n', 0, ANY)}, types={'self.size': 'int'},
         scalars={'x': lt('n'), 'y': lt('n')}),
    dict(name='MinHeap.insert_key', file='topology/minheap.pyx', func='MinHeap.insert_key', dims=['n'],
         arrays={'self.val': ('n', 0, lt('n')), 'self.pos': ('n', 0, ANY), 'scores': ('n', 0, ANY)},
         types={'self.size': 'int'}, scalars={'k': lt('n')}),
    dict(name='MinHeap.decrease_key', file='topology/minheap.pyx', func='MinHeap.decrease_key', dims=['n'],
         arrays={'self.val': ('n', 0, lt('n')), 'self.pos': ('n', 0, ANY), 'scores': ('n', 0, ANY)},
         types={'self.size': 'int'}, scalars={'i': lt('n')}),
    dict(name='MinHeap.pop_min', file='topology/minheap.pyx', func='MinHeap.pop_min', dims=['n'],
         arrays={'self.val': ('n', 0, lt('n')), 'self.pos': ('n', 0, ANY), 'scores': ('n', 0, ANY)},
         types={'self.size': 'int'}, returns=lt('n')),
    dict(name='MinHeap.min_heapify', file='topology/minheap.pyx', func='MinHeap.min_heapify', dims=['n'],
         arrays={'self.val': ('n', 0, lt('n')), 'self.pos': ('n', 0, ANY), 'scores': ('n', 0, ANY)},
         types={'self.size': 'int'}, scalars={'i': lt('n')}),
    dict(name='ListingBox.__cinit__', file='topology/cliques.pyx', func='ListingBox.__cinit__', dims=['n', 'nnz', 'k'],
         arrays={'indptr': ('n', 1, le('nnz')), 'ns': ('k', 1, ANY), 'lab': ('n', 0, ANY), 'deg': ('n', 0, ANY),
                 'sub': ('n', 0, ANY)},
         scalars={'k': (0, ('k', 1))}),
    dict(name='count_cliques_from_dag', file='topology/cliques.pyx', func='count_cliques_from_dag',
         dims=['n', 'nnz', 'k'],
         arrays=dict(CSR, **{'box.ns': ('k', 1, ANY), 'box.lab': ('n', 0, ANY)}),
         scalars={'clique_size': (0, ('k', 1))}),
    dict(name='Betweenness.fit', file='ranking/betweenness.pyx', func='Betweenness.fit', dims=['n', 'nnz'],
         arrays={'sigma': ('n', 0, ANY), 'dists': ('n', 0, ANY), 'delta': ('n', 0, F), 'preds': ('n', 0, F)},
         pyseq={'neighbors': lt('n')}, nested={'preds': lt('n')}, pyshape={'adjacency': ('n', 0)}),
    dict(name='AggregateGraph.__init__', file='hierarchy/paris.pyx', func='AggregateGraph.__init__',
         dims=['n', 'nnz'], arrays=dict(CSR, data=('nnz', 0, F), out_weights=('n', 0, F), in_weights=('n', 0, F))),
    dict(name='Paris.fit', file='hierarchy/paris.pyx', func='Paris.fit', dims=['n'], arrays={}),
]

# kernel functions that are called from other kernels: callee name as written at the call -> spec name
CALLEES = {
    'count_local_triangles_from_dag': 'count_local_triangles_from_dag',
    'count_cliques_from_dag': 'count_cliques_from_dag',
    'swap': 'MinHeap.swap', 'insert_key': 'MinHeap.insert_key', 'decrease_key': 'MinHeap.decrease_key',
    'pop_min': 'MinHeap.pop_min', 'min_heapify': 'MinHeap.min_heapify',
}


class Unsupported(Exception):
    pass


def txt(n):
    """Source-like text of an expression node (for site names)."""
    E = ExprNodes
    if n is None:
        return ''
    if isinstance(n, E.NameNode):
        return str(n.name)
    if isinstance(n, E.IntNode):
        return str(n.value)
    if isinstance(n, E.FloatNode):
        return str(n.value)
    if isinstance(n, E.AttributeNode):
        return txt(n.obj) + '.' + str(n.attribute)
    if isinstance(n, E.IndexNode):
        return '%s[%s]' % (txt(n.base), txt(n.index))
    if isinstance(n, E.SimpleCallNode):
        return '%s(%s)' % (txt(n.function), ', '.join(txt(a) for a in n.args))
    if isinstance(n, E.TupleNode):
        return '(%s)' % ', '.join(txt(a) for a in n.args)
    if isinstance(n, E.UnaryMinusNode):
        return '-' + txt(n.operand)
    if isinstance(n, E.NotNode):
        return 'not ' + txt(n.operand)
    if isinstance(n, E.TypecastNode):
        return txt(n.operand)
    if hasattr(n, 'operator') and hasattr(n, 'operand1'):
        return '%s %s %s' % (txt(n.operand1), n.operator, txt(n.operand2))
    if isinstance(n, E.SliceIndexNode):
        return '%s[%s:%s]' % (txt(n.base), txt(n.start), txt(n.stop))
    return type(n).__name__


def base_name(n):
    """Name of the array / container an IndexNode base or a method receiver denotes ('x', 'self.val', 'box.ns')."""
    E = ExprNodes
    if isinstance(n, E.NameNode):
        return str(n.name)
    if isinstance(n, E.AttributeNode) and isinstance(n.obj, E.NameNode):
        return '%s.%s' % (n.obj.name, n.attribute)
    return None


def simple_type(bt):
    """Classify a declared base type node."""
    if isinstance(bt, Nodes.MemoryViewSliceTypeNode):
        inner = simple_type(bt.base_type_node)
        return 'iarr' if inner == 'int' else 'farr'
    if isinstance(bt, Nodes.CTupleBaseTypeNode):
        return ('tuple', [simple_type(c) for c in bt.components])
    if isinstance(bt, Nodes.TemplatedTypeNode):
        b = bt.base_type_node
        bname = getattr(b, 'name', None)
        arg = bt.positional_args[0] if bt.positional_args else None
        if isinstance(arg, Nodes.CComplexBaseTypeNode):
            arg = arg.base_type
        if bname == 'ndarray':
            t = None
            if isinstance(arg, ExprNodes.AttributeNode):
                t = str(arg.attribute)
            elif isinstance(arg, ExprNodes.NameNode):
                t = str(arg.name)
            elif arg is not None:
                t = getattr(arg, 'name', None)
            return 'iarr' if t in INT_TYPES else 'farr'
        if bname in ('vector', 'set', 'queue', 'deque', 'stack'):
            if isinstance(arg, ExprNodes.NameNode):
                nm = str(arg.name)
                inner = 'int' if nm in INT_TYPES else 'float' if nm in FLOAT_TYPES else \
                    ('tupleref', nm) if nm == 'ctuple' else 'py'
            else:
                inner = simple_type(arg) if arg is not None else 'py'
            if isinstance(inner, tuple) and inner[0] == 'tupleref':
                return ('tcontref', inner[1])
            cont = {'vector': 'vec', 'set': 'set', 'queue': 'queue'}.get(bname, 'vec')
            if inner == 'int':
                return 'i' + cont
            if inner == 'float':
                return 'f' + cont
            if isinstance(inner, tuple) and inner[0] == 'tuple':
                return ('t' + cont, inner[1])
            if inner in ('ivec', 'fvec'):
                return 'nested'
            return 'ocont'
        return 'py'
    if isinstance(bt, Nodes.CSimpleBaseTypeNode):
        nm = bt.name
        if nm in INT_TYPES:
            return 'int'
        if nm in FLOAT_TYPES:
            return 'float'
        if nm == 'ctuple':
            return ('tupleref', nm)
        return 'py'
    if isinstance(bt, Nodes.CComplexBaseTypeNode):
        return simple_type(bt.base_type)
    return 'py'


def find_func(tree, qual):
    """Locate `f` or `Class.f` in a parsed module; returns (node, body, args)."""
    parts = qual.split('.')

    def walk(node, want):
        for ch in children(node):
            if isinstance(ch, (Nodes.DefNode, Nodes.CFuncDefNode)):
                nm = ch.name if isinstance(ch, Nodes.DefNode) else ch.declarator.base.name
                if str(nm) == want:
                    return ch
            if isinstance(ch, (Nodes.CClassDefNode, Nodes.PyClassDefNode)):
                continue
            r = walk(ch, want) if not isinstance(ch, (Nodes.DefNode, Nodes.CFuncDefNode)) else None
            if r is not None:
                return r
        return None

    def find_class(node, cname):
        for ch in children(node):
            if isinstance(ch, Nodes.CClassDefNode) and str(ch.class_name) == cname:
                return ch
            if isinstance(ch, Nodes.PyClassDefNode) and str(ch.name) == cname:
                return ch
            if not isinstance(ch, (Nodes.DefNode, Nodes.CFuncDefNode)):
                r = find_class(ch, cname)
                if r is not None:
                    return r
        return None
    if len(parts) == 2:
        c = find_class(tree, parts[0])
        if c is None:
            return None
        return walk(c, parts[1])
    return walk(tree, parts[0])


def children(n):
    out = []
    for a in getattr(n, 'child_attrs', []) or []:
        c = getattr(n, a, None)
        if c is None:
            continue
        if isinstance(c, list):
            out += [x for x in c if x is not None]
        else:
            out.append(c)
    return out


def module_tuple_types(tree):
    out = {}

    def walk(n):
        for ch in children(n):
            if isinstance(ch, Nodes.CTypeDefNode) and isinstance(ch.base_type, Nodes.CTupleBaseTypeNode):
                out[str(ch.declarator.name)] = [simple_type(c) for c in ch.base_type.components]
            if not isinstance(ch, (Nodes.DefNode, Nodes.CFuncDefNode, Nodes.CClassDefNode, ExprNodes.ExprNode)):
                walk(ch)
    walk(tree)
    return out


def decl_name(d):
    """name of a parameter declarator, through reference / pointer declarators (`vector[int]& indptr`)"""
    while not hasattr(d, 'name') and hasattr(d, 'base'):
        d = d.base
    return str(getattr(d, 'name', '') or '')


class Lower:
    def __init__(self, spec, fnode, tuple_types, specs_by_name):
        self.spec = spec
        self.fnode = fnode
        self.tuple_types = tuple_types
        self.specs_by_name = specs_by_name
        self.dims = ['0'] + list(spec['dims'])
        self.var_ids = {}
        self.var_decl = {}       # name -> kind (declared: params, shadows)
        self.arr_ids = {}
        self.arr_info = {}       # name -> dict(static, size, elem, float)
        self.types = {}
        self.sites = []
        self.calls = []
        self.notes = []
        self.prange = 0
        self.ntmp = 0
        self.nnd = 0
        self.tuple_vars = {}     # name -> component types
        self.loops = []
        self.nloop = 0
        for nm, (d, off, elem) in spec.get('arrays', {}).items():
            self.decl_arr(nm, static=True, size=(d, off), elem=(ANY if elem == F else elem), isfloat=(elem == F))
            self.types[nm] = 'farr' if elem == F else 'iarr'
        for nm, k in spec.get('scalars', {}).items():
            self.var(nm)
            self.var_decl[nm] = k
            self.types[nm] = 'int'
        for nm, k in spec.get('pyseq', {}).items():
            self.decl_arr(nm, static=False, size=None, elem=k, isfloat=False, declared_elem=True)
            self.types[nm] = 'pyseq'
        for nm, k in spec.get('nested', {}).items():
            self.decl_arr(nm + '#elems', static=False, size=None, elem=k, isfloat=False, declared_elem=True)
        for nm, t in spec.get('types', {}).items():
            self.types[nm] = t

    # -- tables --------------------------------------------------------------------------------
    def dim_id(self, d):
        return self.dims.index(d)

    def var(self, name):
        if name not in self.var_ids:
            self.var_ids[name] = len(self.var_ids)
        return self.var_ids[name]

    def tmp(self):
        self.ntmp += 1
        return self.var('_t%d' % self.ntmp)

    def decl_arr(self, name, static, size, elem, isfloat, declared_elem=False):
        if name not in self.arr_ids:
            self.arr_ids[name] = len(self.arr_ids)
        self.arr_info[name] = dict(static=static, size=size, elem=elem, float=isfloat, declared_elem=declared_elem or static)
        return self.arr_ids[name]

    def site(self, arr, idxtext, node, kind):
        line = node.pos[1] if getattr(node, 'pos', None) else 0
        self.sites.append(dict(arr=arr, index=idxtext, line=line, kind=kind, text='%s[%s]' % (arr, idxtext)))
        return len(self.sites) - 1

    # -- declarations --------------------------------------------------------------------------
    def collect_types(self):
        f = self.fnode
        args = f.args if isinstance(f, Nodes.DefNode) else f.declarator.args
        for a in args:
            nm = decl_name(a.declarator)
            if not nm:
                continue
            self.note_type(nm, simple_type(a.base_type))

        def walk(n):
            for ch in children(n):
                if isinstance(ch, Nodes.CVarDefNode):
                    t = simple_type(ch.base_type)
                    for d in ch.declarators:
                        base = d
                        while hasattr(base, 'base') and not hasattr(base, 'name'):
                            base = base.base
                        self.note_type(str(base.name), t)
                if isinstance(ch, (Nodes.DefNode, Nodes.CFuncDefNode, Nodes.CClassDefNode)):
                    continue
                walk(ch)
        walk(f.body)

    def note_type(self, nm, t):
        if nm in self.types and nm in self.spec.get('types', {}):
            return
        if isinstance(t, tuple) and t[0] == 'tupleref':
            t = ('tuple', self.tuple_types.get(t[1], []))
        if isinstance(t, tuple) and t[0] == 'tcontref':
            t = ('tvec', self.tuple_types.get(t[1], []))
        if isinstance(t, tuple) and t[0] == 'tuple':
            self.tuple_vars[nm] = t[1]
            self.types[nm] = 'tuple'
            for k, ct in enumerate(t[1]):
                if ct == 'int':
                    self.types['%s#%d' % (nm, k)] = 'int'
            return
        if isinstance(t, tuple) and t[0] in ('tvec', 'tset', 'tqueue'):
            self.types[nm] = 'tvec'
            self.tuple_vars[nm] = t[1]
            for k, ct in enumerate(t[1]):
                if ct == 'int':
                    self.decl_arr('%s#%d' % (nm, k), static=False, size=None, elem=None, isfloat=False)
            self.decl_arr(nm, static=False, size=None, elem=ANY, isfloat=True)   # carries the length
            return
        if isinstance(t, tuple):
            t = 'py'
        if t == 'ocont' and nm + '#elems' not in self.arr_ids:
            t = 'py'
        if t == 'nested' and nm + '#elems' not in self.arr_ids:
            t = 'py'
        if nm in self.arr_info and self.arr_info[nm]['static']:
            self.types[nm] = 'farr' if self.arr_info[nm]['float'] else 'iarr'
            return
        self.types[nm] = t
        if t in ('iarr', 'farr'):
            # an array the spec says nothing about: unknown size
            self.decl_arr(nm, static=True, size=None, elem=ANY, isfloat=(t == 'farr'))
            self.notes.append('array %s has no declared shape' % nm)
        if t in ('ivec', 'iset', 'iqueue'):
            self.decl_arr(nm, static=False, size=None, elem=None, isfloat=False)
        if t in ('fvec', 'fset', 'fqueue'):
            self.decl_arr(nm, static=False, size=None, elem=ANY, isfloat=True)

    def kind_of_name(self, nm):
        return self.types.get(nm, 'py')

    def is_arr(self, nm):
        return nm in self.arr_ids and self.kind_of_name(nm) not in ('py',)

    # -- expressions ---------------------------------------------------------------------------
    def can_int(self, n):
        E = ExprNodes
        if isinstance(n, E.IntNode):
            return True
        if isinstance(n, E.BoolNode):
            return True
        if isinstance(n, E.TypecastNode):
            return self.can_int(n.operand)
        if isinstance(n, E.UnaryMinusNode):
            return isinstance(n.operand, E.IntNode)
        if isinstance(n, (E.NameNode, E.AttributeNode)) and not isinstance(n, E.IndexNode):
            nm = base_name(n)
            if nm is not None and self.kind_of_name(nm) == 'int':
                return True
        if isinstance(n, E.IndexNode):
            nm = base_name(n.base)
            # x.shape[0]
            if isinstance(n.base, E.AttributeNode) and n.base.attribute == 'shape' and isinstance(n.index, E.IntNode) \
                    and n.index.value == '0':
                a = base_name(n.base.obj)
                if a in self.spec.get('pyshape', {}):
                    return True
                return a in self.arr_info and self.arr_info[a]['size'] is not None
            if nm in self.tuple_vars and self.types.get(nm) == 'tuple' and isinstance(n.index, E.IntNode):
                return self.types.get('%s#%s' % (nm, n.index.value)) == 'int'
            if nm is not None and self.types.get(nm) == 'iarr' and self.arr_info[nm]['static']:
                return self.can_int(n.index)
            return False
        if isinstance(n, E.SimpleCallNode):
            fn = n.function
            if isinstance(fn, E.AttributeNode) and fn.attribute == 'size' and not n.args:
                a = base_name(fn.obj)
                return a in self.arr_info and (not self.arr_info[a]['static'] or self.arr_info[a]['size'] is not None) \
                    and self.types.get(a) not in ('iset', 'fset')
            if isinstance(fn, E.NameNode) and fn.name == 'len' and len(n.args) == 1:
                a = base_name(n.args[0])
                return a in self.arr_info and not self.arr_info[a]['static'] and self.types.get(a) not in ('iset', 'fset')
            return False
        if isinstance(n, (E.AddNode, E.SubNode)):
            return self.can_int(n.operand1) and self.can_int(n.operand2)
        return False

    def shape_expr(self, a):
        if a in self.spec.get('pyshape', {}):
            d, off = self.spec['pyshape'][a]
        else:
            d, off = self.arr_info[a]['size']
        e = ('dim', self.dim_id(d))
        return e if off == 0 else ('add', e, ('const', off))

    def low_int(self, n):
        E = ExprNodes
        if isinstance(n, E.IntNode):
            return ('const', int(str(n.value).rstrip('LlUu')))
        if isinstance(n, E.BoolNode):
            return ('const', 1 if n.value else 0)
        if isinstance(n, E.TypecastNode):
            return self.low_int(n.operand)
        if isinstance(n, E.UnaryMinusNode):
            return ('const', -int(n.operand.value))
        if isinstance(n, E.IndexNode):
            nm = base_name(n.base)
            if isinstance(n.base, E.AttributeNode) and n.base.attribute == 'shape':
                return self.shape_expr(base_name(n.base.obj))
            if nm in self.tuple_vars and self.types.get(nm) == 'tuple':
                return ('var', self.var('%s#%s' % (nm, n.index.value)))
            idx = self.low_int(n.index)
            s = self.site(nm, txt(n.index), n, 'load')
            return ('load', s, self.arr_ids[nm], idx)
        if isinstance(n, (E.NameNode, E.AttributeNode)):
            return ('var', self.var(base_name(n)))
        if isinstance(n, E.SimpleCallNode):
            fn = n.function
            a = base_name(fn.obj) if isinstance(fn, E.AttributeNode) else base_name(n.args[0])
            if self.arr_info[a]['static']:
                return self.shape_expr(a)
            return ('size', self.arr_ids[a])
        if isinstance(n, E.AddNode):
            return ('add', self.low_int(n.operand1), self.low_int(n.operand2))
        if isinstance(n, E.SubNode):
            return ('sub', self.low_int(n.operand1), self.low_int(n.operand2))
        raise Unsupported(txt(n))

    def idx_expr(self, n, pre):
        """An index as an Expr; if it cannot be interpreted: touch what it reads, then an arbitrary value."""
        if self.can_int(n):
            return self.low_int(n)
        cr = self.container_read(n)
        t = self.tmp()
        if cr is not None:
            a, ie, node = cr
            pre.append(('touch', self.site(a, txt_idx(node), node, 'read'), self.arr_ids[a], ie(pre)))
            if not self.arr_info[a]['float']:
                pre.append(('pick', t, self.elem_arr_id(a, node)))
                return ('var', t)
        else:
            self.touch_all(n, pre)
        pre.append(('havoc', t))
        return ('var', t)

    def elem_arr_id(self, a, node):
        return self.arr_ids[a]

    def container_read(self, n):
        """`v[i]`, `q.front()`, `v.back()` on a container of ints/floats -> (container, index builder, node)."""
        E = ExprNodes
        if isinstance(n, E.IndexNode):
            a = base_name(n.base)
            if a in self.arr_info and not self.arr_info[a]['static'] and self.types.get(a) in (
                    'ivec', 'fvec', 'iqueue', 'fqueue', 'tvec'):
                return a, (lambda pre, n=n: self.idx_expr(n.index, pre)), n
        if isinstance(n, E.SimpleCallNode) and isinstance(n.function, E.AttributeNode) and not n.args:
            a = base_name(n.function.obj)
            if a in self.arr_info and not self.arr_info[a]['static']:
                if n.function.attribute in ('front', 'top'):
                    return a, (lambda pre: ('const', 0)), n
                if n.function.attribute == 'back':
                    return a, (lambda pre, a=a: ('sub', ('size', self.arr_ids[a]), ('const', 1))), n
        return None

    def touch_all(self, n, pre):
        """Bounds-touch every typed array access inside an uninterpreted expression (evaluation order)."""
        E = ExprNodes
        if n is None:
            return
        cr = self.container_read(n)
        if cr is not None:
            a, ie, node = cr
            pre.append(('touch', self.site(a, txt_idx(node), node, 'read'), self.arr_ids[a], ie(pre)))
            return
        if isinstance(n, E.IndexNode):
            a = base_name(n.base)
            if isinstance(n.base, E.AttributeNode) and n.base.attribute == 'shape':
                return
            if a in self.arr_info and self.types.get(a) in ('iarr', 'farr', 'tvec', 'nestedouter') or \
                    (a in self.arr_info and self.arr_info[a]['static']):
                idx = self.idx_expr(n.index, pre)
                pre.append(('touch', self.site(a, txt(n.index), n, 'read'), self.arr_ids[a], idx))
                return
            # Python object subscript: checked by the runtime; look inside
            self.touch_all(n.base, pre)
            self.touch_all(n.index, pre)
            return
        if isinstance(n, E.SimpleCallNode):
            self.maybe_call(n, pre)
        for ch in children(n):
            if isinstance(ch, E.ExprNode):
                self.touch_all(ch, pre)

    def maybe_call(self, n, pre):
        E = ExprNodes
        fn = n.function
        nm = str(fn.name) if isinstance(fn, E.NameNode) else (str(fn.attribute) if isinstance(fn, E.AttributeNode) else None)
        if nm in CALLEES and CALLEES[nm] in self.specs_by_name:
            callee = self.specs_by_name[CALLEES[nm]]
            if callee['name'] != self.spec['name'] or True:
                self.calls.append(callee['name'])
                fnode_args = callee.get('_params', [])
                for p, a in zip(fnode_args, n.args):
                    if p in callee.get('scalars', {}):
                        k = callee['scalars'][p]
                        if k[0] != 0 or k[1] is None or k[1][0] not in self.dims:
                            continue
                        # the callee's precondition `0 <= arg < dim + c` as a bounds obligation on a
                        # pseudo-array of that many cells (so that it is reported, and waivable, like a site)
                        dom = '%s.%s#dom' % (callee['name'], p)
                        if dom not in self.arr_ids:
                            self.decl_arr(dom, static=True, size=k[1], elem=ANY, isfloat=True)
                            self.types[dom] = 'farr'
                        e = self.low_int(a) if self.can_int(a) else self.idx_expr(a, pre)
                        pre.append(('touch', self.site(dom, txt(a), n, 'callarg'), self.arr_ids[dom], e))
                # a call may change shared integer arrays: forget all facts
                pre.append(('ite', ('nondet', self.nd()), ('skip',), ('skip',)))

    def nd(self):
        self.nnd += 1
        return self.nnd

    # -- conditions ----------------------------------------------------------------------------
    def low_cond(self, n, pre):
        E = ExprNodes
        if isinstance(n, E.BoolBinopNode):
            c1 = self.low_cond(n.operand1, pre)
            c2 = self.low_cond(n.operand2, pre)
            return ('and' if n.operator == 'and' else 'or', c1, c2)
        if isinstance(n, E.NotNode):
            return ('not', self.low_cond(n.operand, pre))
        if isinstance(n, E.PrimaryCmpNode) and n.cascade is None and n.operator in ('<', '<=', '>', '>=', '==', '!='):
            a, b = n.operand1, n.operand2
            if self.can_int(a) and self.can_int(b):
                ea, eb = self.low_int(a), self.low_int(b)
                op = n.operator
                if op == '<':
                    return ('lt', ea, eb)
                if op == '<=':
                    return ('le', ea, eb)
                if op == '>':
                    return ('lt', eb, ea)
                if op == '>=':
                    return ('le', eb, ea)
                if op == '==':
                    return ('eq', ea, eb)
                return ('ne', ea, eb)
            return self.opaque_cond(n, pre)
        if isinstance(n, (E.NameNode, E.AttributeNode)) and self.can_int(n):
            return ('ne', self.low_int(n), ('const', 0))
        if isinstance(n, E.SimpleCallNode) and isinstance(n.function, E.AttributeNode):
            a = base_name(n.function.obj)
            if n.function.attribute == 'empty' and a in self.arr_info and not self.arr_info[a]['static'] \
                    and self.types.get(a) not in ('iset', 'fset'):
                return ('eq', ('size', self.arr_ids[a]), ('const', 0))
            if n.function.attribute == 'size' and self.can_int(n):
                return ('ne', self.low_int(n), ('const', 0))
        if isinstance(n, E.IntNode):
            return ('ne', ('const', int(n.value)), ('const', 0))
        return self.opaque_cond(n, pre)

    def opaque_cond(self, n, pre):
        """A test the IR does not interpret: the array cells it reads are touched, the outcome is arbitrary."""
        accs = []
        self.collect_acc(n, accs, pre)
        c = ('nondet', self.nd())
        for (s, a, idx) in reversed(accs):
            c = ('acc', s, a, idx, c)
        return c

    def collect_acc(self, n, accs, pre):
        E = ExprNodes
        if n is None:
            return
        cr = self.container_read(n)
        if cr is not None:
            a, ie, node = cr
            accs.append((self.site(a, txt_idx(node), node, 'read'), self.arr_ids[a], ie(pre)))
            return
        if isinstance(n, E.IndexNode):
            a = base_name(n.base)
            if isinstance(n.base, E.AttributeNode) and n.base.attribute == 'shape':
                return
            if a in self.arr_info and (self.arr_info[a]['static'] or self.types.get(a) == 'tvec'):
                if self.can_int(n.index):
                    idx = self.low_int(n.index)
                else:
                    idx = self.idx_expr(n.index, pre)
                accs.append((self.site(a, txt(n.index), n, 'read'), self.arr_ids[a], idx))
                return
        if isinstance(n, E.SimpleCallNode):
            self.maybe_call(n, pre)
        for ch in children(n):
            if isinstance(ch, E.ExprNode):
                self.collect_acc(ch, accs, pre)

    # -- statements ----------------------------------------------------------------------------
    def seq(self, stmts):
        stmts = [s for s in stmts if s != ('skip',)]
        if not stmts:
            return ('skip',)
        out = stmts[-1]
        for s in reversed(stmts[:-1]):
            out = ('seq', s, out)
        return out

    def low_body(self, n):
        out = []
        self.low_stmt(n, out)
        return self.seq(out)

    def assign_int(self, name, rhs, out, node):
        """`name = rhs` for an integer variable."""
        x = self.var(name)
        if rhs is None:
            return
        cr = self.container_read(rhs)
        if cr is not None and not self.arr_info[cr[0]]['float']:
            a, ie, nd = cr
            out.append(('touch', self.site(a, txt_idx(nd), nd, 'read'), self.arr_ids[a], ie(out)))
            out.append(('pick', x, self.arr_ids[a]))
            return
        if self.can_int(rhs):
            out.append(('assign', x, self.low_int(rhs)))
            return
        self.touch_all(rhs, out)
        callee = self.callee_of(rhs)
        if callee is not None and callee.get('returns') is not None and self.dims_known(callee['returns']):
            # the value returned by another kernel: some value of the kind that kernel is checked to return
            nm = callee['name'] + '#ret'
            if nm not in self.arr_ids:
                self.decl_arr(nm, static=False, size=None, elem=callee['returns'], isfloat=False, declared_elem=True)
            out.append(('pick', x, self.arr_ids[nm]))
            return
        out.append(('havoc', x))

    def callee_of(self, n):
        E = ExprNodes
        if not isinstance(n, E.SimpleCallNode):
            return None
        fn = n.function
        nm = str(fn.name) if isinstance(fn, E.NameNode) else (str(fn.attribute) if isinstance(fn, E.AttributeNode) else None)
        if nm in CALLEES and CALLEES[nm] in self.specs_by_name:
            return self.specs_by_name[CALLEES[nm]]
        return None

    def dims_known(self, k):
        return k[1] is None or k[1][0] in self.dims

    def low_assign(self, lhs, rhs, out, node, inplace=None):
        E = ExprNodes
        if isinstance(lhs, E.TupleNode):
            # unpacking of a tuple-typed variable, or parallel assignment from a tuple expression
            src = base_name(rhs) if isinstance(rhs, (E.NameNode,)) else None
            if src in self.tuple_vars and self.types.get(src) == 'tuple':
                for k, tgt in enumerate(lhs.args):
                    tn = base_name(tgt)
                    if tn is not None and self.kind_of_name(tn) == 'int' and self.types.get('%s#%d' % (src, k)) == 'int':
                        out.append(('assign', self.var(tn), ('var', self.var('%s#%d' % (src, k)))))
                    elif tn is not None and self.kind_of_name(tn) == 'int':
                        out.append(('havoc', self.var(tn)))
                return
            cr = self.container_read(rhs)
            if cr is not None and self.types.get(cr[0]) == 'tvec':
                a, ie, nd = cr
                out.append(('touch', self.site(a, txt_idx(nd), nd, 'read'), self.arr_ids[a], ie(out)))
                for k, tgt in enumerate(lhs.args):
                    tn = base_name(tgt)
                    if tn is not None and self.kind_of_name(tn) == 'int':
                        if ('%s#%d' % (a, k)) in self.arr_ids:
                            out.append(('pick', self.var(tn), self.arr_ids['%s#%d' % (a, k)]))
                        else:
                            out.append(('havoc', self.var(tn)))
                return
            if isinstance(rhs, E.TupleNode) and len(rhs.args) == len(lhs.args):
                for tgt, r in zip(lhs.args, rhs.args):
                    self.low_assign(tgt, r, out, node)
                return
            self.touch_all(rhs, out)
            for tgt in lhs.args:
                tn = base_name(tgt)
                if tn is not None and self.kind_of_name(tn) == 'int':
                    out.append(('havoc', self.var(tn)))
            return
        nm = base_name(lhs) if not isinstance(lhs, E.IndexNode) else None
        if nm is not None:
            t = self.kind_of_name(nm)
            if t == 'int':
                if inplace is None:
                    self.assign_int(nm, rhs, out, node)
                else:
                    if inplace in ('+', '-') and self.can_int(rhs):
                        out.append(('assign', self.var(nm), ('add' if inplace == '+' else 'sub', ('var', self.var(nm)),
                                                              self.low_int(rhs))))
                    else:
                        self.touch_all(rhs, out)
                        out.append(('havoc', self.var(nm)))
                return
            if t == 'tuple':
                comps = self.tuple_vars[nm]
                src = base_name(rhs) if isinstance(rhs, E.NameNode) else None
                cr = self.container_read(rhs)
                if src in self.tuple_vars and self.types.get(src) == 'tuple':
                    for k, ct in enumerate(comps):
                        if ct == 'int':
                            out.append(('assign', self.var('%s#%d' % (nm, k)), ('var', self.var('%s#%d' % (src, k)))))
                elif cr is not None and self.types.get(cr[0]) == 'tvec':
                    a, ie, nd = cr
                    out.append(('touch', self.site(a, txt_idx(nd), nd, 'read'), self.arr_ids[a], ie(out)))
                    for k, ct in enumerate(comps):
                        if ct == 'int':
                            out.append(('pick', self.var('%s#%d' % (nm, k)), self.arr_ids['%s#%d' % (a, k)]))
                else:
                    self.touch_all(rhs, out)
                    for k, ct in enumerate(comps):
                        if ct == 'int':
                            out.append(('havoc', self.var('%s#%d' % (nm, k))))
                return
            # float / python / container variable: only the reads matter
            self.touch_all(rhs, out)
            return
        if isinstance(lhs, E.IndexNode):
            a = base_name(lhs.base)
            if isinstance(lhs.base, E.IndexNode):
                # nested: preds[j].push_back handled elsewhere; x[i][j] = v on python objects
                self.touch_all(lhs.base, out)
                self.touch_all(lhs.index, out)
                self.touch_all(rhs, out)
                return
            if a in self.arr_info and (self.arr_info[a]['static'] or self.types.get(a) in ('ivec', 'fvec')):
                info = self.arr_info[a]
                idx = self.idx_expr(lhs.index, out)
                if info['float'] or not info['static']:
                    self.touch_all(rhs, out)
                    out.append(('touch', self.site(a, txt(lhs.index), lhs, 'write'), self.arr_ids[a], idx))
                    if not info['float'] and not info['static']:
                        # store into an int container by index: the new element joins the possible contents
                        v = self.value_expr(rhs, out, inplace, None)
                        out.append(('push', self.arr_ids[a], v))
                        self.notes.append('indexed store into container %s modelled as touch + push' % a)
                    return
                if inplace is not None:
                    s0 = self.site(a, txt(lhs.index), lhs, 'load')
                    cur = ('load', s0, self.arr_ids[a], idx)
                    if inplace in ('+', '-') and self.can_int(rhs):
                        v = ('add' if inplace == '+' else 'sub', cur, self.low_int(rhs))
                    else:
                        self.touch_all(rhs, out)
                        out.append(('touch', s0, self.arr_ids[a], idx))
                        t = self.tmp()
                        out.append(('havoc', t))
                        v = ('var', t)
                else:
                    v = self.value_expr(rhs, out, None, None)
                out.append(('store', self.site(a, txt(lhs.index), lhs, 'store'), self.arr_ids[a], idx, v))
                return
            # python object subscript store
            self.touch_all(lhs.base, out)
            self.touch_all(lhs.index, out)
            self.touch_all(rhs, out)
            return
        self.touch_all(rhs, out)

    def value_expr(self, rhs, out, inplace, cur):
        if self.can_int(rhs):
            return self.low_int(rhs)
        return self.idx_expr(rhs, out)

    def low_stmt(self, n, out):
        E = ExprNodes
        N = Nodes
        if n is None:
            return
        if isinstance(n, N.StatListNode):
            stats = list(n.stats)
            for i, s in enumerate(stats):
                self.low_stmt(s, out)
                if self.loops and self.has_jump(s) and i + 1 < len(stats):
                    rest = []
                    self.low_stmt(N.StatListNode(n.pos, stats=stats[i + 1:]), rest)
                    brk, cnt = self.loops[-1]
                    out.append(('ite', ('and', ('eq', ('var', brk), ('const', 0)), ('eq', ('var', cnt), ('const', 0))),
                                self.seq(rest), ('skip',)))
                    return
            return
        if isinstance(n, N.CVarDefNode):
            for d in n.declarators:
                base = d
                while hasattr(base, 'base') and not hasattr(base, 'name'):
                    base = base.base
                dflt = getattr(d, 'default', None)
                if dflt is not None:
                    nm = str(base.name)
                    if self.kind_of_name(nm) == 'int':
                        self.assign_int(nm, dflt, out, n)
                    elif self.types.get(nm) in ('iarr', 'farr') and nm in self.arr_info:
                        self.touch_all(dflt, out)     # array created by an external call: shape from the spec
                    else:
                        self.touch_all(dflt, out)
            return
        if isinstance(n, N.SingleAssignmentNode):
            self.low_assign(n.lhs, n.rhs, out, n)
            return
        if isinstance(n, N.CascadedAssignmentNode):
            for l in n.lhs_list:
                self.low_assign(l, n.rhs, out, n)
            return
        if isinstance(n, N.ParallelAssignmentNode):
            for s in n.stats:
                self.low_stmt(s, out)
            return
        if isinstance(n, N.InPlaceAssignmentNode):
            self.low_assign(n.lhs, n.rhs, out, n, inplace=n.operator)
            return
        if isinstance(n, N.ExprStatNode):
            self.low_exprstat(n.expr, out)
            return
        if isinstance(n, N.IfStatNode):
            self.low_if(n.if_clauses, n.else_clause, out)
            return
        if isinstance(n, N.WhileStatNode):
            pre = []
            c = self.low_cond(n.condition, pre)
            body = []
            jump = self.has_jump(n.body)
            if jump:
                self.push_loop(out)
            self.low_stmt(n.body, body)
            out.extend(pre)
            if jump:
                brk, cnt = self.loops.pop()
                c = ('and', ('eq', ('var', brk), ('const', 0)), c)
                body = [('assign', cnt, ('const', 0))] + body
            out.append(('while', c, self.seq(body + pre)))
            if n.else_clause is not None:
                self.low_stmt(n.else_clause, out)
            return
        if isinstance(n, N.ForInStatNode):
            self.low_for(n, out)
            return
        if isinstance(n, N.ReturnStatNode):
            if n.value is not None:
                if self.spec.get('returns') is not None:
                    self.var_decl['_ret'] = self.spec['returns']
                    self.types['_ret'] = 'int'
                    self.assign_int('_ret', n.value, out, n)
                else:
                    self.touch_all(n.value, out)
            out.append(('ret',))
            return
        if isinstance(n, (N.PassStatNode, N.CImportStatNode, N.FromCImportStatNode, N.FromImportStatNode,
                          N.GlobalNode)):
            return
        if isinstance(n, N.BreakStatNode):
            out.append(('assign', self.loops[-1][0], ('const', 1)))
            return
        if isinstance(n, N.ContinueStatNode):
            out.append(('assign', self.loops[-1][1], ('const', 1)))
            return
        if isinstance(n, N.DelStatNode):
            for a in n.args:
                self.touch_all(a, out)
            return
        if isinstance(n, N.RaiseStatNode):
            out.append(('ret',))
            return
        if isinstance(n, (N.GILStatNode,)):
            self.low_stmt(n.body, out)
            return
        self.notes.append('statement %s at line %s not interpreted' % (type(n).__name__, n.pos[1]))
        for ch in children(n):
            if isinstance(ch, E.ExprNode):
                self.touch_all(ch, out)
            elif isinstance(ch, N.Node):
                self.low_stmt(ch, out)

    def has_jump(self, n):
        """Does the statement contain a break/continue of the *current* loop?"""
        if isinstance(n, (Nodes.BreakStatNode, Nodes.ContinueStatNode)):
            return True
        if isinstance(n, (Nodes.WhileStatNode, Nodes.ForInStatNode, Nodes.DefNode, Nodes.CFuncDefNode)):
            return False
        if isinstance(n, ExprNodes.ExprNode):
            return False
        return any(self.has_jump(c) for c in children(n))

    def push_loop(self, out):
        self.nloop += 1
        brk, cnt = self.var('_brk%d' % self.nloop), self.var('_cnt%d' % self.nloop)
        out.append(('assign', brk, ('const', 0)))
        out.append(('assign', cnt, ('const', 0)))
        self.loops.append((brk, cnt))

    def low_if(self, clauses, else_clause, out):
        if not clauses:
            if else_clause is not None:
                self.low_stmt(else_clause, out)
            return
        c0 = clauses[0]
        pre = []
        c = self.low_cond(c0.condition, pre)
        out.extend(pre)
        th = []
        self.low_stmt(c0.body, th)
        el = []
        self.low_if(clauses[1:], else_clause, el)
        out.append(('ite', c, self.seq(th), self.seq(el)))

    def low_exprstat(self, e, out):
        E = ExprNodes
        if isinstance(e, E.SimpleCallNode) and isinstance(e.function, E.AttributeNode):
            meth = str(e.function.attribute)
            recv = e.function.obj
            a = base_name(recv)
            # preds[j].push_back(i): vector of vectors
            if isinstance(recv, E.IndexNode):
                outer = base_name(recv.base)
                if outer is not None and (outer + '#elems') in self.arr_ids and meth in ('push_back', 'push', 'insert'):
                    idx = self.idx_expr(recv.index, out)
                    out.append(('touch', self.site(outer, txt(recv.index), recv, 'read'), self.arr_ids[outer], idx))
                    out.append(('push', self.arr_ids[outer + '#elems'], self.value_expr(e.args[0], out, None, None)))
                    return
            if a in self.arr_info and not self.arr_info[a]['static']:
                t = self.types.get(a)
                if meth in ('push_back', 'push', 'insert', 'emplace_back') and len(e.args) == 1:
                    arg = e.args[0]
                    if t == 'tvec':
                        comps = self.tuple_vars[a]
                        if isinstance(arg, E.TupleNode):
                            for k, (ct, x) in enumerate(zip(comps, arg.args)):
                                if ct == 'int':
                                    out.append(('push', self.arr_ids['%s#%d' % (a, k)], self.value_expr(x, out, None, None)))
                                else:
                                    self.touch_all(x, out)
                        else:
                            self.touch_all(arg, out)
                        out.append(('push', self.arr_ids[a], ('const', 0)))
                        return
                    if self.arr_info[a]['float']:
                        self.touch_all(arg, out)
                        out.append(('push', self.arr_ids[a], ('const', 0)))
                    else:
                        out.append(('push', self.arr_ids[a], self.value_expr(arg, out, None, None)))
                    return
                if meth == 'clear':
                    out.append(('clear', self.arr_ids[a]))
                    for k in range(len(self.tuple_vars.get(a, []))):
                        if ('%s#%d' % (a, k)) in self.arr_ids:
                            out.append(('clear', self.arr_ids['%s#%d' % (a, k)]))
                    return
                if meth in ('pop_back', 'pop'):
                    if t in ('iset', 'fset'):
                        return
                    out.append(('pop', self.site(a, meth + '()', e, 'pop'), self.arr_ids[a]))
                    return
                if meth in ('erase',):
                    for x in e.args:
                        self.touch_all(x, out)
                    return     # contents over-approximated: erased elements stay possible
                if meth in ('reserve', 'resize', 'shrink_to_fit'):
                    for x in e.args:
                        self.touch_all(x, out)
                    self.notes.append('%s.%s(%s)' % (a, meth, ', '.join(txt(x) for x in e.args)))
                    return
            if a in self.arr_info and self.arr_info[a]['static'] and meth in ('reserve', 'resize'):
                self.notes.append('%s.%s(%s)' % (a, meth, ', '.join(txt(x) for x in e.args)))
                return
        self.touch_all(e, out)

    def low_for(self, n, out):
        E = ExprNodes
        seqn = n.iterator.sequence if hasattr(n.iterator, 'sequence') else n.iterator
        tgt = n.target
        tn = base_name(tgt) if not isinstance(tgt, E.TupleNode) else None
        rng = None
        if isinstance(seqn, E.SimpleCallNode) and isinstance(seqn.function, E.NameNode) and seqn.function.name in ('range', 'prange'):
            rng = list(seqn.args)
            if seqn.function.name == 'prange':
                self.prange += 1
        elif isinstance(seqn, E.GeneralCallNode) and isinstance(seqn.function, E.NameNode) and seqn.function.name in ('range', 'prange'):
            rng = list(seqn.positional_args.args)
            if seqn.function.name == 'prange':
                self.prange += 1
        body = []
        if rng is not None and len(rng) in (1, 2) and tn is not None:
            if tn not in self.types:
                self.types[tn] = 'int'      # untyped loop variable of a C range loop
            lo = ('const', 0) if len(rng) == 1 else self.idx_expr(rng[0], out)
            hi = self.idx_expr(rng[-1], out)
            jump = self.has_jump(n.body)
            if jump:
                self.push_loop(out)
            self.low_stmt(n.body, body)
            x = self.var(tn) if self.kind_of_name(tn) == 'int' else self.tmp()
            if jump:
                # a range loop left early: a while loop over a private counter, the loop variable copied from it
                brk, cnt = self.loops.pop()
                it, top = self.tmp(), self.tmp()
                out.append(('assign', it, lo))
                out.append(('assign', top, hi))
                out.append(('while', ('and', ('eq', ('var', brk), ('const', 0)), ('lt', ('var', it), ('var', top))),
                            self.seq([('assign', cnt, ('const', 0)), ('assign', x, ('var', it))] + body +
                                     [('assign', it, ('add', ('var', it), ('const', 1)))])))
            else:
                out.append(('forRange', x, lo, hi, self.seq(body)))
            if n.else_clause is not None:
                self.low_stmt(n.else_clause, out)
            return
        # iteration over a container / array / python sequence: an unknown number of rounds, each on some element
        a = base_name(seqn)
        src = None
        if a in self.arr_info and not self.arr_info[a]['float']:
            src = self.arr_ids[a]
        elif isinstance(seqn, E.IndexNode):
            outer = base_name(seqn.base)
            if outer is not None and (outer + '#elems') in self.arr_ids:
                idx = self.idx_expr(seqn.index, out)
                out.append(('touch', self.site(outer, txt(seqn.index), seqn, 'read'), self.arr_ids[outer], idx))
                src = self.arr_ids[outer + '#elems']
            else:
                self.touch_all(seqn, out)
        else:
            self.touch_all(seqn, out)
        head = []
        if isinstance(tgt, E.TupleNode):
            for k, x in enumerate(tgt.args):
                xn = base_name(x)
                if xn is not None and self.kind_of_name(xn) == 'int':
                    if a is not None and ('%s#%d' % (a, k)) in self.arr_ids:
                        head.append(('pick', self.var(xn), self.arr_ids['%s#%d' % (a, k)]))
                    else:
                        head.append(('havoc', self.var(xn)))
        elif tn is not None and self.kind_of_name(tn) == 'int':
            if src is not None:
                head.append(('pick', self.var(tn), src))
            else:
                head.append(('havoc', self.var(tn)))
        jump = self.has_jump(n.body)
        if jump:
            self.push_loop(out)
        self.low_stmt(n.body, body)
        c = ('nondet', self.nd())
        if jump:
            brk, cnt = self.loops.pop()
            c = ('and', ('eq', ('var', brk), ('const', 0)), c)
            head = [('assign', cnt, ('const', 0))] + head
        out.append(('while', c, self.seq(head + body)))
        if n.else_clause is not None:
            self.low_stmt(n.else_clause, out)

    # -- kind inference (untrusted; `check` in Lean is the judge) ---------------------------------
    def infer(self, body):
        dims = self.dims
        BOT = 'bot'
        vk = {}
        for nm, i in self.var_ids.items():
            vk[i] = self.var_decl.get(nm, ANY if i in getattr(self, 'entry_webs', ()) else BOT)
        declared_vars = {self.var_ids[nm] for nm in self.var_decl}
        ak = {}
        for nm, i in self.arr_ids.items():
            info = self.arr_info[nm]
            ak[i] = info['elem'] if info['elem'] is not None else BOT
        declared_arr = {self.arr_ids[nm] for nm, info in self.arr_info.items() if info['declared_elem'] or info['float']}

        def join(k1, k2):
            if k1 == BOT:
                return k2
            if k2 == BOT:
                return k1
            lo = None if (k1[0] is None or k2[0] is None) else min(k1[0], k2[0])
            h1, h2 = k1[1], k2[1]
            if h1 is None or h2 is None:
                hi = None
            elif h1[0] == h2[0]:
                hi = (h1[0], max(h1[1], h2[1]))
            elif h1[0] == '0' and h1[1] <= h2[1]:
                hi = h2
            elif h2[0] == '0' and h2[1] <= h1[1]:
                hi = h1
            else:
                hi = None
            return (lo, hi)

        def kof(e):
            t = e[0]
            if t == 'const':
                return (e[1], ('0', e[1] + 1))
            if t == 'var':
                return vk[e[1]]
            if t == 'dim':
                return (0, (dims[e[1]], 1))
            if t == 'size':
                return (0, None)
            if t == 'load':
                return ak[e[2]]
            a, b = kof(e[1]), kof(e[2])
            if a == BOT or b == BOT:
                return BOT
            if t == 'add':
                lo = None if (a[0] is None or b[0] is None) else a[0] + b[0]
                hi = None
                if a[1] is not None and b[1] is not None:
                    if b[1][0] == '0':
                        hi = (a[1][0], a[1][1] + b[1][1] - 1)
                    elif a[1][0] == '0':
                        hi = (b[1][0], a[1][1] + b[1][1] - 1)
                return (lo, hi)
            lo = None
            if a[0] is not None and b[1] is not None and b[1][0] == '0':
                lo = a[0] - b[1][1] + 1
            hi = None
            if a[1] is not None and b[0] is not None:
                hi = (a[1][0], a[1][1] - b[0])
            return (lo, hi)

        changed = [True]

        def upd_var(x, k):
            if x in declared_vars or k == BOT:
                return
            nk = join(vk[x], k)
            if nk != vk[x]:
                vk[x] = nk
                changed[0] = True

        def upd_arr(a, k):
            if a in declared_arr or k == BOT:
                return
            nk = join(ak[a], k)
            if nk != ak[a]:
                ak[a] = nk
                changed[0] = True

        def walk(s):
            t = s[0]
            if t == 'seq':
                walk(s[1])
                walk(s[2])
            elif t == 'assign':
                upd_var(s[1], kof(s[2]))
            elif t == 'havoc':
                upd_var(s[1], ANY)
            elif t == 'pick':
                upd_var(s[1], ak[s[2]])
            elif t == 'push':
                upd_arr(s[1], kof(s[2]))
            elif t == 'forRange':
                lo, hi = kof(s[2]), kof(s[3])
                if lo != BOT and hi != BOT:
                    upd_var(s[1], (lo[0], None if hi[1] is None else (hi[1][0], hi[1][1] - 1)))
                walk(s[4])
            elif t == 'while':
                walk(s[2])
            elif t == 'ite':
                walk(s[2])
                walk(s[3])
        rounds = 0
        while changed[0] and rounds < 12:
            changed[0] = False
            walk(body)
            rounds += 1
        if changed[0]:
            # widening: whatever still moves loses the moving bound
            for _ in range(6):
                before = (dict(vk), dict(ak))
                changed[0] = False
                walk(body)
                for x in vk:
                    if vk[x] != before[0][x] and vk[x] != BOT and before[0][x] != BOT:
                        lo = vk[x][0] if vk[x][0] == before[0][x][0] else None
                        hi = vk[x][1] if vk[x][1] == before[0][x][1] else None
                        vk[x] = (lo, hi)
                for a in ak:
                    if ak[a] != before[1][a] and ak[a] != BOT and before[1][a] != BOT:
                        lo = ak[a][0] if ak[a][0] == before[1][a][0] else None
                        hi = ak[a][1] if ak[a][1] == before[1][a][1] else None
                        ak[a] = (lo, hi)
                if not changed[0]:
                    break
        vks = {x: (ANY if k == BOT else k) for x, k in vk.items()}
        aks = {a: (ANY if k == BOT else k) for a, k in ak.items()}
        return vks, aks

    # -- live-range splitting: one IR variable per web of definitions and uses ------------------------
    def split_webs(self, body):
        """C code reuses a variable for unrelated purposes (`jj` is a node, then a position in a vector); the
        kinds are per variable, so every web of (definitions reaching common uses) becomes its own variable."""
        parent = {}

        def find(a):
            while parent.setdefault(a, a) != a:
                parent[a] = parent[parent[a]]
                a = parent[a]
            return a

        def union(a, b):
            ra, rb = find(a), find(b)
            if ra != rb:
                # keep 'init' definitions as representatives (declared kinds attach to them)
                if isinstance(rb, tuple) and rb[0] == 'init':
                    parent[ra] = rb
                else:
                    parent[rb] = ra
        use_def = {}      # occurrence key -> some reaching definition
        declared_ids = {self.var_ids[nm] for nm in self.var_decl if nm in self.var_ids}

        def mkdef(path, x):
            # declared variables (parameters, callee parameters, the return value) are never split
            return ('init', x) if x in declared_ids else ('def', path)

        def uses_expr(e, env, key, ctr):
            t = e[0]
            if t == 'var':
                k = (key, ctr[0])
                ctr[0] += 1
                ds = list(env[e[1]])
                for d in ds[1:]:
                    union(ds[0], d)
                use_def[k] = ds[0]
            elif t == 'load':
                uses_expr(e[3], env, key, ctr)
            elif t in ('add', 'sub'):
                uses_expr(e[1], env, key, ctr)
                uses_expr(e[2], env, key, ctr)

        def uses_cond(c, env, key, ctr):
            t = c[0]
            if t in ('lt', 'le', 'eq', 'ne'):
                uses_expr(c[1], env, key, ctr)
                uses_expr(c[2], env, key, ctr)
            elif t == 'acc':
                uses_expr(c[3], env, key, ctr)
                uses_cond(c[4], env, key, ctr)
            elif t in ('and', 'or'):
                uses_cond(c[1], env, key, ctr)
                uses_cond(c[2], env, key, ctr)
            elif t == 'not':
                uses_cond(c[1], env, key, ctr)

        def join(e1, e2):
            if e1 is None:
                return e2
            if e2 is None:
                return e1
            return {x: e1[x] | e2[x] for x in e1}

        def walk(s, env, path):
            """returns the environment after s (None if s never falls through)"""
            t = s[0]
            ctr = [0]
            if env is None:
                return None         # unreachable code (after a return)
            if t == 'ret':
                return None
            if t == 'seq':
                e1 = walk(s[1], env, path + (1,))
                return walk(s[2], e1, path + (2,))
            if t == 'assign':
                uses_expr(s[2], env, path, ctr)
                env = dict(env)
                env[s[1]] = frozenset([mkdef(path, s[1])])
                return env
            if t in ('havoc', 'pick'):
                env = dict(env)
                env[s[1]] = frozenset([mkdef(path, s[1])])
                return env
            if t == 'store':
                uses_expr(s[3], env, path, ctr)
                uses_expr(s[4], env, path, ctr)
                return env
            if t == 'touch':
                uses_expr(s[3], env, path, ctr)
                return env
            if t == 'push':
                uses_expr(s[2], env, path, ctr)
                return env
            if t == 'forRange':
                uses_expr(s[2], env, path, ctr)
                uses_expr(s[3], env, path, ctr)
                d = frozenset([mkdef(path, s[1])])
                cur = dict(env)
                while True:
                    head = dict(cur)
                    head[s[1]] = d
                    out = walk(s[4], head, path + (4,))
                    nxt = dict(join(cur, out))
                    nxt[s[1]] = nxt[s[1]] | d
                    if nxt == cur:
                        break
                    cur = nxt
                return cur
            if t == 'while':
                cur = dict(env)
                while True:
                    ctr[0] = 0
                    uses_cond(s[1], cur, path, ctr)
                    out = walk(s[2], cur, path + (2,))
                    nxt = join(cur, out)
                    if nxt == cur:
                        break
                    cur = nxt
                return cur
            if t == 'ite':
                uses_cond(s[1], env, path, ctr)
                return join(walk(s[2], env, path + (2,)), walk(s[3], env, path + (3,)))
            return env      # skip, pop, clear, ret
        nv = len(self.var_ids)
        env0 = {x: frozenset([('init', x)]) for x in range(nv)}
        walk(body, env0, ())
        # name the webs
        names = sorted(self.var_ids, key=lambda n: self.var_ids[n])
        web_var = {}
        new_ids = {}
        count = {}

        def var_of(defn, x):
            r = find(defn)
            if r not in web_var:
                base = names[x]
                count[base] = count.get(base, 0) + 1
                nm = base if count[base] == 1 else '%s~%d' % (base, count[base])
                web_var[r] = nm
                new_ids[nm] = len(new_ids)
            return new_ids[web_var[r]]
        for nm in names:             # declared variables (parameters, callee parameters) keep their name
            if nm in self.var_decl:
                var_of(('init', self.var_ids[nm]), self.var_ids[nm])

        def rw_expr(e, key, ctr):
            t = e[0]
            if t == 'var':
                k = (key, ctr[0])
                ctr[0] += 1
                return ('var', var_of(use_def.get(k, ('init', e[1])), e[1]))
            if t == 'load':
                return ('load', e[1], e[2], rw_expr(e[3], key, ctr))
            if t in ('add', 'sub'):
                a = rw_expr(e[1], key, ctr)
                return (t, a, rw_expr(e[2], key, ctr))
            return e

        def rw_cond(c, key, ctr):
            t = c[0]
            if t in ('lt', 'le', 'eq', 'ne'):
                a = rw_expr(c[1], key, ctr)
                return (t, a, rw_expr(c[2], key, ctr))
            if t == 'acc':
                i = rw_expr(c[3], key, ctr)
                return ('acc', c[1], c[2], i, rw_cond(c[4], key, ctr))
            if t in ('and', 'or'):
                a = rw_cond(c[1], key, ctr)
                return (t, a, rw_cond(c[2], key, ctr))
            if t == 'not':
                return ('not', rw_cond(c[1], key, ctr))
            return c

        def rw(s, path):
            t = s[0]
            ctr = [0]
            if t == 'seq':
                return ('seq', rw(s[1], path + (1,)), rw(s[2], path + (2,)))
            if t == 'assign':
                e = rw_expr(s[2], path, ctr)
                return ('assign', var_of(mkdef(path, s[1]), s[1]), e)
            if t == 'havoc':
                return ('havoc', var_of(mkdef(path, s[1]), s[1]))
            if t == 'pick':
                return ('pick', var_of(mkdef(path, s[1]), s[1]), s[2])
            if t == 'store':
                i = rw_expr(s[3], path, ctr)
                return ('store', s[1], s[2], i, rw_expr(s[4], path, ctr))
            if t == 'touch':
                return ('touch', s[1], s[2], rw_expr(s[3], path, ctr))
            if t == 'push':
                return ('push', s[1], rw_expr(s[2], path, ctr))
            if t == 'forRange':
                lo = rw_expr(s[2], path, ctr)
                hi = rw_expr(s[3], path, ctr)
                return ('forRange', var_of(mkdef(path, s[1]), s[1]), lo, hi, rw(s[4], path + (4,)))
            if t == 'while':
                return ('while', rw_cond(s[1], path, ctr), rw(s[2], path + (2,)))
            if t == 'ite':
                return ('ite', rw_cond(s[1], path, ctr), rw(s[2], path + (2,)), rw(s[3], path + (3,)))
            return s
        body2 = rw(body, ())
        self.var_ids = new_ids
        # webs that contain the value a variable has on entry (parameters, fields, C garbage): their kind is unknown
        # (a local read before any assignment is the business of the definite-assignment check, not of the kinds)
        entry = set(self.entry_var_names())
        self.entry_webs = {new_ids[nm] for r, nm in web_var.items()
                           if isinstance(find(r), tuple) and find(r)[0] == 'init' and nm in entry}
        return body2

    def entry_var_names(self):
        """variables that have a value when the kernel is entered: integer parameters, declared scalars that are
        parameters, integer fields of the object"""
        out = []
        for nm in self.var_ids:
            base = nm
            if '~' in base:
                continue
            if base in self.spec.get('_params', []) and self.types.get(base) == 'int':
                out.append(nm)
            elif base in self.spec.get('types', {}) and self.spec['types'][base] == 'int':
                out.append(nm)
        return out

    def run(self):
        self.collect_types()
        body = self.low_body(self.fnode.body)
        body = self.split_webs(body)
        vks, aks = self.infer(body)
        return body, vks, aks


def txt_idx(node):
    E = ExprNodes
    if isinstance(node, E.IndexNode):
        return txt(node.index)
    if isinstance(node, E.SimpleCallNode) and isinstance(node.function, E.AttributeNode):
        return str(node.function.attribute) + '()'
    return txt(node)


# ---- Lean emission ---------------------------------------------------------------------------------
def lean_int(c):
    return '(%d)' % c if c < 0 else str(c)


def lean_expr(e):
    t = e[0]
    if t == 'const':
        return '(.const %s)' % lean_int(e[1])
    if t == 'var':
        return '(.var %d)' % e[1]
    if t == 'dim':
        return '(.dim %d)' % e[1]
    if t == 'size':
        return '(.size %d)' % e[1]
    if t == 'load':
        return '(.load %d %d %s)' % (e[1], e[2], lean_expr(e[3]))
    return '(.%s %s %s)' % (t, lean_expr(e[1]), lean_expr(e[2]))


def lean_cond(c):
    t = c[0]
    if t in ('lt', 'le', 'eq', 'ne'):
        return '(.%s %s %s)' % (t, lean_expr(c[1]), lean_expr(c[2]))
    if t == 'nondet':
        return '(.nondet %d)' % c[1]
    if t == 'acc':
        return '(.acc %d %d %s %s)' % (c[1], c[2], lean_expr(c[3]), lean_cond(c[4]))
    if t in ('and', 'or'):
        return '(.%s %s %s)' % (t, lean_cond(c[1]), lean_cond(c[2]))
    return '(.not %s)' % lean_cond(c[1])


def lean_stmt(s, ind=2):
    t = s[0]
    p = ' ' * ind
    if t == 'skip':
        return '.skip'
    if t == 'seq':
        return '(.seq %s\n%s%s)' % (lean_stmt(s[1], ind + 2), p, lean_stmt(s[2], ind))
    if t == 'assign':
        return '(.assign %d %s)' % (s[1], lean_expr(s[2]))
    if t == 'havoc':
        return '(.havoc %d)' % s[1]
    if t == 'pick':
        return '(.pick %d %d)' % (s[1], s[2])
    if t == 'store':
        return '(.store %d %d %s %s)' % (s[1], s[2], lean_expr(s[3]), lean_expr(s[4]))
    if t == 'touch':
        return '(.touch %d %d %s)' % (s[1], s[2], lean_expr(s[3]))
    if t == 'push':
        return '(.push %d %s)' % (s[1], lean_expr(s[2]))
    if t == 'pop':
        return '(.pop %d %d)' % (s[1], s[2])
    if t == 'clear':
        return '(.clear %d)' % s[1]
    if t == 'forRange':
        return '(.forRange %d %s %s\n%s  %s)' % (s[1], lean_expr(s[2]), lean_expr(s[3]), p, lean_stmt(s[4], ind + 2))
    if t == 'while':
        return '(.while %s\n%s  %s)' % (lean_cond(s[1]), p, lean_stmt(s[2], ind + 2))
    if t == 'ite':
        return '(.ite %s\n%s  %s\n%s  %s)' % (lean_cond(s[1]), p, lean_stmt(s[2], ind + 2), p, lean_stmt(s[3], ind + 2))
    if t == 'ret':
        return '.ret'
    raise ValueError(t)


def lean_kind(k, dims):
    lo = 'none' if k[0] is None else '(some %s)' % lean_int(k[0])
    hi = 'none' if k[1] is None else '(some (%d, %s))' % (dims.index(k[1][0]), lean_int(k[1][1]))
    return '⟨%s, %s⟩' % (lo, hi)


def lean_str(s):
    return '"' + s.replace('\\', '\\\\').replace('"', '\\"') + '"'


def lean_name(nm):
    return ''.join(ch if ch.isalnum() else '_' for ch in nm)


# functions of the .pyx files that are deliberately not translated, with the reason
NOT_KERNELS = {
    'topology/minheap.pyx': {'parent': 'arithmetic helper, no array', 'left': 'arithmetic helper, no array',
                             'right': 'arithmetic helper, no array', 'MinHeap.__cinit__': 'sizes the two vectors (F19); '
                             'modelled by KHeap.cinit, the sizes are a SPECS entry', 'MinHeap.empty': 'reads self.size only'},
    'topology/core.pyx': {'get_core_decomposition': 'Python wrapper: check_format, check_square, calls compute_core'},
    'topology/cliques.pyx': {'count_cliques': 'Python wrapper: core values, argsort, get_dag, calls the kernel'},
    'topology/triangles.pyx': {'count_triangles': 'Python wrapper', 'get_clustering_coefficient': 'Python wrapper'},
    'topology/weisfeiler_lehman_core.pyx': {'is_lower': 'comparison of two tuples passed by value, no array'},
    'ranking/betweenness.pyx': {'Betweenness.__init__': 'stores a flag'},
    'hierarchy/paris.pyx': {'AggregateGraph.similarity': 'Python dict lookups only',
                            'AggregateGraph.merge': 'Python dict / set operations only',
                            'Paris.__init__': 'stores parameters'},
}


def list_functions(tree):
    """qualified names of all def / cdef functions of a parsed module"""
    out = []

    def walk(node, prefix):
        for ch in children(node):
            if isinstance(ch, (Nodes.DefNode, Nodes.CFuncDefNode)):
                nm = ch.name if isinstance(ch, Nodes.DefNode) else ch.declarator.base.name
                out.append(prefix + str(nm))
                continue
            if isinstance(ch, Nodes.CClassDefNode):
                walk(ch, str(ch.class_name) + '.')
                continue
            if isinstance(ch, Nodes.PyClassDefNode):
                walk(ch, str(ch.name) + '.')
                continue
            if isinstance(ch, ExprNodes.ExprNode):
                continue
            walk(ch, prefix)
    walk(tree, '')
    return out


def unlisted_functions(repo):
    """functions of sknetwork/**/*.pyx that are neither translated (SPECS) nor excused (NOT_KERNELS)"""
    out = []
    base = os.path.join(repo, 'sknetwork')
    listed = {}
    for spec in SPECS:
        listed.setdefault(spec['file'], set()).add(spec['func'])
    for d, _, files in os.walk(base):
        for f in sorted(files):
            if not f.endswith('.pyx'):
                continue
            rel = os.path.relpath(os.path.join(d, f), base)
            try:
                tree = parse_from_strings(rel.replace('/', '.'), open(os.path.join(d, f)).read())
            except Exception as e:  # noqa
                out.append({'file': rel, 'function': None, 'error': repr(e)})
                continue
            for fn in list_functions(tree):
                if fn in listed.get(rel, set()) or fn in NOT_KERNELS.get(rel, {}):
                    continue
                out.append({'file': rel, 'function': fn})
    return out


def translate(repo):
    """Parse and lower all kernels. Returns (kernels, problems)."""
    trees = {}
    kernels = []
    problems = []
    specs_by_name = {s['name']: s for s in SPECS}
    fnodes = {}
    for spec in SPECS:
        path = os.path.join(repo, 'sknetwork', spec['file'])
        if spec['file'] not in trees:
            try:
                src = open(path).read()
                trees[spec['file']] = parse_from_strings(spec['file'].replace('/', '.'), src)
            except Exception as e:  # noqa
                trees[spec['file']] = None
                problems.append({'file': spec['file'], 'error': 'parse: %r' % (e,)})
        tree = trees[spec['file']]
        if tree is None:
            continue
        f = find_func(tree, spec['func'])
        fnodes[spec['name']] = f
        if f is not None:
            args = f.args if isinstance(f, Nodes.DefNode) else f.declarator.args
            spec['_params'] = [decl_name(a.declarator) for a in args if decl_name(a.declarator) not in ('', 'self')]
    for spec in SPECS:
        tree = trees.get(spec['file'])
        f = fnodes.get(spec['name'])
        if tree is None:
            continue
        if f is None:
            problems.append({'kernel': spec['name'], 'error': 'function %s not found in %s' % (spec['func'], spec['file'])})
            continue
        try:
            lw = Lower(spec, f, module_tuple_types(tree), specs_by_name)
            body, vks, aks = lw.run()
        except Exception as e:  # noqa
            import traceback
            problems.append({'kernel': spec['name'], 'error': 'lowering: %r' % (e,), 'trace': traceback.format_exc()[-1500:]})
            continue
        kernels.append(dict(name=spec['name'], file=spec['file'], func=spec['func'], lower=lw, body=body, vks=vks, aks=aks))
    return kernels, problems


def describe(kernels):
    out = []
    for k in kernels:
        lw = k['lower']
        arrs = sorted(lw.arr_ids, key=lambda n: lw.arr_ids[n])
        out.append(dict(
            name=k['name'], lean=lean_name(k['name']), file=k['file'], func=k['func'], dims=lw.dims,
            params=list(lw.spec.get('_params', [])),
            entry_vars=lw.entry_var_names(),
            int_params=[p for p in lw.spec.get('_params', []) if lw.types.get(p) == 'int'],
            sites=lw.sites, vars=sorted(lw.var_ids, key=lambda n: lw.var_ids[n]), arrays=arrs,
            array_info={n: dict(static=lw.arr_info[n]['static'], size=lw.arr_info[n]['size'], float=lw.arr_info[n]['float'],
                                elem=k['aks'][lw.arr_ids[n]]) for n in arrs},
            var_kinds={n: k['vks'][lw.var_ids[n]] for n in lw.var_ids},
            calls=sorted(set(lw.calls)), prange=lw.prange, notes=lw.notes))
    return out


def emit_lean(kernels):
    lines = ['/- GENERATED by tools/translate/kernels.py from the Cython sources of the repository under check.',
             '   Do not edit: regenerated on every run of ./check C17. -/',
             'import SkNet.Model.KernelIR', '', 'namespace SkNet.Generated.KernelIR', 'open SkNet.IR', '']
    names = []
    for k in kernels:
        lw = k['lower']
        dims = lw.dims
        nv = len(lw.var_ids)
        vnames = sorted(lw.var_ids, key=lambda n: lw.var_ids[n])
        anames = sorted(lw.arr_ids, key=lambda n: lw.arr_ids[n])
        vkinds = [lean_kind(k['vks'][i], dims) for i in range(nv)]
        ainfos = []
        for nm in anames:
            info = lw.arr_info[nm]
            i = lw.arr_ids[nm]
            size = 'none' if (info['size'] is None or not info['static']) else '(some (%d, %s))' % (
                dims.index(info['size'][0]), lean_int(info['size'][1]))
            ainfos.append('⟨%s, %s⟩' % (size, lean_kind(k['aks'][i], dims)))
        ln = lean_name(k['name'])
        names.append(ln)
        lines.append('/-- `%s` of sknetwork/%s; dimension symbols %s -/' % (k['func'], k['file'], ', '.join(
            '%d=%s' % (i, d) for i, d in enumerate(dims))))
        lines.append('def %s : Kernel where' % ln)
        lines.append('  name := %s' % lean_str(k['name']))
        lines.append('  env := { vars := [%s],\n           arrs := [%s] }' % (', '.join(vkinds), ', '.join(ainfos)))
        lines.append('  body :=\n    %s' % lean_stmt(k['body'], 4))
        lines.append('  params := [%s]' % ', '.join(str(lw.var_ids[nm]) for nm in lw.entry_var_names()))
        lines.append('  siteNames := [%s]' % ', '.join(lean_str('%s @%d' % (s['text'], s['line'])) for s in lw.sites))
        lines.append('  varNames := [%s]' % ', '.join(lean_str(v) for v in vnames))
        lines.append('  arrNames := [%s]' % ', '.join(lean_str(a) for a in anames))
        lines.append('')
    lines.append('def all : List Kernel := [%s]' % ', '.join(names))
    lines.append('')
    lines.append('end SkNet.Generated.KernelIR')
    return '\n'.join(lines) + '\n'


def generate(repo, lean_dir, json_path=None):
    kernels, problems = translate(repo)
    text = emit_lean(kernels)
    out = os.path.join(lean_dir, 'SkNet', 'Generated', 'KernelIR.lean')
    os.makedirs(os.path.dirname(out), exist_ok=True)
    if not os.path.exists(out) or open(out).read() != text:
        with open(out, 'w') as fh:
            fh.write(text)
    desc = {'kernels': describe(kernels), 'problems': problems, 'unlisted': unlisted_functions(repo)}
    if json_path:
        os.makedirs(os.path.dirname(json_path), exist_ok=True)
        with open(json_path, 'w') as fh:
            json.dump(desc, fh, indent=1, default=str)
    return desc


if __name__ == '__main__':
    repo = sys.argv[1] if len(sys.argv) > 1 else '/repo'
    here = os.path.dirname(os.path.dirname(os.path.dirname(os.path.abspath(__file__))))
    d = generate(repo, os.path.join(here, 'lean'), os.path.join(here, '.cache', 'c17', 'kernels.json'))
    for k in d['kernels']:
        print(k['name'], 'sites=%d' % len(k['sites']), 'calls=%s' % k['calls'], 'prange=%d' % k['prange'])
        for n in k['notes']:
            print('   note:', n)
    for p in d['problems'][:4]:
        print('PROBLEM', str(p)[:1500])
