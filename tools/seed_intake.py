#!/usr/bin/env python3
"""Confirm a seeded change produced by a sub-agent and file it under /verif/seeded/<id>/.

  tools/seed_intake.py <src worktree> <id> <property> "<what it needs to manifest>"

In a fresh scratch worktree of /repo's HEAD (never /repo itself):
  1. build the extensions, run the demonstration on the unchanged tree      -> must exit 0
  2. apply patch.diff, rebuild, run the demonstration                       -> must exit != 0
  3. run the repository's baseline test command with the change             -> every stable_pass test must pass
Only then are patch.diff, the demonstration and meta.json written. The worktree is removed at the end.
"""
import json
import os
import shutil
import subprocess
import sys
import xml.etree.ElementTree as ET

VERIF = os.path.dirname(os.path.dirname(os.path.abspath(__file__)))


def sh(cmd, cwd=None, timeout=1800):
    r = subprocess.run(cmd, shell=True, cwd=cwd, stdout=subprocess.PIPE, stderr=subprocess.STDOUT, text=True, timeout=timeout)
    return r.returncode, r.stdout


def main():
    src, sid, prop, needs = sys.argv[1:5]
    patch = open(os.path.join(src, 'patch.diff')).read()
    demos = [f for f in os.listdir(src) if f.startswith('demo_') and f.endswith('.py')]
    if not demos or not patch.strip():
        print('missing patch.diff or demo_*.py in', src)
        return 2
    demo = demos[0]
    wt = '/root/scratch/seedverify_%s' % sid
    sh('git -C /repo worktree remove --force %s' % wt)
    shutil.rmtree(wt, ignore_errors=True)
    rc, out = sh('git -C /repo worktree add --detach %s' % wt)
    ran = []
    try:
        shutil.copy(os.path.join(src, demo), os.path.join(wt, demo))
        build = '/venv/bin/python setup.py build_ext --inplace -j 16 > /dev/null 2>&1'
        rc, _ = sh(build, cwd=wt)
        ran.append(build)
        rc0, out0 = sh('/venv/bin/python %s' % demo, cwd=wt)
        ran.append('demo on unchanged tree -> exit %d' % rc0)
        open(os.path.join(wt, 'p.diff'), 'w').write(patch)
        rca, outa = sh('git apply p.diff', cwd=wt)
        if rca != 0:
            print('patch does not apply to HEAD:', outa[-500:])
            return 2
        if '.pyx' in patch or '.pxd' in patch:
            sh(build, cwd=wt)
            ran.append('rebuild after patch')
        rc1, out1 = sh('/venv/bin/python %s' % demo, cwd=wt)
        ran.append('demo with change -> exit %d' % rc1)
        b = json.load(open('/root/.vp/BASELINE.json'))
        xml = os.path.join(wt, 'junit.xml')
        cmd = '/venv/bin/python -m pytest -ra -q -p no:cacheprovider --timeout=900 --continue-on-collection-errors --junitxml=%s' % xml
        sh(cmd, cwd=wt)
        ran.append(cmd.replace(xml, '<file>') + ' (in the worktree, with the change)')
        passed = set()
        for tc in ET.parse(xml).getroot().iter('testcase'):
            if not any(ch.tag in ('failure', 'error', 'skipped') for ch in tc):
                passed.add(tc.get('classname') + '::' + tc.get('name'))
        missing = sorted(set(b['stable_pass']) - passed)
        ok = (rc0 == 0 and rc1 != 0 and not missing)
        print('demo clean exit', rc0, '| demo changed exit', rc1, '| baseline tests missing', len(missing), missing[:5])
        if rc1 != 0:
            print('demo output with change:', out1[-600:])
        if rc0 != 0:
            print('demo output on clean tree:', out0[-600:])
        if not ok:
            print('NOT CONFIRMED')
            return 1
        d = os.path.join(VERIF, 'seeded', sid)
        os.makedirs(d, exist_ok=True)
        open(os.path.join(d, 'patch.diff'), 'w').write(patch)
        shutil.copy(os.path.join(src, demo), os.path.join(d, demo))
        head = sh('git -C /repo rev-parse --short HEAD')[1].strip()
        meta = {'id': sid, 'property': prop, 'checks': [prop], 'needs_to_manifest': needs, 'repo_head': head,
                'files_changed': sorted({ln[6:] for ln in patch.split('\n') if ln.startswith('+++ b/')}),
                'demonstration': demo, 'confirmed': {'demo_exit_unchanged': rc0, 'demo_exit_changed': rc1,
                                                     'baseline_stable_pass_missing': missing, 'ran': ran},
                'demo_output_with_change': out1[-800:]}
        json.dump(meta, open(os.path.join(d, 'meta.json'), 'w'), indent=1)
        print('CONFIRMED ->', d)
        return 0
    finally:
        sh('git -C /repo worktree remove --force %s' % wt)
        shutil.rmtree(wt, ignore_errors=True)


if __name__ == '__main__':
    sys.exit(main())
