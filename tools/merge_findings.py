#!/usr/bin/env python3
"""Merge known_findings.d/*.jsonl (one fragment per property, written by whoever built the check) into the single
committed file known_findings.jsonl (sorted by property, fixed entries first), dropping exact duplicates of
(property, id, status).  tools/vlib/core.py reads both places, so the fragments may stay while work is going on."""
import glob
import json
import os

VERIF = os.path.dirname(os.path.dirname(os.path.abspath(__file__)))


def main():
    rows, seen = [], set()
    # fragments first: they are the source; an entry of the merged file survives only if no fragment has its (property, id)
    paths = sorted(glob.glob(os.path.join(VERIF, 'known_findings.d', '*.jsonl'))) + [os.path.join(VERIF, 'known_findings.jsonl')]
    for p in paths:
        if not os.path.exists(p):
            continue
        for ln in open(p):
            ln = ln.strip()
            if not ln or ln.startswith('#'):
                continue
            d = json.loads(ln)
            k = (d['property'], d['id'])
            if k in seen:
                continue
            seen.add(k)
            rows.append(d)
    rows.sort(key=lambda d: (d['property'], d['status'] != 'fixed', d['id']))
    with open(os.path.join(VERIF, 'known_findings.jsonl'), 'w') as f:
        for d in rows:
            f.write(json.dumps(d, ensure_ascii=False) + '\n')
    print('known_findings.jsonl: %d entries (%d fixed, %d known)' % (
        len(rows), sum(d['status'] == 'fixed' for d in rows), sum(d['status'] == 'known' for d in rows)))


if __name__ == '__main__':
    main()
